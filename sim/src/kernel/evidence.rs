//! Evidence files (`/verif/evidence/<id>.json`), written by the supervisor from what the
//! workers measured on this run.

use super::supervisor::{BatchResult, RunArgs};
use super::*;
use serde_json::json;
use std::collections::{BTreeMap, BTreeSet};
use std::path::PathBuf;

pub fn summarise(
    def: &EngineDef,
    a: &RunArgs,
    batch: &BatchResult,
    violation: Option<&(u64, Violation, PathBuf, bool)>,
    wall: f64,
) -> Value {
    let desc = (def.describe)(&a.prop);
    let mut stats = Stats::default();
    let mut distinct: BTreeSet<u64> = BTreeSet::new();
    let mut runs = 0u64;
    let mut nontrivial_runs = 0u64;
    let mut truncated = false;
    let mut cap_hit = false;
    let mut samples: Vec<(u64, Value)> = Vec::new();
    let mut known_hits: BTreeSet<String> = BTreeSet::new();
    for r in &batch.reports {
        stats.merge(&r.stats);
        distinct.extend(r.nontrivial_digests.iter().copied());
        runs += r.runs;
        nontrivial_runs += r.nontrivial_runs;
        truncated |= r.truncated;
        cap_hit |= r.digest_cap_hit;
        samples.extend(r.samples.iter().cloned());
        known_hits.extend(r.known_hits.iter().cloned());
    }
    samples.sort_by_key(|s| s.0);
    samples.truncate(3);
    let mut samples_json: Vec<Value> = samples
        .into_iter()
        .map(|(i, s)| json!({"run_index": i, "run_seed": rng::run_seed(a.seed, i), "scenario": s}))
        .collect();
    if samples_json.is_empty() {
        // No non-trivial run: still show what a generated case looks like.
        let sc = (def.generate)(&a.prop, rng::run_seed(a.seed, 0), a.tier);
        samples_json.push(json!({"run_index": 0, "nontrivial": false, "scenario": (def.summarize)(&a.prop, &sc)}));
    }

    let mut faults: BTreeMap<String, u64> = BTreeMap::new();
    let mut probes: BTreeMap<String, u64> = BTreeMap::new();
    let mut simtime: BTreeMap<String, u64> = BTreeMap::new();
    let mut other: BTreeMap<String, u64> = BTreeMap::new();
    for (k, v) in &stats.counters {
        if let Some(f) = k.strip_prefix("fault.") {
            faults.insert(f.to_string(), *v);
        } else if let Some(p) = k.strip_prefix("probe.") {
            probes.insert(p.to_string(), *v);
        } else if let Some(t) = k.strip_prefix("time.") {
            simtime.insert(t.to_string(), *v);
        } else {
            other.insert(k.to_string(), *v);
        }
    }
    let first_seed = rng::run_seed(a.seed, 0);
    let last_seed = rng::run_seed(a.seed, a.n.saturating_sub(1));
    let violations = if violation.is_some() { 1 } else { 0 };
    json!({
        "property_id": a.prop,
        "tier": a.tier.name(),
        "seed": a.seed,
        "level": "exploration",
        "wall_s": wall,
        "violations": violations,
        "coverage": {
            "evaluations": runs,
            "distinct_nontrivial": distinct.len(),
            "nontrivial_runs": nontrivial_runs,
            "rule": desc.rule,
            "samples": samples_json,
            "distinct_count_capped": cap_hit,
            "runs_planned": a.n,
            "budget_truncated": truncated,
            "runs_per_hour": (runs as f64 / wall.max(1e-9) * 3600.0) as u64,
            "run_seed_first": first_seed,
            "run_seed_last": last_seed,
            "workers": a.nworkers,
            "simulated_time": simtime,
            "faults_fired": faults,
            "probes": probes,
            "counters": other,
            "distinct_states_measure": desc.distinct_state_measure,
            "real_components": desc.real_components,
            "stub_components": desc.stub_components,
            "known_findings_seen": known_hits.into_iter().collect::<Vec<_>>(),
            "worker_deaths": batch.deaths.iter().map(|(i, s)| json!({"run_index": i, "status": s})).collect::<Vec<_>>(),
            "violation": violation.map(|(i, v, p, c)| json!({
                "run_index": i, "invariant": v.invariant, "signature": v.signature,
                "detail": v.detail, "replay": p.display().to_string(), "replay_confirmed_in_fresh_process": c
            })),
        },
        "assumptions": desc.assumptions,
    })
}

pub fn write(prop: &str, v: &Value) {
    let dir = crate::verif_root().join("evidence");
    let _ = std::fs::create_dir_all(&dir);
    let path = dir.join(format!("{prop}.json"));
    let tmp = dir.join(format!(".{prop}.json.tmp"));
    std::fs::write(&tmp, serde_json::to_string_pretty(v).expect("evidence serializes"))
        .expect("write evidence");
    std::fs::rename(&tmp, &path).expect("rename evidence");
}
