//! Supervisor / worker processes, minimisation, replay files.
//!
//! `fvsim run` forks W worker processes; worker w executes run indices i ≡ w (mod W),
//! i < N. A simulated run is single-threaded, so the result of run i is independent of W.
//! A worker that dies is re-driven with per-run begin markers to pin the run index.

use super::evidence;
use super::*;
use serde_json::json;
use std::collections::BTreeSet;
use std::io::{BufRead, BufReader, Write};
use std::path::PathBuf;
use std::process::{Command, Stdio};
use std::time::{Duration, Instant};

pub const MAX_SHRINK_EXECS: usize = 2000;
pub const DIGEST_CAP: usize = 400_000;

#[derive(Clone, Debug, Serialize, Deserialize)]
pub struct ReplayFile {
    pub property: String,
    pub engine: String,
    pub seed: u64,
    pub run_index: u64,
    pub run_seed: u64,
    pub tier: String,
    pub invariant: String,
    pub signature: String,
    pub detail: String,
    pub digest: u64,
    pub minimised: bool,
    pub shrink_execs: usize,
    pub scenario: Value,
    #[serde(default)]
    pub trace: Option<Vec<String>>,
}

#[derive(Clone, Debug, Default, Serialize, Deserialize)]
pub struct WorkerReport {
    pub w: u64,
    pub runs: u64,
    pub truncated: bool,
    pub stats: Stats,
    pub nontrivial_runs: u64,
    pub nontrivial_digests: Vec<u64>,
    pub digest_cap_hit: bool,
    pub samples: Vec<(u64, Value)>,
    pub violation: Option<(u64, Violation, u64)>,
    pub known_hits: Vec<String>,
    /// (index, digest) pairs, only with --emit-digests.
    pub digests: Vec<(u64, u64)>,
    pub wall_s: f64,
    /// Wall time and index of the slowest run (diagnostic only; never part of a digest).
    #[serde(default)]
    pub slowest: (u64, u64),
}

pub struct WorkerArgs {
    pub prop: String,
    pub tier: Tier,
    pub seed: u64,
    pub w: u64,
    pub nworkers: u64,
    pub n: u64,
    pub budget_s: f64,
    pub begin_markers: bool,
    pub emit_digests: bool,
    pub from: u64,
}

pub fn worker_main(def: &EngineDef, a: &WorkerArgs) -> ! {
    install_panic_hook();
    let known = KnownFindings::load();
    let start = Instant::now();
    let mut rep = WorkerReport { w: a.w, ..Default::default() };
    let mut seen: BTreeSet<u64> = BTreeSet::new();
    let stdout = std::io::stdout();
    let mut i = a.w;
    while i < a.from {
        i += a.nworkers;
    }
    while i < a.n {
        if start.elapsed().as_secs_f64() > a.budget_s {
            rep.truncated = true;
            break;
        }
        if a.begin_markers {
            let mut o = stdout.lock();
            let _ = writeln!(o, "B {i}");
            let _ = o.flush();
        } else if rep.runs % 256 == 0 {
            let mut o = stdout.lock();
            let _ = writeln!(o, "C {i}");
            let _ = o.flush();
        }
        let rs = rng::run_seed(a.seed, i);
        let sc = (def.generate)(&a.prop, rs, a.tier);
        // self-test of the supervisor only (never set by the checks): die like an abort would
        if std::env::var("FVSIM_SELFTEST_ABORT_AT").ok().and_then(|s| s.parse::<u64>().ok()) == Some(i) {
            std::process::abort();
        }
        let t0 = Instant::now();
        let out = execute(def, &a.prop, &sc, &mut rep.stats, &known, false);
        let ms = t0.elapsed().as_millis() as u64;
        if ms > rep.slowest.0 {
            rep.slowest = (ms, i);
        }
        rep.runs += 1;
        if a.emit_digests {
            rep.digests.push((i, out.digest));
        }
        for k in out.known_hits {
            if !rep.known_hits.contains(&k) {
                rep.known_hits.push(k);
            }
        }
        if out.nontrivial {
            rep.nontrivial_runs += 1;
            if seen.len() < DIGEST_CAP {
                if seen.insert(out.digest) && rep.samples.len() < 3 {
                    rep.samples.push((i, (def.summarize)(&a.prop, &sc)));
                }
            } else {
                rep.digest_cap_hit = true;
            }
        }
        if let Some(v) = out.violation {
            rep.violation = Some((i, v, out.digest));
            break;
        }
        i += a.nworkers;
    }
    rep.nontrivial_digests = seen.into_iter().collect();
    rep.wall_s = start.elapsed().as_secs_f64();
    let mut o = stdout.lock();
    let _ = writeln!(o, "R {}", serde_json::to_string(&rep).expect("report serializes"));
    let _ = o.flush();
    std::process::exit(0)
}

enum WorkerEnd {
    Report(Box<WorkerReport>),
    /// Died; last chunk marker seen.
    Died { last_marker: Option<u64>, status: String },
}

fn spawn_worker(
    prop: &str,
    tier: Tier,
    seed: u64,
    w: u64,
    nworkers: u64,
    n: u64,
    budget_s: f64,
    begin_markers: bool,
    emit_digests: bool,
    from: u64,
) -> std::process::Child {
    let exe = std::env::current_exe().expect("current_exe");
    let mut c = Command::new(exe);
    c.arg("worker")
        .arg("--prop").arg(prop)
        .arg("--tier").arg(tier.name())
        .arg("--seed").arg(seed.to_string())
        .arg("--w").arg(w.to_string())
        .arg("--nworkers").arg(nworkers.to_string())
        .arg("--n").arg(n.to_string())
        .arg("--budget-s").arg(format!("{budget_s}"))
        .arg("--from").arg(from.to_string());
    if begin_markers {
        c.arg("--begin-markers");
    }
    if emit_digests {
        c.arg("--emit-digests");
    }
    c.stdin(Stdio::null()).stdout(Stdio::piped()).stderr(Stdio::inherit());
    c.spawn().expect("spawn worker")
}

fn collect(mut child: std::process::Child, kill_after: Duration) -> WorkerEnd {
    let out = child.stdout.take().expect("stdout");
    let reader = BufReader::new(out);
    let mut last_marker = None;
    let mut report = None;
    let start = Instant::now();
    // The worker enforces its own budget; the watchdog covers a run that never returns.
    let (tx, rx) = std::sync::mpsc::channel::<String>();
    let th = std::thread::spawn(move || {
        for line in reader.lines() {
            match line {
                Ok(l) => {
                    if tx.send(l).is_err() {
                        break;
                    }
                }
                Err(_) => break,
            }
        }
    });
    loop {
        match rx.recv_timeout(Duration::from_millis(500)) {
            Ok(l) => {
                if let Some(rest) = l.strip_prefix("R ") {
                    report = serde_json::from_str::<WorkerReport>(rest).ok();
                } else if let Some(rest) = l.strip_prefix("C ").or_else(|| l.strip_prefix("B ")) {
                    last_marker = rest.trim().parse::<u64>().ok();
                }
            }
            Err(std::sync::mpsc::RecvTimeoutError::Timeout) => {
                if start.elapsed() > kill_after {
                    let _ = child.kill();
                    let _ = child.wait();
                    let _ = th.join();
                    return WorkerEnd::Died { last_marker, status: "watchdog".into() };
                }
            }
            Err(std::sync::mpsc::RecvTimeoutError::Disconnected) => break,
        }
    }
    let _ = th.join();
    let status = child.wait().map(|s| format!("{s}")).unwrap_or_else(|e| e.to_string());
    match report {
        Some(r) => WorkerEnd::Report(Box::new(r)),
        None => WorkerEnd::Died { last_marker, status },
    }
}

pub struct RunArgs {
    pub prop: String,
    pub tier: Tier,
    pub seed: u64,
    pub nworkers: u64,
    pub n: u64,
    pub budget_s: f64,
    pub write_evidence: bool,
}

pub struct BatchResult {
    pub reports: Vec<WorkerReport>,
    pub deaths: Vec<(u64, String)>,
}

/// Run a batch on W workers and gather their reports. A dead worker is re-driven from its
/// last chunk marker with begin markers to pin the run index that kills the process.
pub fn run_batch(a: &RunArgs, emit_digests: bool) -> BatchResult {
    // Generous: the wall clock is the one thing the simulator does not own, and a loaded machine
    // must not turn into an alarm. A run that truly never returns still trips it.
    let watchdog = Duration::from_secs_f64(a.budget_s * 3.0 + 300.0);
    let children: Vec<_> = (0..a.nworkers)
        .map(|w| {
            (
                w,
                spawn_worker(&a.prop, a.tier, a.seed, w, a.nworkers, a.n, a.budget_s, false, emit_digests, 0),
            )
        })
        .collect();
    let handles: Vec<_> = children
        .into_iter()
        .map(|(w, c)| (w, std::thread::spawn(move || collect(c, watchdog))))
        .collect();
    let mut reports = Vec::new();
    let mut deaths = Vec::new();
    for (w, h) in handles {
        match h.join().expect("collector thread") {
            WorkerEnd::Report(r) => reports.push(*r),
            WorkerEnd::Died { last_marker, status } => {
                eprintln!("worker {w} died ({status}); re-driving from marker {last_marker:?}");
                let from = last_marker.unwrap_or(0);
                let by_watchdog = status == "watchdog";
                // A watchdog kill is re-driven over the worker's whole remaining range (a slow
                // machine, not the code, may have caused it); any other death over the next chunk.
                let upto = if by_watchdog { a.n } else { (from + 256 * a.nworkers + 1).min(a.n) };
                let c = spawn_worker(
                    &a.prop, a.tier, a.seed, w, a.nworkers, upto, a.budget_s.max(120.0), true, false, from,
                );
                match collect(c, watchdog) {
                    WorkerEnd::Report(r) => {
                        eprintln!("worker {w}: death not reproduced on re-drive ({status})");
                        reports.push(*r);
                        if by_watchdog {
                            // Every run is deterministic, so a hang would have hung again: the
                            // first attempt was starved of CPU. Not an error, but say so.
                            eprintln!("worker {w}: first attempt was killed by the wall-clock watchdog only; continuing");
                        } else {
                            deaths.push((u64::MAX, format!("unreproduced worker death: {status}")));
                        }
                    }
                    WorkerEnd::Died { last_marker, status } => {
                        deaths.push((last_marker.unwrap_or(from), status));
                    }
                }
            }
        }
    }
    BatchResult { reports, deaths }
}

fn replay_dir() -> PathBuf {
    let d = crate::verif_root().join("replays");
    let _ = std::fs::create_dir_all(&d);
    d
}

/// Greedy delta debugging on scenario data while the same invariant keeps failing.
pub fn minimise(
    def: &EngineDef,
    prop: &str,
    scenario: &Value,
    invariant: &str,
    known: &KnownFindings,
) -> (Value, usize, RunOut) {
    let mut best = scenario.clone();
    let t0 = Instant::now();
    let mut best_out = execute_isolated(def, prop, &best, known, false);
    let mut execs = 1usize;
    // a scenario that kills or hangs its process is expensive per candidate: fewer candidates
    let (max_execs, max_wall) = if invariant == "process-death" { (60usize, Duration::from_secs(900)) } else { (MAX_SHRINK_EXECS, Duration::from_secs(900)) };
    'outer: loop {
        let cands = (def.shrink)(prop, &best);
        for c in cands {
            if execs >= max_execs || t0.elapsed() > max_wall {
                break 'outer;
            }
            if c == best {
                continue;
            }
            execs += 1;
            let out = execute_isolated(def, prop, &c, known, false);
            if let Some(v) = &out.violation {
                if v.invariant == invariant {
                    best = c;
                    best_out = out;
                    continue 'outer;
                }
            }
        }
        break;
    }
    (best, execs, best_out)
}

/// Handle a violation found at run index `i`: minimise, write the replay file, confirm
/// the replay in a fresh process. Returns the replay path.
pub fn report_violation(
    def: &EngineDef,
    a: &RunArgs,
    i: u64,
    v: &Violation,
) -> (PathBuf, bool, Violation) {
    let known = KnownFindings::load();
    let rs = rng::run_seed(a.seed, i);
    let sc = (def.generate)(&a.prop, rs, a.tier);
    let is_crash = v.invariant == "process-death";
    // Candidates run in forked children, so a scenario that kills its process can be minimised too.
    let (min_sc, execs, out) = minimise(def, &a.prop, &sc, &v.invariant, &known);
    let mv = out.violation.clone().unwrap_or_else(|| v.clone());
    let write = |scenario: &Value, minimised: bool, viol: &Violation, digest: u64, suffix: &str| -> PathBuf {
        let traced = execute_isolated(def, &a.prop, scenario, &known, true).trace;
        let rf = ReplayFile {
            property: a.prop.clone(),
            engine: def.name.to_string(),
            seed: a.seed,
            run_index: i,
            run_seed: rs,
            tier: a.tier.name().to_string(),
            invariant: viol.invariant.clone(),
            signature: viol.signature.clone(),
            detail: viol.detail.clone(),
            digest,
            minimised,
            shrink_execs: execs,
            scenario: scenario.clone(),
            trace: traced,
        };
        let path = replay_dir().join(format!("{}-{:x}-{}{}.json", a.prop, a.seed, i, suffix));
        std::fs::write(&path, serde_json::to_string_pretty(&rf).expect("replay serializes"))
            .expect("write replay");
        path
    };
    let min_path = write(&min_sc, true, &mv, out.digest, "");
    // Confirm in a fresh process.
    let ok = replay_in_fresh_process(&min_path, &mv.invariant);
    if ok || is_crash {
        (min_path, ok, mv)
    } else {
        eprintln!("harness defect: minimised replay did not reproduce in a fresh process; reporting the unminimised scenario");
        let o = execute_isolated(def, &a.prop, &sc, &known, false);
        let p = write(&sc, false, v, o.digest, "-full");
        let ok2 = replay_in_fresh_process(&p, &v.invariant);
        (p, ok2, v.clone())
    }
}

pub fn replay_in_fresh_process(path: &std::path::Path, invariant: &str) -> bool {
    let exe = std::env::current_exe().expect("current_exe");
    let out = Command::new(exe)
        .arg("replay")
        .arg(path)
        .arg("--quiet")
        .stdin(Stdio::null())
        .output();
    match out {
        Ok(o) => {
            let s = String::from_utf8_lossy(&o.stdout);
            if invariant == "process-death" {
                // Either the replay process died itself or it reported the death.
                return !o.status.success();
            }
            o.status.code() == Some(1) && s.contains(&format!("invariant={invariant}"))
        }
        Err(_) => false,
    }
}

/// `fvsim replay <file>`: exit 1 + VIOLATION line when the violation reproduces, 0 when not.
pub fn replay_main(path: &str, quiet: bool, trace: bool) -> ! {
    install_panic_hook();
    let s = std::fs::read_to_string(path).unwrap_or_else(|e| {
        eprintln!("harness error: cannot read {path}: {e}");
        std::process::exit(2)
    });
    let rf: ReplayFile = serde_json::from_str(&s).unwrap_or_else(|e| {
        eprintln!("harness error: cannot parse {path}: {e}");
        std::process::exit(2)
    });
    let def = crate::engine_for(&rf.property).unwrap_or_else(|| {
        eprintln!("harness error: no engine for {}", rf.property);
        std::process::exit(2)
    });
    let known = KnownFindings::load();
    let mut stats = Stats::default();
    let out = execute(def, &rf.property, &rf.scenario, &mut stats, &known, trace);
    if trace {
        if let Some(t) = &out.trace {
            for l in t {
                println!("  {l}");
            }
        }
    }
    match out.violation {
        Some(v) => {
            if !quiet {
                println!("replayed {path}: digest={:#x} (recorded {:#x})", out.digest, rf.digest);
                println!("  detail: {}", v.detail);
            }
            println!("invariant={} signature={}", v.invariant, v.signature);
            println!("VIOLATION property={} replay={}", rf.property, path);
            std::process::exit(1)
        }
        None => {
            if !out.known_hits.is_empty() {
                for k in &out.known_hits {
                    println!("KNOWN-FINDING: property={} {}", rf.property, k);
                }
            }
            if !quiet {
                println!("replayed {path}: no violation (recorded invariant {})", rf.invariant);
            }
            std::process::exit(0)
        }
    }
}

pub fn run_main(def: &EngineDef, a: &RunArgs) -> ! {
    install_panic_hook();
    let start = Instant::now();
    println!(
        "fvsim: property={} engine={} tier={} seed={:#x} runs={} workers={} budget_s={}",
        a.prop, def.name, a.tier.name(), a.seed, a.n, a.nworkers, a.budget_s
    );
    let batch = run_batch(a, false);
    let known = KnownFindings::load();

    // Pick the violation with the smallest run index (deterministic for a fixed N).
    let mut first: Option<(u64, Violation)> = None;
    for r in &batch.reports {
        if let Some((i, v, _)) = &r.violation {
            if first.as_ref().map(|(j, _)| i < j).unwrap_or(true) {
                first = Some((*i, v.clone()));
            }
        }
    }
    let mut harness_error = false;
    for (i, status) in &batch.deaths {
        if *i == u64::MAX {
            harness_error = true;
            continue;
        }
        let v = Violation {
            invariant: "process-death".into(),
            signature: "process-death".into(),
            detail: format!("worker process died while executing run {i}: {status}"),
        };
        if known.matches(&a.prop, &v.signature).is_none()
            && first.as_ref().map(|(j, _)| i < j).unwrap_or(true)
        {
            first = Some((*i, v));
        }
    }

    let mut violation_out = None;
    if let Some((i, v)) = &first {
        let (path, confirmed, mv) = report_violation(def, a, *i, v);
        violation_out = Some((*i, mv, path, confirmed));
    }

    let wall = start.elapsed().as_secs_f64();
    let summary = evidence::summarise(def, a, &batch, violation_out.as_ref(), wall);
    if a.write_evidence {
        evidence::write(&a.prop, &summary);
    }
    let known_hits: BTreeSet<String> = batch
        .reports
        .iter()
        .flat_map(|r| r.known_hits.iter().cloned())
        .collect();
    for k in &known_hits {
        let what = known
            .matches(&a.prop, k)
            .map(|e| e.what.clone())
            .unwrap_or_default();
        println!("KNOWN-FINDING: property={} {} — {}", a.prop, k, what);
    }
    let total_runs: u64 = batch.reports.iter().map(|r| r.runs).sum();
    if let Some((ms, idx)) = batch.reports.iter().map(|r| r.slowest).max() {
        if ms >= 2000 {
            println!("fvsim: slowest run took {ms} ms (index {idx})");
        }
    }
    let truncated = batch.reports.iter().any(|r| r.truncated);
    println!(
        "fvsim: {} runs in {:.1}s ({:.0} runs/h){}; distinct non-trivial = {}",
        total_runs,
        wall,
        total_runs as f64 / wall.max(1e-9) * 3600.0,
        if truncated { " [budget hit before all runs finished]" } else { "" },
        summary["coverage"]["distinct_nontrivial"]
    );
    if let Some((i, v, path, confirmed)) = violation_out {
        println!("violation at run {i}: invariant={} signature={}", v.invariant, v.signature);
        println!("  {}", v.detail);
        if !confirmed {
            println!("  note: replay in a fresh process did not reproduce (harness defect)");
        }
        println!("VIOLATION property={} replay={}", a.prop, path.display());
        std::process::exit(1);
    }
    if harness_error {
        eprintln!("harness error: a worker died and the death could not be reproduced");
        std::process::exit(2);
    }
    if total_runs == 0 {
        eprintln!("harness error: no runs executed");
        std::process::exit(2);
    }
    println!("OK property={} held on everything explored", a.prop);
    std::process::exit(0)
}

/// Determinism self-test: every seed twice, in different processes, at two worker counts.
pub fn selftest_determinism(_def: &EngineDef, prop: &str, n: u64, seed: u64) -> bool {
    let mk = |w: u64| RunArgs {
        prop: prop.to_string(),
        tier: Tier::Quick,
        seed,
        nworkers: w,
        n,
        budget_s: 600.0,
        write_evidence: false,
    };
    let collect = |b: BatchResult| -> Vec<(u64, u64)> {
        let mut v: Vec<(u64, u64)> = b.reports.into_iter().flat_map(|r| r.digests).collect();
        v.sort();
        v
    };
    let a = collect(run_batch(&mk(16), true));
    let b = collect(run_batch(&mk(3), true));
    let c = collect(run_batch(&mk(7), true));
    let mut ok = true;
    if a.len() as u64 != n || b.len() as u64 != n || c.len() as u64 != n {
        println!("determinism {prop}: incomplete batches {} {} {} of {n}", a.len(), b.len(), c.len());
        ok = false;
    }
    let mut diffs = 0;
    for ((x, y), z) in a.iter().zip(b.iter()).zip(c.iter()) {
        if x != y || x != z {
            if diffs < 5 {
                println!("determinism {prop}: run {} digests differ: {:#x} vs {:#x} vs {:#x}", x.0, x.1, y.1, z.1);
            }
            diffs += 1;
        }
    }
    if diffs > 0 {
        ok = false;
    }
    println!(
        "determinism {prop}: {} runs x 3 processes/worker-counts (16,3,7): {}",
        n,
        if ok { "identical digests".to_string() } else { format!("{diffs} divergences") }
    );
    let _ = json!({});
    ok
}
