//! Simulation kernel: run context, event digest, counters, violations, known findings,
//! engine registry. A *scenario* is explicit data (workload + fault plan + schedule plan);
//! `run(scenario)` is a pure function of the scenario and the code under test.

pub mod evidence;
pub mod rng;
pub mod supervisor;

use serde::{Deserialize, Serialize};
use serde_json::Value;
use std::borrow::Cow;
use std::cell::RefCell;
use std::collections::BTreeMap;

pub use rng::Rng;

pub const DEFAULT_SEED: u64 = 0x5EED_F0E1;

#[derive(Clone, Copy, Debug, PartialEq, Eq)]
pub enum Tier {
    Quick,
    Thorough,
}

impl Tier {
    pub fn parse(s: &str) -> Option<Tier> {
        match s {
            "quick" => Some(Tier::Quick),
            "thorough" => Some(Tier::Thorough),
            _ => None,
        }
    }
    pub fn name(&self) -> &'static str {
        match self {
            Tier::Quick => "quick",
            Tier::Thorough => "thorough",
        }
    }
}

/// Counters: faults fired, probes, simulated time. Keys are sorted on output.
#[derive(Clone, Debug, Default, Serialize, Deserialize)]
pub struct Stats {
    pub counters: BTreeMap<Cow<'static, str>, u64>,
}

impl Stats {
    #[inline]
    pub fn inc(&mut self, k: &'static str) {
        *self.counters.entry(Cow::Borrowed(k)).or_insert(0) += 1;
    }
    #[inline]
    pub fn add(&mut self, k: &'static str, n: u64) {
        *self.counters.entry(Cow::Borrowed(k)).or_insert(0) += n;
    }
    pub fn inc_dyn(&mut self, k: String) {
        *self.counters.entry(Cow::Owned(k)).or_insert(0) += 1;
    }
    pub fn add_dyn(&mut self, k: String, n: u64) {
        *self.counters.entry(Cow::Owned(k)).or_insert(0) += n;
    }
    pub fn get(&self, k: &str) -> u64 {
        self.counters.get(k).copied().unwrap_or(0)
    }
    pub fn merge(&mut self, other: &Stats) {
        for (k, v) in &other.counters {
            *self.counters.entry(k.clone()).or_insert(0) += *v;
        }
    }
}

#[derive(Clone, Debug, Serialize, Deserialize, PartialEq, Eq)]
pub struct Violation {
    /// Short stable name of the violated invariant (minimisation keeps *this* failing).
    pub invariant: String,
    /// Narrow signature used to match entries of known_findings.json.
    pub signature: String,
    /// Human readable detail.
    pub detail: String,
}

#[derive(Clone, Debug, Serialize, Deserialize)]
pub struct KnownEntry {
    pub property: String,
    /// "known" (suppresses + prints KNOWN-FINDING) or "fixed" (suppresses nothing).
    pub status: String,
    pub signature: String,
    pub what: String,
    #[serde(default)]
    pub commit: Option<String>,
}

#[derive(Clone, Debug, Default, Serialize, Deserialize)]
pub struct KnownFindings {
    pub findings: Vec<KnownEntry>,
}

impl KnownFindings {
    pub fn load() -> KnownFindings {
        let path = crate::verif_root().join("known_findings.json");
        match std::fs::read_to_string(&path) {
            Ok(s) => serde_json::from_str(&s).unwrap_or_else(|e| {
                eprintln!("harness error: cannot parse {}: {e}", path.display());
                std::process::exit(2)
            }),
            Err(_) => KnownFindings::default(),
        }
    }
    pub fn matches(&self, prop: &str, signature: &str) -> Option<&KnownEntry> {
        self.findings
            .iter()
            .find(|e| e.status == "known" && e.property == prop && e.signature == signature)
    }
}

/// Rolling 64-bit digest of the event stream of a run.
#[derive(Clone, Copy, Debug)]
pub struct Digest(pub u64);

impl Digest {
    pub fn new() -> Self {
        Digest(0x6a09_e667_f3bc_c908)
    }
    #[inline]
    pub fn u64(&mut self, x: u64) {
        let mut h = self.0 ^ x;
        h = h.wrapping_mul(0xff51_afd7_ed55_8ccd);
        h ^= h >> 32;
        h = h.wrapping_mul(0xc4ce_b9fe_1a85_ec53);
        h ^= h >> 29;
        self.0 = h;
    }
    pub fn bytes(&mut self, b: &[u8]) {
        self.u64(b.len() as u64);
        for c in b.chunks(8) {
            let mut w = [0u8; 8];
            w[..c.len()].copy_from_slice(c);
            self.u64(u64::from_le_bytes(w));
        }
    }
    pub fn str(&mut self, s: &str) {
        self.bytes(s.as_bytes());
    }
}

/// Per-run context handed to an engine.
pub struct RunCtx<'a> {
    pub prop: &'a str,
    pub stats: &'a mut Stats,
    pub known: &'a KnownFindings,
    pub digest: Digest,
    pub trace: Option<Vec<String>>,
    pub known_hits: Vec<String>,
    pub violation: Option<Violation>,
    pub nontrivial: bool,
}

impl<'a> RunCtx<'a> {
    pub fn new(prop: &'a str, stats: &'a mut Stats, known: &'a KnownFindings, trace: bool) -> Self {
        RunCtx {
            prop,
            stats,
            known,
            digest: Digest::new(),
            trace: if trace { Some(Vec::new()) } else { None },
            known_hits: Vec::new(),
            violation: None,
            nontrivial: false,
        }
    }

    /// Record an event: feeds the digest; kept verbatim only with --trace.
    #[inline]
    pub fn event(&mut self, kind: &'static str, a: u64, b: u64) {
        self.digest.str(kind);
        self.digest.u64(a);
        self.digest.u64(b);
        if let Some(t) = &mut self.trace {
            t.push(format!("{kind} {a:#x} {b:#x}"));
        }
    }

    pub fn event_bytes(&mut self, kind: &'static str, data: &[u8]) {
        self.digest.str(kind);
        self.digest.bytes(data);
        if let Some(t) = &mut self.trace {
            let shown = if data.len() > 48 { &data[..48] } else { data };
            t.push(format!("{kind} len={} {}", data.len(), hex::encode(shown)));
        }
    }

    pub fn note(&mut self, f: impl FnOnce() -> String) {
        if let Some(t) = &mut self.trace {
            t.push(f());
        }
    }

    /// Report a violation. Returns true when the run must stop (an unlisted violation);
    /// false when it matched a listed known finding and the run may continue.
    pub fn violate(&mut self, invariant: &str, signature: &str, detail: String) -> bool {
        if self.known.matches(self.prop, signature).is_some() {
            if !self.known_hits.iter().any(|s| s == signature) {
                self.known_hits.push(signature.to_string());
            }
            self.stats.inc("known_finding_hits");
            return false;
        }
        if self.violation.is_none() {
            self.violation = Some(Violation {
                invariant: invariant.to_string(),
                signature: signature.to_string(),
                detail,
            });
        }
        true
    }

    pub fn failed(&self) -> bool {
        self.violation.is_some()
    }
}

/// Result of one simulated run.
#[derive(Clone, Debug, Serialize, Deserialize)]
pub struct RunOut {
    pub digest: u64,
    pub nontrivial: bool,
    pub violation: Option<Violation>,
    pub known_hits: Vec<String>,
    #[serde(default)]
    pub trace: Option<Vec<String>>,
}

/// Type-erased engine entry. Scenarios cross this boundary as JSON values.
pub struct EngineDef {
    pub name: &'static str,
    pub props: &'static [&'static str],
    pub generate: fn(prop: &str, seed: u64, tier: Tier) -> Value,
    pub run: fn(prop: &str, scenario: &Value, ctx: &mut RunCtx),
    /// Candidate simplifications of a scenario, most aggressive first.
    pub shrink: fn(prop: &str, scenario: &Value) -> Vec<Value>,
    /// Short form of a scenario for evidence samples.
    pub summarize: fn(prop: &str, scenario: &Value) -> Value,
    /// Static description for the evidence file.
    pub describe: fn(prop: &str) -> EngineDescription,
    /// (quick, thorough) number of runs.
    pub runs: fn(prop: &str) -> (u64, u64),
}

#[derive(Clone, Debug, Default, Serialize)]
pub struct EngineDescription {
    pub rule: String,
    pub real_components: Vec<String>,
    pub stub_components: Vec<String>,
    pub assumptions: Vec<String>,
    pub distinct_state_measure: String,
    pub simulated_time_keys: Vec<String>,
}

/// Typed engine; `erase::<E>()` produces the EngineDef.
pub trait Engine {
    type Scenario: Serialize + for<'de> Deserialize<'de>;
    fn generate(prop: &str, rng: &mut Rng, tier: Tier) -> Self::Scenario;
    fn run(prop: &str, sc: &Self::Scenario, ctx: &mut RunCtx);
    fn shrink(_prop: &str, _sc: &Self::Scenario) -> Vec<Self::Scenario> {
        Vec::new()
    }
    fn summarize(_prop: &str, sc: &Self::Scenario) -> Value {
        let v = serde_json::to_value(sc).unwrap_or(Value::Null);
        truncate_value(&v, 0)
    }
}

/// Cut long arrays/strings so that evidence samples stay readable.
pub fn truncate_value(v: &Value, depth: usize) -> Value {
    match v {
        Value::Array(a) => {
            let lim = if depth == 0 { 40 } else { 24 };
            let mut out: Vec<Value> = a.iter().take(lim).map(|x| truncate_value(x, depth + 1)).collect();
            if a.len() > lim {
                out.push(Value::String(format!("… {} more", a.len() - lim)));
            }
            Value::Array(out)
        }
        Value::Object(o) => Value::Object(
            o.iter()
                .map(|(k, x)| (k.clone(), truncate_value(x, depth + 1)))
                .collect(),
        ),
        Value::String(s) if s.len() > 200 => Value::String(format!("{}… ({} chars)", &s[..200], s.len())),
        other => other.clone(),
    }
}

pub fn gen_erased<E: Engine>(prop: &str, seed: u64, tier: Tier) -> Value {
    let mut rng = Rng::new(seed);
    let sc = E::generate(prop, &mut rng, tier);
    serde_json::to_value(&sc).expect("scenario serializes")
}

pub fn run_erased<E: Engine>(prop: &str, scenario: &Value, ctx: &mut RunCtx) {
    let sc: E::Scenario = match serde_json::from_value(scenario.clone()) {
        Ok(s) => s,
        Err(e) => {
            eprintln!("harness error: scenario does not deserialize: {e}");
            std::process::exit(2);
        }
    };
    E::run(prop, &sc, ctx)
}

pub fn shrink_erased<E: Engine>(prop: &str, scenario: &Value) -> Vec<Value> {
    let sc: E::Scenario = match serde_json::from_value(scenario.clone()) {
        Ok(s) => s,
        Err(_) => return Vec::new(),
    };
    E::shrink(prop, &sc)
        .into_iter()
        .filter_map(|s| serde_json::to_value(&s).ok())
        .collect()
}

pub fn summarize_erased<E: Engine>(prop: &str, scenario: &Value) -> Value {
    match serde_json::from_value::<E::Scenario>(scenario.clone()) {
        Ok(sc) => E::summarize(prop, &sc),
        Err(_) => Value::Null,
    }
}

thread_local! {
    static LAST_PANIC: RefCell<Option<String>> = const { RefCell::new(None) };
}

/// Install a silent panic hook that remembers message and location.
pub fn install_panic_hook() {
    std::panic::set_hook(Box::new(|info| {
        let msg = if let Some(s) = info.payload().downcast_ref::<&str>() {
            s.to_string()
        } else if let Some(s) = info.payload().downcast_ref::<String>() {
            s.clone()
        } else {
            "<non-string panic payload>".to_string()
        };
        let loc = info
            .location()
            .map(|l| format!("{}:{}", l.file(), l.line()))
            .unwrap_or_else(|| "<unknown>".into());
        LAST_PANIC.with(|p| *p.borrow_mut() = Some(format!("{loc}: {msg}")));
    }));
}

pub fn take_last_panic() -> Option<String> {
    LAST_PANIC.with(|p| p.borrow_mut().take())
}

/// Strip line numbers so that a panic signature is stable against unrelated edits.
pub fn panic_site(full: &str) -> String {
    // "path/file.rs:123: message" -> "path/file.rs"
    let file = full.split(':').next().unwrap_or(full);
    let file = file.rsplit("/repo/").next().unwrap_or(file);
    file.to_string()
}

/// Execute one scenario under catch_unwind; a host panic inside repository code is a
/// violation of whichever property is being checked.
pub fn execute(
    def: &EngineDef,
    prop: &str,
    scenario: &Value,
    stats: &mut Stats,
    known: &KnownFindings,
    trace: bool,
) -> RunOut {
    let mut ctx = RunCtx::new(prop, stats, known, trace);
    let r = std::panic::catch_unwind(std::panic::AssertUnwindSafe(|| {
        (def.run)(prop, scenario, &mut ctx);
    }));
    if r.is_err() {
        let p = take_last_panic().unwrap_or_else(|| "<panic>".into());
        if p.contains("/verif/sim/") || p.starts_with("src/") {
            // A panic in harness code is a harness error, never a verdict.
            eprintln!("harness error: simulator panicked: {p}");
            eprintln!("scenario: {}", serde_json::to_string(scenario).unwrap_or_default());
            std::process::exit(2);
        }
        let site = panic_site(&p);
        ctx.violate("host-panic", &format!("host-panic:{site}"), p);
    }
    RunOut {
        digest: ctx.digest.0,
        nontrivial: ctx.nontrivial,
        violation: ctx.violation,
        known_hits: ctx.known_hits,
        trace: ctx.trace,
    }
}

/// Wall-clock bound of one isolated execution (SIGALRM terminates the child).
pub const ISOLATED_TIMEOUT_S: u32 = 90;

/// `execute` in a forked child: a scenario that kills the process (abort on allocation failure,
/// stack overflow, a signal) costs the child only, and comes back as a `process-death` outcome.
/// Only called while this process is single-threaded (after the batch has been collected).
pub fn execute_isolated(
    def: &EngineDef,
    prop: &str,
    scenario: &Value,
    known: &KnownFindings,
    trace: bool,
) -> RunOut {
    use std::io::{Read, Write};
    use std::os::fd::FromRawFd;
    let mut fds = [0i32; 2];
    // SAFETY: plain pipe/fork/waitpid; the child only runs `execute`, writes its result and _exits.
    unsafe {
        if libc::pipe(fds.as_mut_ptr()) != 0 {
            let mut stats = Stats::default();
            return execute(def, prop, scenario, &mut stats, known, trace);
        }
        let _ = std::io::stdout().flush();
        let _ = std::io::stderr().flush();
        let pid = libc::fork();
        if pid < 0 {
            libc::close(fds[0]);
            libc::close(fds[1]);
            let mut stats = Stats::default();
            return execute(def, prop, scenario, &mut stats, known, trace);
        }
        if pid == 0 {
            libc::close(fds[0]);
            // keep the child's crash reports out of the check's output
            let devnull = libc::open(c"/dev/null".as_ptr(), libc::O_WRONLY);
            if devnull >= 0 {
                libc::dup2(devnull, 2);
            }
            // a scenario that never returns costs the child its alarm, not the check its life
            libc::alarm(ISOLATED_TIMEOUT_S);
            let mut stats = Stats::default();
            let out = execute(def, prop, scenario, &mut stats, known, trace);
            let bytes = serde_json::to_vec(&out).unwrap_or_default();
            let mut f = std::fs::File::from_raw_fd(fds[1]);
            let _ = f.write_all(&bytes);
            let _ = f.flush();
            libc::_exit(0);
        }
        libc::close(fds[1]);
        let mut f = std::fs::File::from_raw_fd(fds[0]);
        let mut buf = Vec::new();
        let _ = f.read_to_end(&mut buf);
        let mut status = 0i32;
        libc::waitpid(pid, &mut status, 0);
        if let Ok(out) = serde_json::from_slice::<RunOut>(&buf) {
            return out;
        }
        let how = if libc::WIFSIGNALED(status) { format!("signal {}", libc::WTERMSIG(status)) } else { format!("exit status {}", libc::WEXITSTATUS(status)) };
        RunOut {
            digest: 0,
            nontrivial: false,
            violation: Some(Violation {
                invariant: "process-death".into(),
                signature: "process-death".into(),
                detail: format!("the process executing this scenario died ({how})"),
            }),
            known_hits: vec![],
            trace: None,
        }
    }
}
