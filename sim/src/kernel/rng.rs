//! In-crate PRNG (xoshiro256**) so that streams never change with a dependency upgrade.
//! Every choice of a simulated run is derived from one integer.

#[derive(Clone, Debug)]
pub struct Rng {
    s: [u64; 4],
}

pub fn splitmix64(x: &mut u64) -> u64 {
    *x = x.wrapping_add(0x9E37_79B9_7F4A_7C15);
    let mut z = *x;
    z = (z ^ (z >> 30)).wrapping_mul(0xBF58_476D_1CE4_E5B9);
    z = (z ^ (z >> 27)).wrapping_mul(0x94D0_49BB_1331_11EB);
    z ^ (z >> 31)
}

pub fn fnv1a(bytes: &[u8]) -> u64 {
    let mut h = 0xcbf2_9ce4_8422_2325u64;
    for b in bytes {
        h ^= *b as u64;
        h = h.wrapping_mul(0x0000_0100_0000_01b3);
    }
    h
}

/// Seed of run `index` in a batch started from `seed`.
pub fn run_seed(seed: u64, index: u64) -> u64 {
    let mut x = seed ^ index.wrapping_mul(0x9E37_79B9_7F4A_7C15);
    splitmix64(&mut x)
}

impl Rng {
    pub fn new(seed: u64) -> Self {
        let mut x = seed;
        let s = [
            splitmix64(&mut x),
            splitmix64(&mut x),
            splitmix64(&mut x),
            splitmix64(&mut x),
        ];
        Rng { s }
    }

    /// Independent stream for a label: consuming more values of one stream never
    /// shifts another.
    pub fn fork(&self, label: &str) -> Rng {
        Rng::new(self.s[0] ^ self.s[2].rotate_left(17) ^ fnv1a(label.as_bytes()))
    }

    pub fn next_u64(&mut self) -> u64 {
        let result = self.s[1].wrapping_mul(5).rotate_left(7).wrapping_mul(9);
        let t = self.s[1] << 17;
        self.s[2] ^= self.s[0];
        self.s[3] ^= self.s[1];
        self.s[1] ^= self.s[2];
        self.s[0] ^= self.s[3];
        self.s[2] ^= t;
        self.s[3] = self.s[3].rotate_left(45);
        result
    }

    pub fn next_u32(&mut self) -> u32 {
        (self.next_u64() >> 32) as u32
    }

    /// Uniform in [0, n). n == 0 returns 0.
    pub fn below(&mut self, n: u64) -> u64 {
        if n == 0 {
            return 0;
        }
        // Multiply-shift; bias is irrelevant for our purposes but keep it small.
        ((self.next_u64() as u128 * n as u128) >> 64) as u64
    }

    pub fn usize_below(&mut self, n: usize) -> usize {
        self.below(n as u64) as usize
    }

    /// Uniform in [lo, hi] inclusive.
    pub fn range(&mut self, lo: u64, hi: u64) -> u64 {
        if hi <= lo {
            return lo;
        }
        let span = hi - lo;
        if span == u64::MAX {
            return self.next_u64();
        }
        lo + self.below(span + 1)
    }

    pub fn chance(&mut self, num: u64, den: u64) -> bool {
        self.below(den) < num
    }

    pub fn bool(&mut self) -> bool {
        self.next_u64() & 1 == 1
    }

    pub fn pick<'a, T>(&mut self, xs: &'a [T]) -> &'a T {
        &xs[self.usize_below(xs.len())]
    }

    /// Pick an index according to integer weights.
    pub fn weighted(&mut self, weights: &[u32]) -> usize {
        let total: u64 = weights.iter().map(|w| *w as u64).sum();
        if total == 0 {
            return 0;
        }
        let mut r = self.below(total);
        for (i, w) in weights.iter().enumerate() {
            if r < *w as u64 {
                return i;
            }
            r -= *w as u64;
        }
        weights.len() - 1
    }

    pub fn bytes(&mut self, n: usize) -> Vec<u8> {
        let mut v = Vec::with_capacity(n);
        while v.len() < n {
            let x = self.next_u64().to_le_bytes();
            let take = (n - v.len()).min(8);
            v.extend_from_slice(&x[..take]);
        }
        v
    }

    pub fn bytes32(&mut self) -> [u8; 32] {
        let mut b = [0u8; 32];
        for c in b.chunks_mut(8) {
            c.copy_from_slice(&self.next_u64().to_le_bytes());
        }
        b
    }

    pub fn shuffle<T>(&mut self, xs: &mut [T]) {
        for i in (1..xs.len()).rev() {
            let j = self.usize_below(i + 1);
            xs.swap(i, j);
        }
    }

    /// A permutation of 0..n.
    pub fn permutation(&mut self, n: usize) -> Vec<usize> {
        let mut v: Vec<usize> = (0..n).collect();
        self.shuffle(&mut v);
        v
    }

    /// Boundary-biased 64-bit value.
    pub fn word_biased(&mut self) -> u64 {
        match self.below(12) {
            0 => 0,
            1 => 1,
            2 => u64::MAX,
            3 => u64::MAX - self.below(4),
            4 => 1u64 << self.below(64),
            5 => (1u64 << self.below(64)).wrapping_sub(1),
            6 => self.below(16),
            7 => self.below(256),
            8 => self.below(1 << 16),
            9 => self.below(1 << 26),
            _ => self.next_u64(),
        }
    }
}

#[cfg(test)]
mod tests {
    use super::*;
    #[test]
    fn stable_stream() {
        let mut r = Rng::new(1);
        let a = r.next_u64();
        let mut r2 = Rng::new(1);
        assert_eq!(a, r2.next_u64());
        let f1 = r.fork("gen").next_u64();
        let f2 = r.fork("fault").next_u64();
        assert_ne!(f1, f2);
    }
}
