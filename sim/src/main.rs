//! fvsim — deterministic simulation with fault injection for FuelLabs/fuel-vm.
//! See /verif/DESIGN.md.

mod engines;
mod kernel;
mod models;

use kernel::supervisor::{self, RunArgs, WorkerArgs};
use kernel::{EngineDef, Tier, DEFAULT_SEED};
use std::path::PathBuf;

pub fn verif_root() -> PathBuf {
    if let Ok(p) = std::env::var("VERIF_ROOT") {
        return PathBuf::from(p);
    }
    // The binary lives in <root>/sim/target/release/fvsim.
    if let Ok(exe) = std::env::current_exe() {
        let mut p = exe.clone();
        for _ in 0..4 {
            p.pop();
        }
        if p.join("properties.jsonl").exists() {
            return p;
        }
    }
    PathBuf::from("/verif")
}

pub fn engine_for(prop: &str) -> Option<&'static EngineDef> {
    engines::ALL.iter().copied().find(|e| e.props.contains(&prop))
}

fn arg_val(args: &[String], name: &str) -> Option<String> {
    args.iter().position(|a| a == name).and_then(|i| args.get(i + 1).cloned())
}

fn arg_flag(args: &[String], name: &str) -> bool {
    args.iter().any(|a| a == name)
}

fn parse_u64(s: &str) -> Option<u64> {
    let s = s.trim();
    if let Some(h) = s.strip_prefix("0x") {
        u64::from_str_radix(h, 16).ok()
    } else {
        s.parse::<u64>().ok().or_else(|| s.parse::<i64>().ok().map(|x| x as u64))
    }
}

fn usage() -> ! {
    eprintln!(
        "usage:\n  fvsim run --prop <ID> [--tier quick|thorough] [--seed N] [--runs N] [--budget-s S] [--workers W]\n  fvsim replay <file> [--trace]\n  fvsim one --prop <ID> --index I [--seed N] [--tier T] [--trace]\n  fvsim selftest determinism [--prop <ID>] [--runs N]\n  fvsim list"
    );
    std::process::exit(2)
}

fn main() {
    let args: Vec<String> = std::env::args().skip(1).collect();
    if args.is_empty() {
        usage();
    }
    let env_seed = std::env::var("VERIF_SEED").ok().and_then(|s| parse_u64(&s));
    match args[0].as_str() {
        "list" => {
            for e in engines::ALL {
                println!("{}: {}", e.name, e.props.join(" "));
            }
        }
        "run" => {
            let prop = arg_val(&args, "--prop").unwrap_or_else(|| usage());
            let def = engine_for(&prop).unwrap_or_else(|| {
                eprintln!("harness error: no engine serves property {prop}");
                std::process::exit(2)
            });
            let tier = arg_val(&args, "--tier")
                .or_else(|| std::env::var("VERIF_TIER").ok())
                .and_then(|t| Tier::parse(&t))
                .unwrap_or(Tier::Quick);
            let seed = arg_val(&args, "--seed").and_then(|s| parse_u64(&s)).or(env_seed).unwrap_or(DEFAULT_SEED);
            let (q, t) = (def.runs)(&prop);
            let n = arg_val(&args, "--runs")
                .or_else(|| std::env::var("VERIF_RUNS").ok())
                .and_then(|s| parse_u64(&s))
                .unwrap_or(if tier == Tier::Quick { q } else { t });
            let budget_s = arg_val(&args, "--budget-s")
                .or_else(|| std::env::var("VERIF_BUDGET_S").ok())
                .and_then(|s| s.parse::<f64>().ok())
                .unwrap_or(if tier == Tier::Quick { 90.0 } else { 900.0 });
            let nworkers = arg_val(&args, "--workers")
                .and_then(|s| parse_u64(&s))
                .unwrap_or_else(|| std::thread::available_parallelism().map(|n| n.get() as u64).unwrap_or(8).min(16));
            let a = RunArgs {
                prop,
                tier,
                seed,
                nworkers,
                n,
                budget_s,
                write_evidence: !arg_flag(&args, "--no-evidence"),
            };
            supervisor::run_main(def, &a)
        }
        "worker" => {
            let prop = arg_val(&args, "--prop").unwrap_or_else(|| usage());
            let def = engine_for(&prop).unwrap_or_else(|| usage());
            let a = WorkerArgs {
                prop,
                tier: arg_val(&args, "--tier").and_then(|t| Tier::parse(&t)).unwrap_or(Tier::Quick),
                seed: arg_val(&args, "--seed").and_then(|s| parse_u64(&s)).unwrap_or(DEFAULT_SEED),
                w: arg_val(&args, "--w").and_then(|s| parse_u64(&s)).unwrap_or(0),
                nworkers: arg_val(&args, "--nworkers").and_then(|s| parse_u64(&s)).unwrap_or(1),
                n: arg_val(&args, "--n").and_then(|s| parse_u64(&s)).unwrap_or(1),
                budget_s: arg_val(&args, "--budget-s").and_then(|s| s.parse().ok()).unwrap_or(60.0),
                begin_markers: arg_flag(&args, "--begin-markers"),
                emit_digests: arg_flag(&args, "--emit-digests"),
                from: arg_val(&args, "--from").and_then(|s| parse_u64(&s)).unwrap_or(0),
            };
            supervisor::worker_main(def, &a)
        }
        "replay" => {
            let path = args.get(1).cloned().unwrap_or_else(|| usage());
            supervisor::replay_main(&path, arg_flag(&args, "--quiet"), arg_flag(&args, "--trace"))
        }
        "one" => {
            // Execute a single run index in-process, optionally tracing it.
            kernel::install_panic_hook();
            let prop = arg_val(&args, "--prop").unwrap_or_else(|| usage());
            let def = engine_for(&prop).unwrap_or_else(|| usage());
            let tier = arg_val(&args, "--tier").and_then(|t| Tier::parse(&t)).unwrap_or(Tier::Quick);
            let seed = arg_val(&args, "--seed").and_then(|s| parse_u64(&s)).or(env_seed).unwrap_or(DEFAULT_SEED);
            let index = arg_val(&args, "--index").and_then(|s| parse_u64(&s)).unwrap_or(0);
            let rs = kernel::rng::run_seed(seed, index);
            let sc = (def.generate)(&prop, rs, tier);
            if arg_flag(&args, "--scenario") {
                println!("{}", serde_json::to_string_pretty(&sc).unwrap());
            }
            let known = kernel::KnownFindings::load();
            let mut stats = kernel::Stats::default();
            let out = kernel::execute(def, &prop, &sc, &mut stats, &known, arg_flag(&args, "--trace"));
            if let Some(t) = &out.trace {
                for l in t {
                    println!("  {l}");
                }
            }
            println!("digest={:#x} nontrivial={} known={:?}", out.digest, out.nontrivial, out.known_hits);
            for (k, v) in &stats.counters {
                println!("  {k} = {v}");
            }
            if let Some(v) = out.violation {
                println!("violation: {} [{}] {}", v.invariant, v.signature, v.detail);
                std::process::exit(1);
            }
        }
        "selftest" => {
            let what = args.get(1).map(|s| s.as_str()).unwrap_or("");
            if what != "determinism" {
                usage();
            }
            let n = arg_val(&args, "--runs").and_then(|s| parse_u64(&s)).unwrap_or(2000);
            let seed = arg_val(&args, "--seed").and_then(|s| parse_u64(&s)).or(env_seed).unwrap_or(DEFAULT_SEED);
            let props: Vec<String> = match arg_val(&args, "--prop") {
                Some(p) => vec![p],
                None => engines::ALL.iter().flat_map(|e| e.props.iter().map(|p| p.to_string())).collect(),
            };
            let mut ok = true;
            for p in props {
                let def = engine_for(&p).unwrap_or_else(|| usage());
                ok &= supervisor::selftest_determinism(def, &p, n, seed);
            }
            std::process::exit(if ok { 0 } else { 1 });
        }
        _ => usage(),
    }
}
