//! RFC 6962 Merkle tree hash and audit paths, by the RFC's recursion.

use sha2::{Digest, Sha256};

pub type H = [u8; 32];

pub fn leaf_hash(d: &[u8]) -> H {
    let mut h = Sha256::new();
    h.update([0u8]);
    h.update(d);
    h.finalize().into()
}

pub fn node_hash(l: &H, r: &H) -> H {
    let mut h = Sha256::new();
    h.update([1u8]);
    h.update(l);
    h.update(r);
    h.finalize().into()
}

pub fn empty() -> H {
    Sha256::new().finalize().into()
}

/// Largest power of two strictly less than n (n >= 2).
fn split(n: usize) -> usize {
    let mut k = 1usize;
    while k * 2 < n {
        k *= 2;
    }
    k
}

/// MTH over already-hashed leaves.
pub fn mth_hashed(leaves: &[H]) -> H {
    match leaves.len() {
        0 => empty(),
        1 => leaves[0],
        n => {
            let k = split(n);
            node_hash(&mth_hashed(&leaves[..k]), &mth_hashed(&leaves[k..]))
        }
    }
}

pub fn mth<T: AsRef<[u8]>>(data: &[T]) -> H {
    let hashed: Vec<H> = data.iter().map(|d| leaf_hash(d.as_ref())).collect();
    mth_hashed(&hashed)
}

/// PATH(m, D[n]) — audit path for leaf m, ordered leaf-to-root (as fuel-merkle's ProofSet).
pub fn path_hashed(m: usize, leaves: &[H]) -> Vec<H> {
    let n = leaves.len();
    if n <= 1 {
        return Vec::new();
    }
    let k = split(n);
    if m < k {
        let mut p = path_hashed(m, &leaves[..k]);
        p.push(mth_hashed(&leaves[k..]));
        p
    } else {
        let mut p = path_hashed(m - k, &leaves[k..]);
        p.push(mth_hashed(&leaves[..k]));
        p
    }
}

pub fn path<T: AsRef<[u8]>>(m: usize, data: &[T]) -> Vec<H> {
    let hashed: Vec<H> = data.iter().map(|d| leaf_hash(d.as_ref())).collect();
    path_hashed(m, &hashed)
}

/// Root recomputed from an audit path (RFC 9162 §2.1.3.2). None when the path length is
/// inconsistent with (index, size).
pub fn root_from_path(leaf: &H, index: u64, size: u64, path: &[H]) -> Option<H> {
    if index >= size {
        return None;
    }
    let mut fnn = index;
    let mut sn = size - 1;
    let mut r = *leaf;
    for p in path {
        if sn == 0 {
            return None;
        }
        if fnn & 1 == 1 || fnn == sn {
            r = node_hash(p, &r);
            if fnn & 1 == 0 {
                while fnn & 1 == 0 && fnn != 0 {
                    fnn >>= 1;
                    sn >>= 1;
                }
            }
        } else {
            r = node_hash(&r, p);
        }
        fnn >>= 1;
        sn >>= 1;
    }
    if sn == 0 { Some(r) } else { None }
}
