//! Compact sparse Merkle tree reference over a sorted map, by recursion on the bit index.
//! leaf = H(0x00 ‖ key ‖ H(value)); node = H(0x01 ‖ left ‖ right); empty subtree = 32 zero
//! bytes; a subtree holding exactly one leaf is that leaf, not expanded.

use sha2::{Digest, Sha256};
use std::collections::BTreeMap;

pub type H = [u8; 32];
pub const ZERO: H = [0u8; 32];

pub fn sum(d: &[u8]) -> H {
    Sha256::digest(d).into()
}

pub fn leaf_hash(key: &H, value_hash: &H) -> H {
    let mut h = Sha256::new();
    h.update([0u8]);
    h.update(key);
    h.update(value_hash);
    h.finalize().into()
}

pub fn node_hash(l: &H, r: &H) -> H {
    let mut h = Sha256::new();
    h.update([1u8]);
    h.update(l);
    h.update(r);
    h.finalize().into()
}

#[inline]
pub fn bit(key: &H, i: usize) -> u8 {
    (key[i / 8] >> (7 - (i % 8))) & 1
}

pub fn common_prefix(a: &H, b: &H) -> usize {
    for i in 0..256 {
        if bit(a, i) != bit(b, i) {
            return i;
        }
    }
    256
}

/// `leaves`: sorted (key, value-hash) pairs that share their first `depth` bits.
fn root_rec(leaves: &[(H, H)], depth: usize) -> H {
    match leaves.len() {
        0 => ZERO,
        1 => leaf_hash(&leaves[0].0, &leaves[0].1),
        _ => {
            let split = leaves.partition_point(|(k, _)| bit(k, depth) == 0);
            let l = root_rec(&leaves[..split], depth + 1);
            let r = root_rec(&leaves[split..], depth + 1);
            node_hash(&l, &r)
        }
    }
}

fn hashed_leaves(map: &BTreeMap<H, Vec<u8>>) -> Vec<(H, H)> {
    map.iter().map(|(k, v)| (*k, sum(v))).collect()
}

/// Note: fuel-merkle treats an empty value as "delete"; callers keep such keys out of the map.
pub fn root(map: &BTreeMap<H, Vec<u8>>) -> H {
    root_rec(&hashed_leaves(map), 0)
}

#[derive(Clone, Debug, PartialEq, Eq)]
pub enum Terminal {
    /// The queried key itself is stored.
    Present,
    /// The path ends in another leaf (key, value-hash).
    OtherLeaf(H, H),
    /// The path ends in an empty subtree.
    Placeholder,
}

#[derive(Clone, Debug, PartialEq, Eq)]
pub struct RefProof {
    /// Side hashes ordered leaf-to-root (as fuel-merkle's proof_set).
    pub side: Vec<H>,
    pub terminal: Terminal,
}

/// Proof for `key` computed from the map alone.
pub fn prove(map: &BTreeMap<H, Vec<u8>>, key: &H) -> RefProof {
    let leaves = hashed_leaves(map);
    let mut side_top_down = Vec::new();
    let mut cur: &[(H, H)] = &leaves;
    let mut depth = 0usize;
    let terminal = loop {
        match cur.len() {
            0 => break Terminal::Placeholder,
            1 => {
                if &cur[0].0 == key {
                    break Terminal::Present;
                } else {
                    break Terminal::OtherLeaf(cur[0].0, cur[0].1);
                }
            }
            _ => {
                let split = cur.partition_point(|(k, _)| bit(k, depth) == 0);
                let (l, r) = cur.split_at(split);
                if bit(key, depth) == 0 {
                    side_top_down.push(root_rec(r, depth + 1));
                    cur = l;
                } else {
                    side_top_down.push(root_rec(l, depth + 1));
                    cur = r;
                }
                depth += 1;
            }
        }
    };
    side_top_down.reverse();
    RefProof { side: side_top_down, terminal }
}

/// Root recomputed from a terminal hash and side hashes (leaf-to-root) along `key`.
pub fn recompute(key: &H, terminal_hash: H, side: &[H]) -> Option<H> {
    if side.len() > 256 {
        return None;
    }
    let mut cur = terminal_hash;
    for (i, s) in side.iter().enumerate() {
        let depth = side.len() - 1 - i;
        cur = if bit(key, depth) == 0 { node_hash(&cur, s) } else { node_hash(s, &cur) };
    }
    Some(cur)
}

/// Independent verifier: inclusion of (key, value).
pub fn verify_inclusion(root: &H, key: &H, value: &[u8], side: &[H]) -> bool {
    recompute(key, leaf_hash(key, &sum(value)), side) == Some(*root)
}

/// Independent verifier: exclusion of key, with terminal `None` = placeholder or
/// `Some((leaf_key, leaf_value_hash))`.
pub fn verify_exclusion(root: &H, key: &H, terminal: Option<(&H, &H)>, side: &[H]) -> bool {
    let th = match terminal {
        None => ZERO,
        Some((lk, lv)) => {
            if lk == key {
                return false;
            }
            leaf_hash(lk, lv)
        }
    };
    recompute(key, th, side) == Some(*root)
}
