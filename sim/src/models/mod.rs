//! Small, independent, executable reference models (no code shared with the repository).
pub mod flatmem;
pub mod rfc6962;
pub mod smt;
