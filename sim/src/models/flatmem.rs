//! `flatmem` — reference model of the VM memory for C23.
//!
//! A flat, zero-initialised byte array of 64 MiB held sparsely (4 KiB pages; an absent page
//! is all zero), plus two numbers: `stack_hwm` (highest stack extent not yet overtaken by
//! the heap) and `hp` (heap pointer). A range `[start, start+len)` is accessible iff
//! `start+len <= 2^26` and (`start+len <= stack_hwm` or `start >= hp`).
//!
//! Bytes in the gap `[stack_hwm, hp)` can never be observed; the model keeps them at zero
//! (they are cleared whenever they leave an accessible region), so that whatever becomes
//! accessible later — by stack growth or heap allocation — reads as zero, exactly as in a
//! freshly zero-initialised array.
//!
//! Nothing here shares code with the repository.

use std::collections::BTreeMap;

/// 64 MiB.
pub const SIZE: u64 = 1 << 26;
const PAGE_BITS: u32 = 12;
const PAGE: usize = 1 << PAGE_BITS;

static ZERO_PAGE: [u8; PAGE] = [0u8; PAGE];

/// Offset of the first non-zero byte (page-wise comparison, fast on long zero runs).
pub fn first_nonzero(b: &[u8]) -> Option<usize> {
    let mut off = 0usize;
    for c in b.chunks(PAGE) {
        if c != &ZERO_PAGE[..c.len()] {
            return c.iter().position(|x| *x != 0).map(|k| off + k);
        }
        off += c.len();
    }
    None
}

#[derive(Clone, Copy, Debug, PartialEq, Eq)]
pub enum Access {
    /// The range lies entirely in the stack region or entirely in the heap region.
    Ok,
    /// The range ends beyond 2^26 (or does not fit a 64-bit end at all).
    OutOfBounds,
    /// In bounds, non-empty, but touches a byte of the gap (or straddles both regions).
    Gap,
    /// In bounds, empty, and strictly inside the gap. The property text does not decide
    /// whether an empty range "lies entirely" in a region; callers skip this case.
    EmptyInGap,
}

#[derive(Clone, Copy, Debug, PartialEq, Eq)]
pub enum Refusal {
    /// Beyond the 64 MiB array.
    Overflow,
    /// Stack and heap would cross.
    Overlap,
}

#[derive(Clone, Debug)]
pub struct FlatMem {
    pages: BTreeMap<u32, Box<[u8; PAGE]>>,
    pub stack_hwm: u64,
    pub hp: u64,
}

impl Default for FlatMem {
    fn default() -> Self {
        Self::new()
    }
}

impl FlatMem {
    pub fn new() -> Self {
        FlatMem { pages: BTreeMap::new(), stack_hwm: 0, hp: SIZE }
    }

    pub fn pages_held(&self) -> usize {
        self.pages.len()
    }

    pub fn access(&self, start: u64, len: u64) -> Access {
        let end = match start.checked_add(len) {
            Some(e) => e,
            None => return Access::OutOfBounds,
        };
        if end > SIZE {
            return Access::OutOfBounds;
        }
        if end <= self.stack_hwm || start >= self.hp {
            return Access::Ok;
        }
        if len == 0 { Access::EmptyInGap } else { Access::Gap }
    }

    #[inline]
    pub fn byte(&self, addr: u64) -> u8 {
        if addr >= SIZE {
            return 0;
        }
        match self.pages.get(&((addr >> PAGE_BITS) as u32)) {
            Some(p) => p[(addr as usize) & (PAGE - 1)],
            None => 0,
        }
    }

    /// Content of `[start, start+len)`; the caller keeps `len` moderate.
    pub fn read(&self, start: u64, len: u64) -> Vec<u8> {
        let mut out = vec![0u8; len as usize];
        let mut a = start;
        let end = start + len;
        while a < end {
            let pi = (a >> PAGE_BITS) as u32;
            let off = (a as usize) & (PAGE - 1);
            let n = ((PAGE - off) as u64).min(end - a) as usize;
            if let Some(p) = self.pages.get(&pi) {
                let o = (a - start) as usize;
                out[o..o + n].copy_from_slice(&p[off..off + n]);
            }
            a += n as u64;
        }
        out
    }

    /// Compare `got` with the model content at `start`. Returns the first differing
    /// offset with (expected, got). Works page by page, so it is cheap on huge zero ranges.
    pub fn diff(&self, start: u64, got: &[u8]) -> Option<(u64, u8, u8)> {
        let end = start + got.len() as u64;
        let mut a = start;
        while a < end {
            let pi = (a >> PAGE_BITS) as u32;
            let off = (a as usize) & (PAGE - 1);
            let n = ((PAGE - off) as u64).min(end - a) as usize;
            let o = (a - start) as usize;
            let chunk = &got[o..o + n];
            match self.pages.get(&pi) {
                Some(p) => {
                    if chunk != &p[off..off + n] {
                        for k in 0..n {
                            if chunk[k] != p[off + k] {
                                return Some((a + k as u64 - start, p[off + k], chunk[k]));
                            }
                        }
                    }
                }
                None => {
                    if chunk != &ZERO_PAGE[..n] {
                        if let Some(k) = chunk.iter().position(|b| *b != 0) {
                            return Some((a + k as u64 - start, 0, chunk[k]));
                        }
                    }
                }
            }
            a += n as u64;
        }
        None
    }

    pub fn write(&mut self, start: u64, data: &[u8]) {
        let end = start + data.len() as u64;
        let mut a = start;
        while a < end {
            let pi = (a >> PAGE_BITS) as u32;
            let off = (a as usize) & (PAGE - 1);
            let n = ((PAGE - off) as u64).min(end - a) as usize;
            let o = (a - start) as usize;
            let p = self.pages.entry(pi).or_insert_with(|| Box::new([0u8; PAGE]));
            p[off..off + n].copy_from_slice(&data[o..o + n]);
            a += n as u64;
        }
    }

    /// Set `[start, end)` to zero: whole pages are dropped, partial pages cleared.
    pub fn zero(&mut self, start: u64, end: u64) {
        if start >= end {
            return;
        }
        let first = (start >> PAGE_BITS) as u32;
        let last = ((end - 1) >> PAGE_BITS) as u32;
        let keys: Vec<u32> = self.pages.range(first..=last).map(|(k, _)| *k).collect();
        for k in keys {
            let pstart = (k as u64) << PAGE_BITS;
            let pend = pstart + PAGE as u64;
            if start <= pstart && pend <= end {
                self.pages.remove(&k);
            } else if let Some(p) = self.pages.get_mut(&k) {
                let lo = start.max(pstart) - pstart;
                let hi = end.min(pend) - pstart;
                p[lo as usize..hi as usize].fill(0);
            }
        }
    }

    /// Two ranges of the same length share a byte.
    pub fn ranges_share_byte(a: u64, b: u64, len: u64) -> bool {
        len > 0 && a.max(b) < a.min(b).saturating_add(len)
    }

    /// Copy between two accessible, disjoint ranges.
    pub fn copy(&mut self, dst: u64, src: u64, len: u64) {
        // Chunked so that huge copies do not materialise 64 MiB at once.
        let mut done = 0u64;
        while done < len {
            let n = (len - done).min(1 << 16);
            let buf = self.read(src + done, n);
            if buf.iter().any(|b| *b != 0) {
                self.write(dst + done, &buf);
            } else {
                self.zero(dst + done, dst + done + n);
            }
            done += n;
        }
    }

    /// The stack extent is raised to `new_sp` when that is higher than the current one.
    pub fn grow_stack(&mut self, new_sp: u64) -> Result<(), Refusal> {
        if new_sp > SIZE {
            return Err(Refusal::Overflow);
        }
        if new_sp > self.stack_hwm {
            if new_sp > self.hp {
                return Err(Refusal::Overlap);
            }
            // Gap bytes are zero already.
            self.stack_hwm = new_sp;
        }
        Ok(())
    }

    /// Allocate `amount` bytes of heap while the live stack ends at `sp`. The heap may
    /// overtake stack extent above `sp`; that part of the stack is gone afterwards.
    pub fn grow_heap(&mut self, sp: u64, amount: u64) -> Result<(), Refusal> {
        if amount > self.hp {
            return Err(Refusal::Overflow);
        }
        let new_hp = self.hp - amount;
        if new_hp < sp {
            return Err(Refusal::Overlap);
        }
        // Newly allocated bytes read as zero (this also wipes overtaken stack bytes).
        self.zero(new_hp, self.hp);
        self.hp = new_hp;
        if self.stack_hwm > new_hp {
            self.stack_hwm = new_hp;
        }
        Ok(())
    }

    /// Back to the initial state: nothing accessible, everything zero.
    pub fn reset(&mut self) {
        self.pages.clear();
        self.stack_hwm = 0;
        self.hp = SIZE;
    }

    /// Same regions and same accessible content.
    pub fn same_accessible(&self, other: &FlatMem) -> bool {
        if self.stack_hwm != other.stack_hwm || self.hp != other.hp {
            return false;
        }
        // Gap bytes are zero in both, so whole-array equality is accessible equality.
        let zero = [0u8; PAGE];
        for (k, p) in &self.pages {
            let q = other.pages.get(k).map(|b| &b[..]).unwrap_or(&zero[..]);
            if p[..] != *q {
                return false;
            }
        }
        for (k, q) in &other.pages {
            if !self.pages.contains_key(k) && q[..] != zero[..] {
                return false;
            }
        }
        true
    }

    /// Model invariant (used by the engine's self-check): the gap holds only zeros.
    pub fn gap_is_zero(&self) -> bool {
        if self.stack_hwm >= self.hp {
            return true;
        }
        let first = (self.stack_hwm >> PAGE_BITS) as u32;
        let last = ((self.hp - 1) >> PAGE_BITS) as u32;
        for (k, p) in self.pages.range(first..=last) {
            let pstart = (*k as u64) << PAGE_BITS;
            let lo = self.stack_hwm.max(pstart) - pstart;
            let hi = self.hp.min(pstart + PAGE as u64) - pstart;
            if p[lo as usize..hi as usize].iter().any(|b| *b != 0) {
                return false;
            }
        }
        true
    }
}

#[cfg(test)]
mod tests {
    use super::*;

    #[test]
    fn regions() {
        let mut m = FlatMem::new();
        assert_eq!(m.access(0, 1), Access::Gap);
        assert_eq!(m.access(0, 0), Access::Ok);
        assert_eq!(m.access(SIZE, 0), Access::Ok);
        assert_eq!(m.access(SIZE, 1), Access::OutOfBounds);
        assert_eq!(m.access(5, 0), Access::EmptyInGap);
        m.grow_stack(10).unwrap();
        m.grow_heap(10, 16).unwrap();
        assert_eq!(m.access(0, 10), Access::Ok);
        assert_eq!(m.access(0, 11), Access::Gap);
        assert_eq!(m.access(SIZE - 16, 16), Access::Ok);
        assert_eq!(m.access(SIZE - 17, 2), Access::Gap);
        m.write(SIZE - 16, &[7; 16]);
        m.write(2, &[9; 4]);
        assert_eq!(m.read(0, 8), vec![0, 0, 9, 9, 9, 9, 0, 0]);
        assert!(m.diff(SIZE - 16, &[7; 16]).is_none());
        assert_eq!(m.diff(SIZE - 16, &[7, 7, 1]), Some((2, 7, 1)));
        m.copy(SIZE - 8, 2, 4);
        assert_eq!(m.read(SIZE - 8, 5), vec![9, 9, 9, 9, 7]);
        assert!(FlatMem::ranges_share_byte(0, 3, 4));
        assert!(!FlatMem::ranges_share_byte(0, 4, 4));
        assert!(!FlatMem::ranges_share_byte(3, 3, 0));
        // heap overtakes stack extent above sp
        m.grow_heap(4, SIZE - 16 - 6).unwrap();
        assert_eq!((m.stack_hwm, m.hp), (6, 6));
        assert_eq!(m.read(0, 8), vec![0, 0, 9, 9, 9, 9, 0, 0]);
        assert!(m.gap_is_zero());
        m.reset();
        assert_eq!(m.byte(3), 0);
        assert!(m.same_accessible(&FlatMem::new()));
    }
}
