//! Engines: each simulates one subsystem of fuel-vm behind the seams the code offers.
pub mod merkle;
pub mod vm;

use crate::kernel::EngineDef;

pub static ALL: &[&EngineDef] = &[&merkle::BMT, &merkle::SMT, &vm::VM];
