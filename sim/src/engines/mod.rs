//! Engines: each simulates one subsystem of fuel-vm behind the seams the code offers.
pub mod da;
pub mod mem;
pub mod merkle;
pub mod pred;
pub mod vm;
pub mod wire;

use crate::kernel::EngineDef;

pub static ALL: &[&EngineDef] = &[&merkle::BMT, &merkle::SMT, &vm::VM, &vm::tables::TABLES, &wire::WIRE, &mem::MEM, &da::DA, &pred::PRED];
