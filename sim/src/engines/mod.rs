//! Engines: each simulates one subsystem of fuel-vm behind the seams the code offers.
pub mod da;
pub mod merkle;

use crate::kernel::EngineDef;

pub static ALL: &[&EngineDef] = &[&merkle::BMT, &da::DA, ];
