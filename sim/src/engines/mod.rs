//! Engines: each simulates one subsystem of fuel-vm behind the seams the code offers.
pub mod merkle;
pub mod pred;

use crate::kernel::EngineDef;

pub static ALL: &[&EngineDef] = &[&merkle::BMT, &pred::PRED];
