//! `merkle` engine — trees on a faulty node store (C11; C12–C14 in smt.rs).
pub mod bmt;
pub mod simkv;

use crate::kernel::*;

fn bmt_describe(_prop: &str) -> EngineDescription {
    EngineDescription {
        rule: "Seeded histories (3–32 ops; 1 in 16 runs starts with a bulk push to 2^k−1, 2^k or 2^k+1 leaves, k ≤ 12) of push / root / prove / reset / commit / load(k) / load-beyond / crash-in-push / idle crash / failing store call, on the real storage-backed binary::MerkleTree over SimKV with the in-memory tree and MerkleRootCalculator side by side; after every op root, leaves_count, proofs (all indices ≤ 40 leaves, sampled above) and refusals are compared with the RFC 6962 reference over the model's leaf vector. A run is non-trivial when it contains a reset or reload followed by at least one push with proofs checked afterwards; distinct = distinct event digests among non-trivial runs.".into(),
        real_components: vec![
            "fuel_merkle::binary::MerkleTree (push, prove, root, reset, load, leaves_count)".into(),
            "fuel_merkle::binary::in_memory::MerkleTree".into(),
            "fuel_merkle::binary::root_calculator::MerkleRootCalculator".into(),
            "fuel_merkle::binary::verify".into(),
        ],
        stub_components: vec![
            "SimKV node store (durable map + un-flushed buffer, failing calls, crash)".into(),
            "restart supervisor (drops the tree object, reloads at the committed count)".into(),
            "RFC 6962 reference (models::rfc6962)".into(),
        ],
        assumptions: vec![
            "A crash loses un-flushed store writes atomically, or keeps an arbitrary subset only when no reset/fork lies in the un-flushed window.".into(),
            "After a store error during push the embedder discards the tree object, rolls the store back and reloads (push documents that it may leave partial writes).".into(),
            "Trees up to 2^12+1 leaves.".into(),
        ],
        distinct_state_measure: "distinct event digests (op index, leaf count, root prefix after each op) of non-trivial runs".into(),
        simulated_time_keys: vec!["tree_ops".into(), "commits".into()],
    }
}

pub static BMT: EngineDef = EngineDef {
    name: "merkle-binary",
    props: &["C11"],
    generate: gen_erased::<bmt::Bmt>,
    run: run_erased::<bmt::Bmt>,
    shrink: shrink_erased::<bmt::Bmt>,
    summarize: summarize_erased::<bmt::Bmt>,
    describe: bmt_describe,
    runs: |_| (60_000, 1_500_000),
};
