//! `merkle` engine — trees on a faulty node store (C11; C12–C14 in smt.rs).
pub mod bmt;
pub mod simkv;
pub mod smt;

use crate::kernel::*;

fn bmt_describe(_prop: &str) -> EngineDescription {
    EngineDescription {
        rule: "Seeded histories (3–32 ops; 1 in 16 runs starts with a bulk push to 2^k−1, 2^k or 2^k+1 leaves, k ≤ 12) of push / root / prove / reset / commit / load(k) / load-beyond / crash-in-push / idle crash / failing store call, on the real storage-backed binary::MerkleTree over SimKV with the in-memory tree and MerkleRootCalculator side by side; after every op root, leaves_count, proofs (all indices ≤ 40 leaves, sampled above) and refusals are compared with the RFC 6962 reference over the model's leaf vector. A run is non-trivial when it contains a reset or reload followed by at least one push with proofs checked afterwards; distinct = distinct event digests among non-trivial runs.".into(),
        real_components: vec![
            "fuel_merkle::binary::MerkleTree (push, prove, root, reset, load, leaves_count)".into(),
            "fuel_merkle::binary::in_memory::MerkleTree".into(),
            "fuel_merkle::binary::root_calculator::MerkleRootCalculator".into(),
            "fuel_merkle::binary::verify".into(),
        ],
        stub_components: vec![
            "SimKV node store (durable map + un-flushed buffer, failing calls, crash)".into(),
            "restart supervisor (drops the tree object, reloads at the committed count)".into(),
            "RFC 6962 reference (models::rfc6962)".into(),
        ],
        assumptions: vec![
            "A crash loses un-flushed store writes atomically, or keeps an arbitrary subset only when no reset/fork lies in the un-flushed window.".into(),
            "After a store error during push the embedder discards the tree object, rolls the store back and reloads (push documents that it may leave partial writes).".into(),
            "Trees up to 2^12+1 leaves.".into(),
        ],
        distinct_state_measure: "distinct event digests (op index, leaf count, root prefix after each op) of non-trivial runs".into(),
        simulated_time_keys: vec!["tree_ops".into(), "commits".into()],
    }
}

pub static BMT: EngineDef = EngineDef {
    name: "merkle-binary",
    props: &["C11"],
    generate: gen_erased::<bmt::Bmt>,
    run: run_erased::<bmt::Bmt>,
    shrink: shrink_erased::<bmt::Bmt>,
    summarize: summarize_erased::<bmt::Bmt>,
    describe: bmt_describe,
    runs: |_| (150_000, 4_000_000),
};

fn smt_describe(prop: &str) -> EngineDescription {
    let (rule, measure) = match prop {
        "C12" => (
            "Seeded histories (2–32 ops) of insert (new / overwrite same / overwrite different / empty value) and delete (present / absent / twice) over a pool of 2–12 adversarially clustered keys (shared prefixes of 0–255 bits, last-bit siblings, all-zero, all-one, hashed), on sparse::MerkleTree over SimKV and sparse::in_memory::MerkleTree; store I/O errors inside operations (rollback to the pre-operation snapshot, reload, retry). After every op the root is compared with the compact-SMT reference over the model map; from_set / root_from_set / nodes_from_set / storage from_set over the shuffled map (with duplicates; a third of the sets carries 1–60 stale pairs that precede the final pair of their key — from_set is documented as equivalent to sequential updates, so the last pair wins) are compared at seeded points and at the end. Non-trivial: at least one delete that orphans a leaf (collapse) and a key pair with a common prefix ≥ 64 bits; distinct = distinct digests of (step, root) sequences.",
            "distinct (step, root) event digests of non-trivial runs",
        ),
        "C13" => (
            "The C12 histories (≤ 16 ops quick, ≤ 24 thorough) with every completed op committed as one batch. Restart from persisted nodes at EVERY point i: store view cloned, MerkleTree::load at root_i, generate_proof for every pool key and absent key compared with the original tree's and with the map-derived reference proof, then the next 3 ops (the whole remaining history at seeded points) replayed on the reloaded tree with roots compared after each. Faults: I/O error (rollback/reload/retry), crash with atomic loss (reload at pre-op root must equal the pre-op tree), crash with an arbitrary surviving subset of the op's inserts/removes and lost durable nodes (fail-stop oracle: load fails, or every later result is an error or equals the model's). Also nodes_from_set → empty store → load, and load at the empty root. Non-trivial: a restart directly after a delete-collapse or an overwrite with ≥ 2 further ops.",
            "distinct digests over (step, root) and (restart point, continued root) events",
        ),
        _ => (
            "Trees reached by C12-style histories (a quarter rebuilt with from_set); honest proofs for every pool key and absent key (absent keys share long prefixes with present ones): is_inclusion ⇔ present, proof equals the map-derived reference, inclusion verifies with the stored value and with none of 24 other values, exclusion verifies for the absent key and for no present key. 2–6 queries per run ship the proof through a corrupting channel (bit flip, drop, duplicate, swap, truncate, extend to 255–258, other key, other value, leaf rewritten to claim the key, terminal swap, kind flip, stale root): library verdict must equal an independent compact-tree recomputation, and any accepted statement must be true of the map. Non-trivial: tree reached through a delete, an exclusion proof whose terminal leaf shares ≥ 8 bits with the query, and ≥ 1 corrupted tuple.",
            "distinct digests over (proof kind, length) and (library verdict, reference verdict) events",
        ),
    };
    EngineDescription {
        rule: rule.into(),
        real_components: vec![
            "fuel_merkle::sparse::MerkleTree (new, load, insert, delete, from_set, generate_proof, root)".into(),
            "fuel_merkle::sparse::in_memory::MerkleTree (update, delete, from_set, root_from_set, nodes_from_set)".into(),
            "fuel_merkle::sparse::proof::{InclusionProof, ExclusionProof}::verify".into(),
        ],
        stub_components: vec![
            "SimKV node store (durable map + un-flushed buffer, failing calls, crash with partial survival, lost nodes)".into(),
            "restart supervisor".into(),
            "compact-SMT reference (models::smt: root, prove, verify)".into(),
        ],
        assumptions: vec![
            "Each completed tree operation is persisted as one atomic batch (as an embedder's storage transaction does).".into(),
            "SHA-256 collision resistance (a verifier accepting a false statement is treated as a defect, not as a collision).".into(),
            "Raw (unhashed) 32-byte keys via MerkleTreeKey::new_without_hash (test-helpers) so that prefixes can be clustered.".into(),
        ],
        distinct_state_measure: measure.into(),
        simulated_time_keys: vec!["tree_ops".into(), "restarts".into(), "proofs".into(), "set_constructions".into()],
    }
}

pub static SMT: EngineDef = EngineDef {
    name: "merkle-sparse",
    props: &["C12", "C13", "C14"],
    generate: gen_erased::<smt::Smt>,
    run: run_erased::<smt::Smt>,
    shrink: shrink_erased::<smt::Smt>,
    summarize: summarize_erased::<smt::Smt>,
    describe: smt_describe,
    runs: |p| match p {
        "C12" => (200_000, 5_000_000),
        "C13" => (60_000, 1_500_000),
        _ => (150_000, 4_000_000),
    },
};
