//! C12 / C13 / C14 — sparse Merkle trees over a faulty node store.
//!
//! One scenario shape serves the three properties; `prop` selects the oracle:
//!  * C12: root after every op == compact-SMT reference over the model map; set constructors agree.
//!  * C13: restart from persisted nodes at every point; crash / dirty-survive / lost-node faults
//!         with a fail-stop oracle.
//!  * C14: proofs shipped through a corrupting channel; library verdict == independent verifier,
//!         and nothing false is ever accepted.

use super::simkv::{SimIoError, SimKV};
use crate::kernel::*;
use crate::models::smt as rf;
use fuel_merkle::sparse::{
    self, in_memory,
    proof::{ExclusionLeaf, ExclusionLeafData, ExclusionProof, InclusionProof, Proof},
    MerkleTreeError, MerkleTreeKey, Primitive,
};
use fuel_merkle::storage::Mappable;
use serde::{Deserialize, Serialize};
use std::collections::BTreeMap;

type H = [u8; 32];

#[derive(Debug, Clone)]
pub struct SmtTable;
impl Mappable for SmtTable {
    type Key = H;
    type OwnedKey = H;
    type Value = Primitive;
    type OwnedValue = Primitive;
}

type Store = SimKV<H, Primitive>;
type Tree = sparse::MerkleTree<SmtTable, Store>;

#[derive(Debug, Clone, Serialize, Deserialize, PartialEq)]
pub enum Fault {
    None,
    /// The `at`-th store call of the operation fails with an I/O error.
    Io { at: u8 },
    /// Crash at the `at`-th store call; `survive` selects which un-flushed writes persist.
    Crash { at: u8, survive: u64 },
}

#[derive(Debug, Clone, Serialize, Deserialize, PartialEq)]
pub struct SOp {
    /// Index into the key pool.
    pub k: u8,
    /// None = delete; Some((tag, len)) = insert value derived from tag.
    pub val: Option<(u32, u8)>,
    pub fault: Fault,
}

#[derive(Debug, Clone, Serialize, Deserialize, PartialEq)]
pub enum Corruption {
    FlipBit { elem: u16, bit: u8 },
    Drop { elem: u16 },
    Dup { elem: u16 },
    Swap { a: u16, b: u16 },
    Truncate { len: u16 },
    Extend { to: u16, fill: u8 },
    OtherKey { q: u8 },
    OtherValue { tag: u32 },
    /// Exclusion proof whose leaf is rewritten to claim the queried key.
    ClaimKey { with_stored_value: bool },
    /// Exclusion leaf ↔ placeholder swapped.
    SwapTerminal,
    /// Inclusion proof presented as exclusion (placeholder terminal) and vice versa.
    FlipKind,
    /// Verify against the root of an earlier point of the history.
    StaleRoot { back: u8 },
}

#[derive(Debug, Clone, Serialize, Deserialize, PartialEq)]
pub struct Query {
    /// Index into keys ++ absent.
    pub q: u8,
    pub corruptions: Vec<Corruption>,
}

#[derive(Debug, Clone, Serialize, Deserialize)]
pub struct Scenario {
    /// Key pool (hex, 32 bytes each).
    pub keys: Vec<String>,
    /// Query keys that are never inserted.
    pub absent: Vec<String>,
    pub ops: Vec<SOp>,
    /// C12: steps after which the set constructors are compared; the final state always is.
    pub set_checks: Vec<u16>,
    pub shuffle_seed: u64,
    /// C13: restart points whose reloaded tree replays the whole remaining history.
    pub full_restarts: Vec<u16>,
    /// C13: before the restart at `step`, durable nodes selected by `picks` are lost.
    pub lost: Vec<(u16, Vec<u32>)>,
    /// C14: queries evaluated on the final tree (and on the tree after `at_step`).
    pub queries: Vec<Query>,
}

fn unhex(s: &str) -> H {
    let mut h = [0u8; 32];
    if let Ok(b) = hex::decode(s) {
        let n = b.len().min(32);
        h[..n].copy_from_slice(&b[..n]);
    }
    h
}

fn value(tag: u32, len: u8) -> Vec<u8> {
    let l = match len % 4 {
        0 => 0usize,
        1 => 1,
        2 => 32,
        _ => 100,
    };
    Rng::new(0x5A17_0000 ^ tag as u64).bytes(l)
}

fn mk(k: &H) -> MerkleTreeKey {
    MerkleTreeKey::new_without_hash(*k)
}

/// Clustered key pool: shared prefixes of 0–255 bits, last-bit pairs, all-zero, all-one, hashed.
fn gen_keys(g: &mut Rng, n: usize) -> Vec<H> {
    let mut keys: Vec<H> = Vec::new();
    let base = g.bytes32();
    while keys.len() < n {
        let k: H = match g.below(9) {
            0 => [0u8; 32],
            1 => [0xffu8; 32],
            2 | 3 | 4 => {
                // share a prefix of p bits with an existing key (or the base), differ right after
                let src = if keys.is_empty() || g.chance(1, 4) { base } else { *g.pick(&keys) };
                let p = match g.below(4) {
                    0 => g.below(8),
                    1 => g.range(8, 64),
                    2 => g.range(64, 200),
                    _ => g.range(200, 255),
                } as usize;
                let mut k = g.bytes32();
                for i in 0..p {
                    let (by, bi) = (i / 8, 7 - i % 8);
                    k[by] = (k[by] & !(1 << bi)) | (src[by] & (1 << bi));
                }
                if p < 256 {
                    let (by, bi) = (p / 8, 7 - p % 8);
                    k[by] = (k[by] & !(1 << bi)) | (!src[by] & (1 << bi));
                }
                k
            }
            5 => {
                // last-bit sibling
                let mut k = if keys.is_empty() { base } else { *g.pick(&keys) };
                k[31] ^= 1;
                k
            }
            6 => rf::sum(&g.bytes(8)),
            7 => {
                let mut k = [0u8; 32];
                k[31] = g.below(4) as u8;
                k
            }
            _ => g.bytes32(),
        };
        if !keys.contains(&k) {
            keys.push(k);
        }
    }
    keys
}

pub struct Smt;

impl Engine for Smt {
    type Scenario = Scenario;

    fn generate(prop: &str, rng: &mut Rng, tier: Tier) -> Scenario {
        let mut g = rng.fork("gen");
        let mut f = rng.fork("fault");
        let faulty = g.below(3) != 0 && prop != "C14";
        let nkeys = g.range(2, 12) as usize;
        let keys = gen_keys(&mut g, nkeys);
        let nabs = g.range(1, 4) as usize;
        let mut absent = Vec::new();
        while absent.len() < nabs {
            // absent keys that share long prefixes with present ones
            let mut k = *g.pick(&keys);
            match g.below(4) {
                0 => k[31] ^= 1,
                1 => {
                    let p = g.below(256) as usize;
                    k[p / 8] ^= 1 << (7 - p % 8);
                }
                2 => k = g.bytes32(),
                _ => {
                    let p = g.range(200, 255) as usize;
                    k[p / 8] ^= 1 << (7 - p % 8);
                }
            }
            if !keys.contains(&k) && !absent.contains(&k) {
                absent.push(k);
            }
        }
        let max_ops = match (prop, tier) {
            ("C13", Tier::Quick) => 16,
            ("C13", Tier::Thorough) => 24,
            _ => 32,
        };
        let nops = g.range(2, max_ops) as usize;
        let w_del = *g.pick(&[1u32, 3, 6]);
        let w_fault = if faulty { *f.pick(&[1u32, 2, 4]) } else { 0 };
        let mut ops = Vec::new();
        for _ in 0..nops {
            let k = g.below(nkeys as u64) as u8;
            let val = if g.weighted(&[8, w_del]) == 1 {
                None
            } else {
                // few distinct tags so that re-inserting the same value happens
                Some((g.below(6) as u32, g.below(4) as u8))
            };
            let fault = if w_fault > 0 && f.weighted(&[10, w_fault]) == 1 {
                let at = if f.chance(1, 2) { f.below(3) } else { f.below(40) } as u8;
                if prop == "C13" && f.chance(2, 3) {
                    Fault::Crash { at, survive: if f.chance(1, 3) { 0 } else { f.next_u64() } }
                } else {
                    Fault::Io { at }
                }
            } else {
                Fault::None
            };
            ops.push(SOp { k, val, fault });
        }
        let set_checks = (0..g.below(3)).map(|_| g.below(nops as u64) as u16).collect();
        let full_restarts = (0..g.range(1, 3)).map(|_| g.below(nops as u64 + 1) as u16).collect();
        let mut lost = Vec::new();
        if prop == "C13" && faulty {
            for _ in 0..f.below(3) {
                let picks = (0..f.range(1, 3)).map(|_| f.next_u32()).collect();
                lost.push((f.below(nops as u64 + 1) as u16, picks));
            }
        }
        let mut queries = Vec::new();
        if prop == "C14" {
            let nq = g.range(2, 6);
            for _ in 0..nq {
                let q = g.below((nkeys + nabs) as u64) as u8;
                let nc = g.range(0, 3);
                let mut corruptions = Vec::new();
                for _ in 0..nc {
                    corruptions.push(match f.below(13) {
                        0 | 1 => Corruption::FlipBit { elem: f.below(260) as u16, bit: f.below(256) as u8 },
                        2 => Corruption::Drop { elem: f.below(260) as u16 },
                        3 => Corruption::Dup { elem: f.below(260) as u16 },
                        4 => Corruption::Swap { a: f.below(260) as u16, b: f.below(260) as u16 },
                        5 => Corruption::Truncate { len: f.below(8) as u16 },
                        6 => Corruption::Extend { to: *f.pick(&[255u16, 256, 257, 258]), fill: f.below(3) as u8 },
                        7 => Corruption::OtherKey { q: f.below((nkeys + nabs) as u64) as u8 },
                        8 => Corruption::OtherValue { tag: f.below(6) as u32 },
                        9 => Corruption::ClaimKey { with_stored_value: f.bool() },
                        10 => Corruption::SwapTerminal,
                        11 => Corruption::FlipKind,
                        _ => Corruption::StaleRoot { back: f.range(1, 4) as u8 },
                    });
                }
                queries.push(Query { q, corruptions });
            }
        }
        Scenario {
            keys: keys.iter().map(hex::encode).collect(),
            absent: absent.iter().map(hex::encode).collect(),
            ops,
            set_checks,
            shuffle_seed: g.next_u64(),
            full_restarts,
            lost,
            queries,
        }
    }

    fn run(prop: &str, sc: &Scenario, ctx: &mut RunCtx) {
        if sc.keys.is_empty() {
            return;
        }
        let keys: Vec<H> = sc.keys.iter().map(|s| unhex(s)).collect();
        let absent: Vec<H> = sc.absent.iter().map(|s| unhex(s)).collect();
        match prop {
            "C12" => run_c12(sc, &keys, ctx),
            "C13" => run_c13(sc, &keys, &absent, ctx),
            "C14" => run_c14(sc, &keys, &absent, ctx),
            _ => {}
        }
    }

    fn shrink(_prop: &str, sc: &Scenario) -> Vec<Scenario> {
        let mut out = Vec::new();
        let n = sc.ops.len();
        if n > 1 {
            let mut a = sc.clone();
            a.ops.truncate(n / 2);
            out.push(a);
        }
        for i in (0..n).rev() {
            let mut a = sc.clone();
            a.ops.remove(i);
            // keep step-indexed plans roughly aligned
            for s in a.set_checks.iter_mut().chain(a.full_restarts.iter_mut()) {
                if *s as usize > i {
                    *s -= 1;
                }
            }
            for l in a.lost.iter_mut() {
                if l.0 as usize > i {
                    l.0 -= 1;
                }
            }
            out.push(a);
        }
        for i in 0..n {
            if sc.ops[i].fault != Fault::None {
                let mut a = sc.clone();
                a.ops[i].fault = Fault::None;
                out.push(a);
            }
            if let Fault::Crash { at, survive } = sc.ops[i].fault {
                if survive != 0 {
                    let mut a = sc.clone();
                    a.ops[i].fault = Fault::Crash { at, survive: 0 };
                    out.push(a);
                }
            }
        }
        for i in (0..sc.lost.len()).rev() {
            let mut a = sc.clone();
            a.lost.remove(i);
            out.push(a);
            if sc.lost[i].1.len() > 1 {
                let mut a = sc.clone();
                a.lost[i].1.truncate(1);
                out.push(a);
            }
        }
        for i in (0..sc.queries.len()).rev() {
            if sc.queries.len() > 1 {
                let mut a = sc.clone();
                a.queries.remove(i);
                out.push(a);
            }
            for j in (0..sc.queries[i].corruptions.len()).rev() {
                let mut a = sc.clone();
                a.queries[i].corruptions.remove(j);
                out.push(a);
            }
        }
        if !sc.set_checks.is_empty() {
            let mut a = sc.clone();
            a.set_checks.clear();
            out.push(a);
        }
        if sc.full_restarts.len() > 1 {
            let mut a = sc.clone();
            a.full_restarts.truncate(1);
            out.push(a);
        }
        // simpler keys: replace key j by a small constant key
        for j in 0..sc.keys.len() {
            let mut simple = [0u8; 32];
            simple[31] = j as u8 + 1;
            let hx = hex::encode(simple);
            if sc.keys[j] != hx && !sc.keys.contains(&hx) {
                let mut a = sc.clone();
                a.keys[j] = hx;
                out.push(a);
            }
        }
        out
    }
}

// ---------------------------------------------------------------------------------------------

fn is_storage_flavoured(e: &MerkleTreeError<SimIoError>) -> bool {
    match e {
        MerkleTreeError::StorageError(_) => true,
        // A failing child lookup surfaces through the path iterator.
        MerkleTreeError::ChildError(_) => true,
        _ => false,
    }
}

fn apply(tree: &mut Tree, key: &H, val: &Option<Vec<u8>>) -> Result<(), MerkleTreeError<SimIoError>> {
    match val {
        Some(v) => tree.insert(mk(key), v),
        None => tree.delete(mk(key)),
    }
}

fn model_apply(m: &mut BTreeMap<H, Vec<u8>>, key: &H, val: &Option<Vec<u8>>) {
    match val {
        Some(v) => {
            m.insert(*key, v.clone());
        }
        None => {
            m.remove(key);
        }
    }
}

fn op_val(op: &SOp) -> Option<Vec<u8>> {
    op.val.map(|(t, l)| value(t, l))
}

fn lo8(h: &H) -> u64 {
    u64::from_le_bytes(h[..8].try_into().unwrap())
}

fn probe_history(keys: &[H], m: &BTreeMap<H, Vec<u8>>, op: &SOp, key: &H, ctx: &mut RunCtx) {
    if op.val.is_none() && m.contains_key(key) && m.len() >= 2 {
        // deleting a present key whose sibling subtree is a single leaf collapses a subtree
        ctx.stats.inc("probe.smt_delete_present");
    }
    let _ = keys;
}

fn long_prefix_pair(m: &BTreeMap<H, Vec<u8>>, bits: usize) -> bool {
    let ks: Vec<&H> = m.keys().collect();
    ks.windows(2).any(|w| rf::common_prefix(w[0], w[1]) >= bits)
}

/// Does deleting `key` from `m` orphan a leaf (its sibling subtree is a single leaf)?
fn delete_collapses(m: &BTreeMap<H, Vec<u8>>, key: &H) -> bool {
    if !m.contains_key(key) || m.len() < 2 {
        return false;
    }
    // sibling subtree at the deepest branching point of `key`
    let depth = m
        .keys()
        .filter(|k| *k != key)
        .map(|k| rf::common_prefix(k, key))
        .max()
        .unwrap_or(0);
    let sib = m
        .keys()
        .filter(|k| *k != key && rf::common_prefix(k, key) >= depth)
        .count();
    sib == 1
}

// ---------------------------------------------------------------------------------------------
// C12

fn check_sets(m: &BTreeMap<H, Vec<u8>>, shuffle_seed: u64, step: usize, ctx: &mut RunCtx) -> bool {
    let want = rf::root(m);
    let mut items: Vec<(H, Vec<u8>)> = m.iter().map(|(k, v)| (*k, v.clone())).collect();
    let mut r = Rng::new(shuffle_seed ^ step as u64);
    if r.below(3) == 0 && !items.is_empty() {
        // from_set is documented as equivalent to sequential updates, so the last pair of a key
        // wins: 1..60 stale pairs (other non-empty values) precede the final pair of their key,
        // in a random interleaving that keeps the per-key order.
        let mut queues: Vec<Vec<(H, Vec<u8>)>> = items.iter().map(|it| vec![it.clone()]).collect();
        for _ in 0..r.range(1, 60) {
            let q = r.usize_below(queues.len());
            let key = queues[q][0].0;
            let mut v = vec![0xA5u8; 1 + r.usize_below(40)];
            v[0] = r.below(256) as u8;
            queues[q].insert(0, (key, v));
        }
        items.clear();
        while !queues.is_empty() {
            let q = r.usize_below(queues.len());
            items.push(queues[q].remove(0));
            if queues[q].is_empty() {
                queues.swap_remove(q);
            }
        }
        ctx.stats.inc("probe.smt_set_with_stale_pairs");
    } else {
        // duplicates carry the same value, so "last wins" cannot change the map
        let dups = r.below(3) as usize;
        for _ in 0..dups {
            if !items.is_empty() {
                let it = items[r.usize_below(items.len())].clone();
                items.push(it);
            }
        }
        r.shuffle(&mut items);
    }
    let set = || items.iter().map(|(k, v)| (mk(k), v.clone()));
    let t = in_memory::MerkleTree::from_set(set());
    if t.root() != want {
        return ctx.violate("smt-from-set", "smt-from-set:in-memory", format!("step {step}: in_memory::from_set root {} != reference {} over {} entries", hex::encode(t.root()), hex::encode(want), m.len()));
    }
    let r1 = in_memory::MerkleTree::root_from_set(set());
    if r1 != want {
        return ctx.violate("smt-from-set", "smt-from-set:root_from_set", format!("step {step}: root_from_set {} != reference {}", hex::encode(r1), hex::encode(want)));
    }
    let (r2, nodes) = in_memory::MerkleTree::nodes_from_set(set());
    if r2 != want {
        return ctx.violate("smt-from-set", "smt-from-set:nodes_from_set", format!("step {step}: nodes_from_set root {} != reference {}", hex::encode(r2), hex::encode(want)));
    }
    let store = Store::new();
    let t2 = Tree::from_set(store.clone(), items.iter().map(|(k, v)| (*k, v.clone())));
    match t2 {
        Ok(t2) => {
            if t2.root() != want {
                return ctx.violate("smt-from-set", "smt-from-set:storage", format!("step {step}: sparse::MerkleTree::from_set root {} != reference {}", hex::encode(t2.root()), hex::encode(want)));
            }
        }
        Err(e) => {
            return ctx.violate("smt-from-set", "smt-from-set:error", format!("step {step}: from_set failed without fault: {e:?}"));
        }
    }
    ctx.stats.inc("time.set_constructions");
    let _ = nodes;
    false
}

fn run_c12(sc: &Scenario, keys: &[H], ctx: &mut RunCtx) {
    let store = Store::new();
    let mut tree = Tree::new(store.clone());
    let mut mem = in_memory::MerkleTree::new();
    let mut m: BTreeMap<H, Vec<u8>> = BTreeMap::new();
    let (mut collapse, mut long_pair) = (false, false);
    for (step, op) in sc.ops.iter().enumerate() {
        let key = keys[op.k as usize % keys.len()];
        let val = op_val(op);
        probe_history(keys, &m, op, &key, ctx);
        if val.is_none() && delete_collapses(&m, &key) {
            collapse = true;
            ctx.stats.inc("probe.smt_delete_collapse");
        }
        let keep = store.buffer_len();
        let pre_root = tree.root();
        match &op.fault {
            Fault::None => {
                if let Err(e) = apply(&mut tree, &key, &val) {
                    ctx.violate("smt-op", "smt-op:error-without-fault", format!("step {step}: operation failed without an injected fault: {e:?}"));
                    return;
                }
            }
            Fault::Io { at } | Fault::Crash { at, .. } => {
                let before = store.errors_fired();
                store.fail_after(*at as u64);
                let r = apply(&mut tree, &key, &val);
                let fired = store.errors_fired() > before;
                store.clear_faults();
                if fired {
                    ctx.stats.inc("fault.io_error");
                    match r {
                        Err(e) if is_storage_flavoured(&e) => {}
                        Err(e) => {
                            ctx.violate("smt-op", "smt-op:error-kind", format!("step {step}: store I/O error surfaced as {e:?}"));
                            return;
                        }
                        Ok(()) => {
                            ctx.violate("smt-op", "smt-op:ok-despite-store-error", format!("step {step}: operation returned Ok although a store call failed"));
                            return;
                        }
                    }
                    // rollback to the pre-operation snapshot, reload at the pre-operation root, retry
                    store.rollback_to(keep);
                    tree = match Tree::load(store.clone(), &pre_root) {
                        Ok(t) => t,
                        Err(e) => {
                            ctx.violate("smt-load", "smt-load:after-rollback", format!("step {step}: reload at the pre-operation root failed: {e:?}"));
                            return;
                        }
                    };
                    if let Err(e) = apply(&mut tree, &key, &val) {
                        ctx.violate("smt-op", "smt-op:retry-failed", format!("step {step}: retry after rollback failed: {e:?}"));
                        return;
                    }
                } else if let Err(e) = r {
                    ctx.violate("smt-op", "smt-op:error-without-fault", format!("step {step}: operation failed although no fault fired: {e:?}"));
                    return;
                }
            }
        }
        match &val {
            Some(v) => mem.update(mk(&key), v),
            None => mem.delete(mk(&key)),
        }
        model_apply(&mut m, &key, &val);
        ctx.stats.inc("time.tree_ops");
        let want = rf::root(&m);
        let got = tree.root();
        ctx.event("root", step as u64, lo8(&got));
        if got != want {
            ctx.violate("smt-root", "smt-root:storage-tree", format!("step {step}: root {} != compact-SMT reference {} over {} entries", hex::encode(got), hex::encode(want), m.len()));
            return;
        }
        if mem.root() != want {
            ctx.violate("smt-root", "smt-root:in-memory-tree", format!("step {step}: in-memory root {} != reference {}", hex::encode(mem.root()), hex::encode(want)));
            return;
        }
        if long_prefix_pair(&m, 64) {
            long_pair = true;
        }
        if long_prefix_pair(&m, 200) {
            ctx.stats.inc("probe.smt_prefix_ge_200");
        }
        if sc.set_checks.contains(&(step as u16)) && check_sets(&m, sc.shuffle_seed, step, ctx) {
            return;
        }
    }
    if check_sets(&m, sc.shuffle_seed, sc.ops.len(), ctx) {
        return;
    }
    ctx.nontrivial = collapse && long_pair;
}

// ---------------------------------------------------------------------------------------------
// C13

fn to_ref_proof(p: &Proof) -> rf::RefProof {
    match p {
        Proof::Inclusion(i) => rf::RefProof { side: i.proof_set.clone(), terminal: rf::Terminal::Present },
        Proof::Exclusion(e) => rf::RefProof {
            side: e.proof_set.clone(),
            terminal: match &e.leaf {
                ExclusionLeaf::Placeholder => rf::Terminal::Placeholder,
                ExclusionLeaf::Leaf(d) => rf::Terminal::OtherLeaf(d.leaf_key, d.leaf_value),
            },
        },
    }
}

/// Compare all proofs of a reloaded tree with the original's and with the reference.
fn compare_proofs(
    orig: &Tree,
    re: &Tree,
    m: &BTreeMap<H, Vec<u8>>,
    qkeys: &[H],
    at: usize,
    ctx: &mut RunCtx,
) -> bool {
    for k in qkeys {
        let a = orig.generate_proof(&mk(k));
        let b = re.generate_proof(&mk(k));
        match (a, b) {
            (Ok(a), Ok(b)) => {
                if a != b {
                    return ctx.violate("smt-persist-proof", "smt-persist-proof:differs", format!("restart after step {at}: reloaded tree's proof for key {} differs from the original's", hex::encode(k)));
                }
                if to_ref_proof(&a) != rf::prove(m, k) {
                    return ctx.violate("smt-persist-proof", "smt-persist-proof:reference", format!("restart after step {at}: proof for key {} differs from the map-derived reference proof", hex::encode(k)));
                }
            }
            (a, b) => {
                return ctx.violate("smt-persist-proof", "smt-persist-proof:error", format!("restart after step {at}: generate_proof failed without fault (original ok={}, reloaded ok={})", a.is_ok(), b.is_ok()));
            }
        }
        ctx.stats.inc("time.proofs");
    }
    false
}

struct Point {
    view: BTreeMap<H, Primitive>,
    root: H,
    model: BTreeMap<H, Vec<u8>>,
}

fn run_c13(sc: &Scenario, keys: &[H], absent: &[H], ctx: &mut RunCtx) {
    let store = Store::new();
    let mut tree = Tree::new(store.clone());
    let mut m: BTreeMap<H, Vec<u8>> = BTreeMap::new();
    let mut qkeys: Vec<H> = keys.to_vec();
    qkeys.extend_from_slice(absent);
    // pass 1: the original tree, recording every point; crash faults are judged here
    let mut points: Vec<Point> = vec![Point { view: store.view(), root: tree.root(), model: m.clone() }];
    let mut interesting_restart = vec![false; sc.ops.len() + 1];
    for (step, op) in sc.ops.iter().enumerate() {
        let key = keys[op.k as usize % keys.len()];
        let val = op_val(op);
        let collapse = val.is_none() && delete_collapses(&m, &key);
        let overwrite = val.is_some() && m.contains_key(&key) && m.get(&key) != val.as_ref();
        let pre_root = tree.root();
        let keep = store.buffer_len();
        match &op.fault {
            Fault::None => {
                if let Err(e) = apply(&mut tree, &key, &val) {
                    ctx.violate("smt-op", "smt-op:error-without-fault", format!("step {step}: operation failed without an injected fault: {e:?}"));
                    return;
                }
            }
            Fault::Io { at } => {
                let before = store.errors_fired();
                store.fail_after(*at as u64);
                let r = apply(&mut tree, &key, &val);
                let fired = store.errors_fired() > before;
                store.clear_faults();
                if fired {
                    ctx.stats.inc("fault.io_error");
                    if r.is_ok() {
                        ctx.violate("smt-op", "smt-op:ok-despite-store-error", format!("step {step}: operation returned Ok although a store call failed"));
                        return;
                    }
                    store.rollback_to(keep);
                    tree = match Tree::load(store.clone(), &pre_root) {
                        Ok(t) => t,
                        Err(e) => {
                            ctx.violate("smt-load", "smt-load:after-rollback", format!("step {step}: reload at the pre-operation root failed: {e:?}"));
                            return;
                        }
                    };
                    if let Err(e) = apply(&mut tree, &key, &val) {
                        ctx.violate("smt-op", "smt-op:retry-failed", format!("step {step}: retry after rollback failed: {e:?}"));
                        return;
                    }
                } else if r.is_err() {
                    ctx.violate("smt-op", "smt-op:error-without-fault", format!("step {step}: operation failed although no fault fired"));
                    return;
                }
            }
            Fault::Crash { at, survive } => {
                // every completed operation is one committed batch; the crash hits this one
                store.crash_after(*at as u64);
                let r = apply(&mut tree, &key, &val);
                let fired = store.is_crashed();
                if !fired {
                    // the operation completed before the crash point: it is acknowledged
                    store.clear_faults();
                    if r.is_err() {
                        ctx.violate("smt-op", "smt-op:error-without-fault", format!("step {step}: operation failed although no fault fired"));
                        return;
                    }
                } else {
                    if r.is_ok() {
                        ctx.violate("smt-op", "smt-op:ok-despite-store-error", format!("step {step}: operation returned Ok although the store crashed"));
                        return;
                    }
                    let kept = store.crash(*survive);
                    if kept == 0 {
                        ctx.stats.inc("fault.crash_atomic");
                        // atomic batch lost: reload at the pre-operation root gives the pre-operation tree
                        let re = match Tree::load(store.clone(), &pre_root) {
                            Ok(t) => t,
                            Err(e) => {
                                ctx.violate("smt-load", "smt-load:after-crash", format!("step {step}: reload at the pre-operation root after a crash failed: {e:?}"));
                                return;
                            }
                        };
                        if re.root() != rf::root(&m) {
                            ctx.violate("smt-persist-root", "smt-persist-root:after-crash", format!("step {step}: tree reloaded after a crash has a root different from the pre-operation map's"));
                            return;
                        }
                        for k in &qkeys {
                            match re.generate_proof(&mk(k)) {
                                Ok(p) => {
                                    if to_ref_proof(&p) != rf::prove(&m, k) {
                                        ctx.violate("smt-persist-proof", "smt-persist-proof:after-crash", format!("step {step}: proof for {} after crash-reload differs from the reference", hex::encode(k)));
                                        return;
                                    }
                                }
                                Err(e) => {
                                    ctx.violate("smt-persist-proof", "smt-persist-proof:after-crash-error", format!("step {step}: generate_proof after crash-reload failed: {e:?}"));
                                    return;
                                }
                            }
                        }
                        tree = re;
                        // retry (liveness once faults stopped)
                        if let Err(e) = apply(&mut tree, &key, &val) {
                            ctx.violate("smt-op", "smt-op:retry-failed", format!("step {step}: retry after crash-reload failed: {e:?}"));
                            return;
                        }
                    } else {
                        ctx.stats.inc("fault.dirty_survive");
                        // an arbitrary subset of the interrupted op's inserts and removes persisted:
                        // old nodes may be gone — fail-stop oracle on a throw-away copy, then repair.
                        let dirty = store.fork_view();
                        if fail_stop(&dirty, &pre_root, &m, &qkeys, &sc.ops[step..], keys, step, ctx) {
                            return;
                        }
                        // repair: restore the pre-operation snapshot (the embedder's backup) and go on
                        let snap = points.last().map(|p| p.view.clone()).unwrap_or_default();
                        let repaired = Store::from_map(snap);
                        *store.0.borrow_mut() = repaired.0.borrow().clone();
                        tree = match Tree::load(store.clone(), &pre_root) {
                            Ok(t) => t,
                            Err(e) => {
                                ctx.violate("smt-load", "smt-load:after-repair", format!("step {step}: reload on the restored snapshot failed: {e:?}"));
                                return;
                            }
                        };
                        if let Err(e) = apply(&mut tree, &key, &val) {
                            ctx.violate("smt-op", "smt-op:retry-failed", format!("step {step}: retry after repair failed: {e:?}"));
                            return;
                        }
                    }
                }
            }
        }
        store.commit();
        model_apply(&mut m, &key, &val);
        ctx.stats.inc("time.tree_ops");
        let got = tree.root();
        ctx.event("root", step as u64, lo8(&got));
        if got != rf::root(&m) {
            ctx.violate("smt-root", "smt-root:storage-tree", format!("step {step}: root differs from the compact-SMT reference over {} entries", m.len()));
            return;
        }
        points.push(Point { view: store.view(), root: got, model: m.clone() });
        if (collapse || overwrite) && sc.ops.len() - (step + 1) >= 2 {
            interesting_restart[step + 1] = true;
        }
        if collapse {
            ctx.stats.inc("probe.smt_delete_collapse");
        }
    }

    // pass 2: a restart at every point of the history
    for (i, pt) in points.iter().enumerate() {
        let lost: Vec<&Vec<u32>> = sc.lost.iter().filter(|l| l.0 as usize == i).map(|l| &l.1).collect();
        let restart_store = Store::from_map(pt.view.clone());
        if !lost.is_empty() && !pt.view.is_empty() {
            let all: Vec<H> = pt.view.keys().copied().collect();
            let mut gone = Vec::new();
            for picks in lost {
                for p in picks {
                    gone.push(all[*p as usize % all.len()]);
                }
            }
            restart_store.lose(&gone);
            ctx.stats.inc("fault.lost_nodes");
            if fail_stop(&restart_store, &pt.root, &pt.model, &qkeys, &sc.ops[i.min(sc.ops.len())..], keys, i, ctx) {
                return;
            }
            continue;
        }
        let mut re = match Tree::load(restart_store.clone(), &pt.root) {
            Ok(t) => t,
            Err(e) => {
                ctx.violate("smt-load", "smt-load:restart", format!("restart after step {i}: load at the current root failed: {e:?}"));
                return;
            }
        };
        ctx.stats.inc("time.restarts");
        // the original tree as of point i, rebuilt on its own copy so both can be queried
        let orig = match Tree::load(Store::from_map(pt.view.clone()), &pt.root) {
            Ok(t) => t,
            Err(_) => return,
        };
        if compare_proofs(&orig, &re, &pt.model, &qkeys, i, ctx) {
            return;
        }
        let full = sc.full_restarts.contains(&(i as u16));
        let upto = if full { sc.ops.len() } else { (i + 3).min(sc.ops.len()) };
        let mut mm = pt.model.clone();
        for (j, op) in sc.ops[i.min(sc.ops.len())..upto].iter().enumerate() {
            let key = keys[op.k as usize % keys.len()];
            let val = op_val(op);
            if let Err(e) = apply(&mut re, &key, &val) {
                ctx.violate("smt-persist-continue", "smt-persist-continue:error", format!("restart after step {i}: operation {} on the reloaded tree failed: {e:?}", i + j));
                return;
            }
            model_apply(&mut mm, &key, &val);
            let want = points.get(i + j + 1).map(|p| p.root).unwrap_or_else(|| rf::root(&mm));
            if re.root() != want || want != rf::root(&mm) {
                ctx.violate("smt-persist-continue", "smt-persist-continue:root", format!("restart after step {i}: after operation {} the reloaded tree's root {} differs from the original's {}", i + j, hex::encode(re.root()), hex::encode(want)));
                return;
            }
        }
        if interesting_restart[i] {
            ctx.nontrivial = true;
        }
        ctx.event("restart", i as u64, lo8(&re.root()));
    }

    // nodes_from_set → empty store → load
    let last = points.last().unwrap();
    let (root, nodes) = in_memory::MerkleTree::nodes_from_set(last.model.iter().map(|(k, v)| (mk(k), v.clone())));
    let s = Store::from_map(nodes.into_iter().collect());
    match Tree::load(s, &root) {
        Ok(t) => {
            let orig = match Tree::load(Store::from_map(last.view.clone()), &last.root) {
                Ok(t) => t,
                Err(_) => return,
            };
            if root != last.root {
                ctx.violate("smt-persist-root", "smt-persist-root:nodes_from_set", "nodes_from_set root differs from the history-built tree's".to_string());
                return;
            }
            if compare_proofs(&orig, &t, &last.model, &qkeys, sc.ops.len(), ctx) {
                return;
            }
        }
        Err(e) => {
            ctx.violate("smt-load", "smt-load:nodes_from_set", format!("loading the nodes returned by nodes_from_set failed: {e:?}"));
            return;
        }
    }
    // loading at the empty root yields an empty tree whatever the store contains
    match Tree::load(Store::from_map(last.view.clone()), Tree::empty_root()) {
        Ok(mut t) => {
            if t.root() != rf::ZERO {
                ctx.violate("smt-load", "smt-load:empty-root", "load at the empty root gave a non-empty tree".to_string());
                return;
            }
            let k = qkeys[0];
            match t.generate_proof(&mk(&k)) {
                Ok(Proof::Exclusion(e)) if e.proof_set.is_empty() && e.leaf == ExclusionLeaf::Placeholder => {}
                other => {
                    ctx.violate("smt-load", "smt-load:empty-root-proof", format!("empty tree produced proof {other:?}"));
                    return;
                }
            }
            let v = value(1, 2);
            if t.insert(mk(&k), &v).is_err() || t.root() != rf::leaf_hash(&k, &rf::sum(&v)) {
                ctx.violate("smt-load", "smt-load:empty-root-insert", "insert into a tree loaded at the empty root gave a wrong root".to_string());
            }
        }
        Err(e) => {
            ctx.violate("smt-load", "smt-load:empty-root", format!("load at the empty root failed: {e:?}"));
        }
    }
}

/// Fail-stop oracle on a store that lost nodes (or kept a torn batch): load fails, or every
/// subsequent result is an error or equals the model's. The first error ends the use of the tree.
#[allow(clippy::too_many_arguments)]
fn fail_stop(
    store: &Store,
    root: &H,
    model: &BTreeMap<H, Vec<u8>>,
    qkeys: &[H],
    rest: &[SOp],
    keys: &[H],
    at: usize,
    ctx: &mut RunCtx,
) -> bool {
    let root_present = root == &rf::ZERO || store.0.borrow().view.contains_key(root);
    let mut t = match Tree::load(store.clone(), root) {
        Ok(t) => {
            if !root_present {
                return ctx.violate("smt-failstop", "smt-failstop:load-missing-root", format!("point {at}: load succeeded although the root node is missing"));
            }
            t
        }
        Err(MerkleTreeError::LoadError(_)) => {
            ctx.stats.inc("probe.smt_load_error");
            return false;
        }
        Err(e) => {
            if root_present {
                // Still fail-stop; not the specified error kind only when the root is absent.
                ctx.note(|| format!("load failed with {e:?}"));
            }
            return false;
        }
    };
    if t.root() != *root {
        return ctx.violate("smt-failstop", "smt-failstop:root", format!("point {at}: loaded tree reports a root different from the one it was loaded at"));
    }
    for k in qkeys {
        match t.generate_proof(&mk(k)) {
            Ok(p) => {
                if to_ref_proof(&p) != rf::prove(model, k) {
                    return ctx.violate("smt-failstop", "smt-failstop:wrong-proof", format!("point {at}: with nodes missing, generate_proof({}) silently returned a proof different from the reference", hex::encode(k)));
                }
            }
            Err(_) => {
                ctx.stats.inc("probe.smt_failstop_error");
            }
        }
    }
    let mut mm = model.clone();
    for (j, op) in rest.iter().take(4).enumerate() {
        let key = keys[op.k as usize % keys.len()];
        let val = op_val(op);
        match apply(&mut t, &key, &val) {
            Ok(()) => {
                model_apply(&mut mm, &key, &val);
                if t.root() != rf::root(&mm) {
                    return ctx.violate("smt-failstop", "smt-failstop:wrong-root", format!("point {at}: with nodes missing, operation {} silently produced a root different from the map's", at + j));
                }
            }
            Err(_) => {
                ctx.stats.inc("probe.smt_failstop_error");
                return false;
            }
        }
    }
    false
}

// ---------------------------------------------------------------------------------------------
// C14

#[derive(Clone, Debug)]
enum Shipped {
    Inc { side: Vec<H> },
    Exc { side: Vec<H>, leaf: Option<(H, H)> },
}

fn run_c14(sc: &Scenario, keys: &[H], absent: &[H], ctx: &mut RunCtx) {
    let store = Store::new();
    let mut tree = Tree::new(store.clone());
    let mut m: BTreeMap<H, Vec<u8>> = BTreeMap::new();
    let mut roots: Vec<H> = vec![tree.root()];
    let mut had_delete = false;
    for (step, op) in sc.ops.iter().enumerate() {
        let key = keys[op.k as usize % keys.len()];
        let val = op_val(op);
        if val.is_none() && m.contains_key(&key) {
            had_delete = true;
        }
        if let Err(e) = apply(&mut tree, &key, &val) {
            ctx.violate("smt-op", "smt-op:error-without-fault", format!("step {step}: operation failed without an injected fault: {e:?}"));
            return;
        }
        model_apply(&mut m, &key, &val);
        roots.push(tree.root());
        ctx.stats.inc("time.tree_ops");
    }
    // Some trees are built by from_set instead (same map).
    if sc.shuffle_seed & 3 == 0 {
        match Tree::from_set(Store::new(), m.iter().map(|(k, v)| (*k, v.clone()))) {
            Ok(t) => tree = t,
            Err(_) => return,
        }
        ctx.stats.inc("probe.smt_tree_from_set");
    }
    let root = tree.root();
    if root != rf::root(&m) {
        ctx.violate("smt-root", "smt-root:storage-tree", "final root differs from the reference".to_string());
        return;
    }
    let mut all: Vec<H> = keys.to_vec();
    all.extend_from_slice(absent);
    let (mut saw_close_leaf, mut saw_corrupt) = (false, false);

    // honest proofs for every key of the pool and every absent key
    for k in &all {
        let p = match tree.generate_proof(&mk(k)) {
            Ok(p) => p,
            Err(e) => {
                ctx.violate("smt-proof", "smt-proof:error", format!("generate_proof({}) failed: {e:?}", hex::encode(k)));
                return;
            }
        };
        let present = m.contains_key(k);
        ctx.event("proof", p.is_inclusion() as u64, p.proof_set().len() as u64);
        if p.is_inclusion() != present {
            ctx.violate("smt-proof-kind", "smt-proof-kind", format!("key {} present={present} but is_inclusion()={}", hex::encode(k), p.is_inclusion()));
            return;
        }
        if to_ref_proof(&p) != rf::prove(&m, k) {
            ctx.violate("smt-proof", "smt-proof:reference", format!("proof for key {} differs from the map-derived reference proof", hex::encode(k)));
            return;
        }
        match &p {
            Proof::Inclusion(ip) => {
                let v = &m[k];
                if !ip.verify(&root, &mk(k), v) {
                    ctx.violate("smt-proof-honest", "smt-proof-honest:inclusion-rejected", format!("honest inclusion proof for {} does not verify with the stored value", hex::encode(k)));
                    return;
                }
                for t in 0..6u32 {
                    for l in 0..4u8 {
                        let other = value(t, l);
                        if &other != v && ip.verify(&root, &mk(k), &other) {
                            ctx.violate("smt-proof-honest", "smt-proof-honest:inclusion-other-value", format!("inclusion proof for {} verifies with a value that is not stored", hex::encode(k)));
                            return;
                        }
                    }
                }
            }
            Proof::Exclusion(ep) => {
                if !ep.verify(&root, &mk(k)) {
                    ctx.violate("smt-proof-honest", "smt-proof-honest:exclusion-rejected", format!("honest exclusion proof for absent key {} does not verify", hex::encode(k)));
                    return;
                }
                if let ExclusionLeaf::Leaf(d) = &ep.leaf {
                    if rf::common_prefix(&d.leaf_key, k) >= 8 {
                        saw_close_leaf = true;
                        ctx.stats.inc("probe.smt_exclusion_close_leaf");
                    }
                }
                // an exclusion proof must not verify for any present key
                for pk in m.keys() {
                    if ep.verify(&root, &mk(pk)) {
                        ctx.violate("smt-proof-honest", "smt-proof-honest:exclusion-for-present", format!("exclusion proof generated for {} verifies for present key {}", hex::encode(k), hex::encode(pk)));
                        return;
                    }
                }
            }
        }
    }

    // corrupted tuples
    for (qi, q) in sc.queries.iter().enumerate() {
        let k0 = all[q.q as usize % all.len()];
        let p = match tree.generate_proof(&mk(&k0)) {
            Ok(p) => p,
            Err(_) => return,
        };
        let mut key = k0;
        let mut val: Vec<u8> = m.get(&k0).cloned().unwrap_or_default();
        let mut vroot = root;
        let mut shipped = match &p {
            Proof::Inclusion(i) => Shipped::Inc { side: i.proof_set.clone() },
            Proof::Exclusion(e) => Shipped::Exc {
                side: e.proof_set.clone(),
                leaf: match &e.leaf {
                    ExclusionLeaf::Placeholder => None,
                    ExclusionLeaf::Leaf(d) => Some((d.leaf_key, d.leaf_value)),
                },
            },
        };
        for c in &q.corruptions {
            saw_corrupt = true;
            ctx.stats.inc("fault.proof_corruption");
            let side: &mut Vec<H> = match &mut shipped {
                Shipped::Inc { side } => side,
                Shipped::Exc { side, .. } => side,
            };
            match c {
                Corruption::FlipBit { elem, bit } => {
                    if !side.is_empty() {
                        let e = *elem as usize % side.len();
                        side[e][*bit as usize / 8] ^= 1 << (*bit % 8);
                    }
                }
                Corruption::Drop { elem } => {
                    if !side.is_empty() {
                        let e = *elem as usize % side.len();
                        side.remove(e);
                    }
                }
                Corruption::Dup { elem } => {
                    if !side.is_empty() {
                        let e = *elem as usize % side.len();
                        let x = side[e];
                        side.insert(e, x);
                    }
                }
                Corruption::Swap { a, b } => {
                    if side.len() >= 2 {
                        let (a, b) = (*a as usize % side.len(), *b as usize % side.len());
                        side.swap(a, b);
                    }
                }
                Corruption::Truncate { len } => side.truncate(*len as usize),
                Corruption::Extend { to, fill } => {
                    let mut r = Rng::new(qi as u64);
                    while side.len() < *to as usize {
                        side.push(match fill {
                            0 => rf::ZERO,
                            1 => r.bytes32(),
                            _ => root,
                        });
                    }
                }
                Corruption::OtherKey { q } => key = all[*q as usize % all.len()],
                Corruption::OtherValue { tag } => val = value(*tag, 2),
                Corruption::ClaimKey { with_stored_value } => {
                    if let Shipped::Exc { leaf, .. } = &mut shipped {
                        let lv = if *with_stored_value {
                            m.get(&key).map(|v| rf::sum(v)).unwrap_or(rf::sum(&val))
                        } else {
                            rf::sum(&val)
                        };
                        *leaf = Some((key, lv));
                    }
                }
                Corruption::SwapTerminal => {
                    if let Shipped::Exc { leaf, .. } = &mut shipped {
                        *leaf = match leaf {
                            None => m.iter().next().map(|(k, v)| (*k, rf::sum(v))),
                            Some(_) => None,
                        };
                    }
                }
                Corruption::FlipKind => {
                    shipped = match shipped.clone() {
                        Shipped::Inc { side } => Shipped::Exc { side, leaf: None },
                        Shipped::Exc { side, .. } => Shipped::Inc { side },
                    };
                }
                Corruption::StaleRoot { back } => {
                    let idx = roots.len().saturating_sub(1 + *back as usize);
                    vroot = roots[idx];
                }
            }
        }
        let (lib, refv, claim) = match &shipped {
            Shipped::Inc { side } => {
                let ip = InclusionProof { proof_set: side.clone() };
                (
                    ip.verify(&vroot, &mk(&key), &val),
                    rf::verify_inclusion(&vroot, &key, &val, side),
                    format!("inclusion of ({}, value of {} bytes)", hex::encode(key), val.len()),
                )
            }
            Shipped::Exc { side, leaf } => {
                let ep = ExclusionProof {
                    proof_set: side.clone(),
                    leaf: match leaf {
                        None => ExclusionLeaf::Placeholder,
                        Some((lk, lv)) => ExclusionLeaf::Leaf(ExclusionLeafData { leaf_key: *lk, leaf_value: *lv }),
                    },
                };
                (
                    ep.verify(&vroot, &mk(&key)),
                    rf::verify_exclusion(&vroot, &key, leaf.as_ref().map(|(a, b)| (a, b)), side),
                    format!("exclusion of {}", hex::encode(key)),
                )
            }
        };
        ctx.event("verdict", lib as u64, refv as u64);
        if lib != refv {
            ctx.violate("smt-verify", "smt-verify:differs-from-recomputation", format!("query {qi}: library verdict {lib} but the compact-tree recomputation says {refv} for {claim} with {} side hashes", match &shipped { Shipped::Inc { side } | Shipped::Exc { side, .. } => side.len() }));
            return;
        }
        if lib {
            ctx.stats.inc("probe.smt_corrupted_still_accepted");
            // whatever was accepted must be true of the map the root commits to
            let stale = vroot != root;
            if !stale {
                let truth = match &shipped {
                    Shipped::Inc { .. } => m.get(&key) == Some(&val),
                    Shipped::Exc { .. } => !m.contains_key(&key),
                };
                if !truth {
                    ctx.violate("smt-verify", "smt-verify:accepted-false-statement", format!("query {qi}: verifier accepted a false statement: {claim}"));
                    return;
                }
            }
        }
    }
    ctx.nontrivial = had_delete && saw_close_leaf && saw_corrupt;
}
