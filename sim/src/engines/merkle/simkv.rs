//! SimKV — the simulated node store behind the Merkle trees' `StorageInspect/StorageMutate`
//! seam: an ordered map with a durable part and an un-flushed write buffer. Calls can fail,
//! a crash drops (or partially keeps) the buffer, durable nodes can be lost.

use fuel_merkle::storage::{Mappable, StorageInspect, StorageMutate};
use std::borrow::Cow;
use std::cell::RefCell;
use std::collections::BTreeMap;
use std::rc::Rc;

#[derive(Debug, Clone, PartialEq, Eq)]
pub struct SimIoError(pub u64);

impl core::fmt::Display for SimIoError {
    fn fmt(&self, f: &mut core::fmt::Formatter<'_>) -> core::fmt::Result {
        write!(f, "simulated I/O error at store call {}", self.0)
    }
}

#[derive(Debug, Clone)]
pub struct Inner<K: Ord + Clone, V: Clone> {
    pub durable: BTreeMap<K, V>,
    /// Un-flushed writes, in order; None = remove.
    pub buffer: Vec<(K, Option<V>)>,
    /// durable + buffer.
    pub view: BTreeMap<K, V>,
    /// Number of store calls so far (all kinds).
    pub calls: u64,
    /// Fail the call with this ordinal (absolute).
    pub fail_at: Option<u64>,
    /// "Crash" at this ordinal: the call and all later ones fail until `crash()`.
    pub crash_at: Option<u64>,
    pub crashed: bool,
    pub reads: u64,
    pub writes: u64,
    pub removes: u64,
    pub errors_fired: u64,
}

impl<K: Ord + Clone, V: Clone> Default for Inner<K, V> {
    fn default() -> Self {
        Inner {
            durable: BTreeMap::new(),
            buffer: Vec::new(),
            view: BTreeMap::new(),
            calls: 0,
            fail_at: None,
            crash_at: None,
            crashed: false,
            reads: 0,
            writes: 0,
            removes: 0,
            errors_fired: 0,
        }
    }
}

impl<K: Ord + Clone, V: Clone> Inner<K, V> {
    fn tick(&mut self) -> Result<(), SimIoError> {
        let c = self.calls;
        self.calls += 1;
        if self.crashed {
            return Err(SimIoError(c));
        }
        if self.crash_at == Some(c) {
            self.crashed = true;
            self.errors_fired += 1;
            return Err(SimIoError(c));
        }
        if self.fail_at == Some(c) {
            self.fail_at = None;
            self.errors_fired += 1;
            return Err(SimIoError(c));
        }
        Ok(())
    }
}

/// Shared handle; the tree owns one clone, the simulator another.
#[derive(Debug)]
pub struct SimKV<K: Ord + Clone, V: Clone>(pub Rc<RefCell<Inner<K, V>>>);

impl<K: Ord + Clone, V: Clone> Clone for SimKV<K, V> {
    fn clone(&self) -> Self {
        SimKV(self.0.clone())
    }
}

impl<K: Ord + Clone, V: Clone> SimKV<K, V> {
    pub fn new() -> Self {
        SimKV(Rc::new(RefCell::new(Inner::default())))
    }

    /// A store whose durable content is `map` (restart from persisted nodes).
    pub fn from_map(map: BTreeMap<K, V>) -> Self {
        let kv = Self::new();
        {
            let mut i = kv.0.borrow_mut();
            i.view = map.clone();
            i.durable = map;
        }
        kv
    }

    /// Independent deep copy of the current view as a fresh durable store.
    pub fn fork_view(&self) -> Self {
        Self::from_map(self.0.borrow().view.clone())
    }

    pub fn view(&self) -> BTreeMap<K, V> {
        self.0.borrow().view.clone()
    }

    pub fn calls(&self) -> u64 {
        self.0.borrow().calls
    }

    pub fn buffer_len(&self) -> usize {
        self.0.borrow().buffer.len()
    }

    /// Make everything written so far durable.
    pub fn commit(&self) {
        let mut i = self.0.borrow_mut();
        let buf = std::mem::take(&mut i.buffer);
        for (k, v) in buf {
            match v {
                Some(v) => {
                    i.durable.insert(k, v);
                }
                None => {
                    i.durable.remove(&k);
                }
            }
        }
    }

    /// Crash: keep the durable part plus the buffered writes selected by `survive`
    /// (bit j set = j-th buffered write persisted); everything else is lost.
    pub fn crash(&self, survive: u64) -> usize {
        let mut i = self.0.borrow_mut();
        let buf = std::mem::take(&mut i.buffer);
        let mut kept = 0;
        for (j, (k, v)) in buf.into_iter().enumerate() {
            if j < 64 && (survive >> j) & 1 == 1 {
                kept += 1;
                match v {
                    Some(v) => {
                        i.durable.insert(k, v);
                    }
                    None => {
                        i.durable.remove(&k);
                    }
                }
            }
        }
        i.view = i.durable.clone();
        i.crashed = false;
        i.crash_at = None;
        i.fail_at = None;
        kept
    }

    /// Roll the view back to the durable state plus the first `keep` buffered writes.
    pub fn rollback_to(&self, keep: usize) {
        let mut i = self.0.borrow_mut();
        i.buffer.truncate(keep);
        let mut view = i.durable.clone();
        for (k, v) in i.buffer.iter() {
            match v {
                Some(v) => {
                    view.insert(k.clone(), v.clone());
                }
                None => {
                    view.remove(k);
                }
            }
        }
        i.view = view;
        i.crashed = false;
        i.crash_at = None;
        i.fail_at = None;
    }

    /// Fail the n-th call from now (0 = the next one).
    pub fn fail_after(&self, n: u64) {
        let mut i = self.0.borrow_mut();
        i.fail_at = Some(i.calls + n);
    }

    pub fn crash_after(&self, n: u64) {
        let mut i = self.0.borrow_mut();
        i.crash_at = Some(i.calls + n);
    }

    pub fn clear_faults(&self) -> bool {
        let mut i = self.0.borrow_mut();
        let pending = i.fail_at.is_some() || i.crash_at.is_some();
        i.fail_at = None;
        i.crash_at = None;
        pending
    }

    pub fn is_crashed(&self) -> bool {
        self.0.borrow().crashed
    }

    /// Lose durable nodes (and their view entries).
    pub fn lose(&self, keys: &[K]) {
        let mut i = self.0.borrow_mut();
        for k in keys {
            i.durable.remove(k);
            i.view.remove(k);
        }
    }

    pub fn errors_fired(&self) -> u64 {
        self.0.borrow().errors_fired
    }

    fn do_get(&self, key: &K) -> Result<Option<V>, SimIoError> {
        let mut i = self.0.borrow_mut();
        i.tick()?;
        i.reads += 1;
        Ok(i.view.get(key).cloned())
    }

    fn do_put(&self, key: &K, v: V) -> Result<Option<V>, SimIoError> {
        let mut i = self.0.borrow_mut();
        i.tick()?;
        i.writes += 1;
        i.buffer.push((key.clone(), Some(v.clone())));
        Ok(i.view.insert(key.clone(), v))
    }

    fn do_take(&self, key: &K) -> Result<Option<V>, SimIoError> {
        let mut i = self.0.borrow_mut();
        i.tick()?;
        i.removes += 1;
        i.buffer.push((key.clone(), None));
        Ok(i.view.remove(key))
    }
}

impl<T, K, V> StorageInspect<T> for SimKV<K, V>
where
    T: Mappable<Key = K, OwnedKey = K, Value = V, OwnedValue = V>,
    K: Ord + Clone,
    V: Clone,
{
    type Error = SimIoError;

    fn get(&self, key: &K) -> Result<Option<Cow<'_, V>>, SimIoError> {
        Ok(self.do_get(key)?.map(Cow::Owned))
    }

    fn contains_key(&self, key: &K) -> Result<bool, SimIoError> {
        Ok(self.do_get(key)?.is_some())
    }
}

impl<T, K, V> StorageMutate<T> for SimKV<K, V>
where
    T: Mappable<Key = K, OwnedKey = K, Value = V, OwnedValue = V>,
    K: Ord + Clone,
    V: Clone,
{
    fn replace(&mut self, key: &K, value: &V) -> Result<Option<V>, SimIoError> {
        self.do_put(key, value.clone())
    }

    fn take(&mut self, key: &K) -> Result<Option<V>, SimIoError> {
        self.do_take(key)
    }
}
