//! C11 — binary Merkle trees across push / reset / reload / crash histories on a faulty node
//! store, judged against a leaf-vector model and the RFC 6962 reference.

use super::simkv::{SimIoError, SimKV};
use crate::kernel::*;
use crate::models::rfc6962 as rfc;
use fuel_merkle::binary::{self, in_memory, root_calculator::MerkleRootCalculator, MerkleTreeError, Primitive};
use fuel_merkle::storage::Mappable;
use serde::{Deserialize, Serialize};

#[derive(Debug, Clone)]
pub struct BinTable;
impl Mappable for BinTable {
    type Key = u64;
    type OwnedKey = u64;
    type Value = Primitive;
    type OwnedValue = Primitive;
}

type Store = SimKV<u64, Primitive>;
type Tree = binary::MerkleTree<BinTable, Store>;

#[derive(Debug, Clone, Serialize, Deserialize, PartialEq)]
pub enum Op {
    /// Push one leaf whose data is `len` bytes derived from `tag`.
    Push { tag: u32, len: u16 },
    /// Push n leaves (bulk growth towards 2^k ± 1 sizes).
    PushMany { n: u32, tag: u32 },
    Root,
    /// Ask for a proof; `index` is used as is (may be beyond the leaf count).
    Prove { index: u64 },
    Reset,
    /// Flush the store and remember the leaf vector as the durable one.
    Commit,
    /// Restart from storage at leaf count `len - back` (clamped at 0), then continue there.
    Load { back: u32 },
    /// Try to load at a count beyond what was ever pushed in this epoch.
    LoadBeyond { extra: u32 },
    /// Crash at the `at`-th store call of a push cascade (or right after it when the
    /// cascade is shorter); `survive` selects which un-flushed writes persist.
    CrashInPush { tag: u32, at: u8, survive: u64 },
    /// Crash between operations.
    Crash { survive: u64 },
    /// The `at`-th store call of the next push fails with an I/O error.
    FailPush { tag: u32, at: u8 },
    /// The `at`-th store call of the next prove fails.
    FailProve { index: u64, at: u8 },
    /// The `at`-th store call of a reload fails.
    FailLoad { at: u8 },
}

#[derive(Debug, Clone, Serialize, Deserialize)]
pub struct Scenario {
    pub ops: Vec<Op>,
    /// Check every proof after each step (small trees) or a sample.
    pub dense_checks: bool,
    /// Bit `step % 64` set: observe root / count / proofs after that step. Observation is not
    /// neutral (an implementation may cache what it was asked for), so half of the runs observe
    /// only at seeded steps; the last step is always observed.
    #[serde(default = "all_steps")]
    pub check_mask: u64,
}

fn all_steps() -> u64 {
    u64::MAX
}

fn leaf_data(tag: u32, len: u16) -> Vec<u8> {
    let mut r = Rng::new(0xB17E_0000_0000 ^ tag as u64);
    r.bytes(len as usize)
}

pub struct Bmt;

struct Model {
    leaves: Vec<Vec<u8>>,
    hashes: Vec<rfc::H>,
    committed: Vec<Vec<u8>>,
    /// No reset and no fork since the last commit: un-flushed writes never touch nodes
    /// needed by the committed count, so an arbitrary subset may survive a crash.
    window_clean: bool,
    /// The store never held nodes of another epoch/branch: absent peaks are really absent.
    store_clean: bool,
}

impl Model {
    fn push(&mut self, d: Vec<u8>) {
        self.hashes.push(rfc::leaf_hash(&d));
        self.leaves.push(d);
    }
    fn truncate(&mut self, k: usize) {
        self.leaves.truncate(k);
        self.hashes.truncate(k);
    }
    fn set(&mut self, leaves: Vec<Vec<u8>>) {
        self.hashes = leaves.iter().map(|d| rfc::leaf_hash(d)).collect();
        self.leaves = leaves;
    }
}

struct Sys {
    store: Store,
    tree: Tree,
    mem: in_memory::MerkleTree,
    calc: MerkleRootCalculator,
    /// The in-memory tree and the calculator have no load; they follow only while no
    /// reload/crash happened since the last reset.
    mem_in_sync: bool,
}

fn sample_indices(len: u64, dense: bool, salt: u64) -> Vec<u64> {
    if len == 0 {
        return vec![];
    }
    if dense && len <= 40 {
        return (0..len).collect();
    }
    let mut v = vec![0, len - 1, len / 2];
    let mut r = Rng::new(salt ^ len);
    for _ in 0..5 {
        v.push(r.below(len));
    }
    // Power-of-two borders.
    let mut p = 1u64;
    while p < len {
        v.push(p - 1);
        v.push(p);
        p <<= 1;
    }
    v.sort();
    v.dedup();
    v.retain(|i| *i < len);
    if v.len() > 24 {
        let mut r = Rng::new(salt);
        r.shuffle(&mut v);
        v.truncate(24);
    }
    v
}

fn check_all(sys: &Sys, m: &Model, dense: bool, step: usize, ctx: &mut RunCtx) -> bool {
    let n = m.leaves.len() as u64;
    let want_root = rfc::mth_hashed(&m.hashes);
    // root
    let got = sys.tree.root();
    ctx.event("root", n, u64::from_le_bytes(got[..8].try_into().unwrap()));
    if got != want_root {
        return ctx.violate(
            "bmt-root",
            "bmt-root:storage-tree",
            format!("step {step}: storage-backed tree root {} != RFC 6962 MTH {} over {n} model leaves", hex::encode(got), hex::encode(want_root)),
        );
    }
    if sys.tree.leaves_count() != n {
        return ctx.violate(
            "bmt-count",
            "bmt-count:storage-tree",
            format!("step {step}: leaves_count() = {} but the tree holds {n} leaves", sys.tree.leaves_count()),
        );
    }
    if sys.mem_in_sync {
        let r = sys.mem.root();
        if r != want_root {
            return ctx.violate(
                "bmt-root",
                "bmt-root:in-memory-tree",
                format!("step {step}: in-memory tree root {} != MTH {}", hex::encode(r), hex::encode(want_root)),
            );
        }
        let r = sys.calc.clone().root();
        if r != want_root {
            return ctx.violate(
                "bmt-root",
                "bmt-root:root-calculator",
                format!("step {step}: root calculator {} != MTH {}", hex::encode(r), hex::encode(want_root)),
            );
        }
    }
    // proofs for indices in range
    for i in sample_indices(n, dense, step as u64) {
        let want = rfc::path_hashed(i as usize, &m.hashes);
        match sys.tree.prove(i) {
            Ok((root, set)) => {
                if root != want_root || set != want {
                    return ctx.violate(
                        "bmt-proof",
                        "bmt-proof:storage-tree",
                        format!("step {step}: prove({i}) of {n} leaves returned a proof of {} elements (root {}), reference PATH has {} elements", set.len(), hex::encode(root), want.len()),
                    );
                }
                if !binary::verify(&root, &m.leaves[i as usize], &set, i, n) {
                    return ctx.violate(
                        "bmt-proof",
                        "bmt-proof:verify",
                        format!("step {step}: proof for index {i} of {n} does not verify with the library verifier"),
                    );
                }
                if rfc::root_from_path(&m.hashes[i as usize], i, n, &set) != Some(want_root) {
                    return ctx.violate(
                        "bmt-proof",
                        "bmt-proof:rfc-recompute",
                        format!("step {step}: proof for index {i} of {n} does not recompute the root"),
                    );
                }
            }
            Err(e) => {
                return ctx.violate(
                    "bmt-proof",
                    "bmt-proof:refused-in-range",
                    format!("step {step}: prove({i}) with {n} leaves failed: {e}"),
                );
            }
        }
        if sys.mem_in_sync {
            match sys.mem.prove(i) {
                Some((root, set)) if root == want_root && set == want => {}
                other => {
                    return ctx.violate(
                        "bmt-proof",
                        "bmt-proof:in-memory-tree",
                        format!("step {step}: in-memory prove({i}) of {n} leaves = {:?}, reference PATH has {} elements", other.map(|(_, s)| s.len()), want.len()),
                    );
                }
            }
        }
    }
    // refusal at and beyond the count
    let mut beyond = vec![n, n + 1, n.saturating_mul(2), n.next_power_of_two(), u64::MAX];
    beyond.push(n + (step as u64 % 7) + 2);
    for i in beyond {
        if i < n {
            continue;
        }
        match sys.tree.prove(i) {
            Err(MerkleTreeError::InvalidProofIndex(_)) => {}
            Ok((_, set)) => {
                return ctx.violate(
                    "bmt-proof-refusal",
                    "bmt-proof-refusal:storage-tree",
                    format!("step {step}: prove({i}) succeeded ({} elements) although the tree holds only {n} leaves", set.len()),
                );
            }
            Err(e) => {
                return ctx.violate(
                    "bmt-proof-refusal",
                    "bmt-proof-refusal:storage-tree-error-kind",
                    format!("step {step}: prove({i}) with {n} leaves failed with {e} instead of InvalidProofIndex"),
                );
            }
        }
        if sys.mem_in_sync && sys.mem.prove(i).is_some() {
            return ctx.violate(
                "bmt-proof-refusal",
                "bmt-proof-refusal:in-memory-tree",
                format!("step {step}: in-memory prove({i}) succeeded although the tree holds only {n} leaves"),
            );
        }
    }
    false
}

/// Fresh real tree over the model's leaves must agree with the reference too
/// ("behaves like a freshly built tree").
fn check_fresh(m: &Model, step: usize, ctx: &mut RunCtx) -> bool {
    let mut fresh = in_memory::MerkleTree::new();
    for d in &m.leaves {
        fresh.push(d);
    }
    if fresh.root() != rfc::mth_hashed(&m.hashes) {
        return ctx.violate(
            "bmt-fresh",
            "bmt-fresh:root",
            format!("step {step}: a freshly built tree over {} leaves disagrees with MTH", m.leaves.len()),
        );
    }
    false
}

fn reload(store: &Store, k: u64) -> Result<Tree, MerkleTreeError<SimIoError>> {
    Tree::load(store.clone(), k)
}

impl Engine for Bmt {
    type Scenario = Scenario;

    fn generate(_prop: &str, rng: &mut Rng, tier: Tier) -> Scenario {
        let mut g = rng.fork("gen");
        let mut f = rng.fork("fault");
        let faulty = g.below(3) != 0; // a third of all runs is fault-free
        let big = g.chance(1, if tier == Tier::Thorough { 8 } else { 16 });
        let nops = g.range(3, 32) as usize;
        let mut ops = Vec::new();
        let mut tag = g.next_u32() & 0xffff;
        let mut next_tag = || {
            tag = tag.wrapping_add(1);
            tag
        };
        // swarm: per-run weights
        let w_reset = *g.pick(&[0u32, 1, 3, 6]);
        let w_load = *g.pick(&[0u32, 2, 5]);
        let w_commit = *g.pick(&[1u32, 3, 6]);
        let w_prove = *g.pick(&[1u32, 4]);
        let w_fault = if faulty { *f.pick(&[1u32, 3, 6]) } else { 0 };
        if big {
            let k = g.range(3, 12);
            let base = 1u64 << k;
            let n = match g.below(3) {
                0 => base - 1,
                1 => base,
                _ => base + 1,
            };
            ops.push(Op::PushMany { n: n as u32, tag: next_tag() });
        }
        let lens = [0u16, 1, 32, 100, 7, 64];
        for _ in 0..nops {
            let w = [12, w_reset, w_load, w_commit, w_prove, 3, w_fault, 1];
            match g.weighted(&w) {
                0 => {
                    if g.chance(1, 6) {
                        ops.push(Op::PushMany { n: g.range(2, 20) as u32, tag: next_tag() });
                    } else {
                        ops.push(Op::Push { tag: next_tag(), len: *g.pick(&lens) });
                    }
                }
                1 => ops.push(Op::Reset),
                2 => {
                    let back = if g.chance(1, 2) { 0 } else { g.range(1, 9) as u32 };
                    ops.push(Op::Load { back });
                }
                3 => ops.push(Op::Commit),
                4 => {
                    let index = match g.below(4) {
                        0 => g.below(8),
                        1 => g.below(80),
                        2 => g.below(5000),
                        _ => g.word_biased(),
                    };
                    ops.push(Op::Prove { index });
                }
                5 => ops.push(Op::Root),
                6 => match f.below(6) {
                    0 | 1 => ops.push(Op::CrashInPush {
                        tag: next_tag(),
                        at: f.below(6) as u8,
                        survive: if f.bool() { 0 } else { f.next_u64() },
                    }),
                    2 => ops.push(Op::Crash { survive: if f.bool() { 0 } else { f.next_u64() } }),
                    3 => ops.push(Op::FailPush { tag: next_tag(), at: f.below(5) as u8 }),
                    4 => ops.push(Op::FailProve { index: f.below(40), at: f.below(6) as u8 }),
                    _ => ops.push(Op::FailLoad { at: f.below(4) as u8 }),
                },
                _ => ops.push(Op::LoadBeyond { extra: g.range(1, 9) as u32 }),
            }
        }
        let check_mask = if g.bool() { u64::MAX } else { g.next_u64() & g.next_u64() };
        Scenario { ops, dense_checks: !big, check_mask }
    }

    fn run(_prop: &str, sc: &Scenario, ctx: &mut RunCtx) {
        let store = Store::new();
        let mut sys = Sys {
            tree: Tree::new(store.clone()),
            store,
            mem: in_memory::MerkleTree::new(),
            calc: MerkleRootCalculator::new(),
            mem_in_sync: true,
        };
        let mut m = Model { leaves: vec![], hashes: vec![], committed: vec![], window_clean: true, store_clean: true };
        let (mut saw_reset_or_reload, mut pushes_after, mut proofs_after) = (false, 0u32, 0u32);

        macro_rules! do_push {
            ($d:expr) => {{
                let d: Vec<u8> = $d;
                match sys.tree.push(&d) {
                    Ok(()) => {}
                    Err(e) => {
                        ctx.violate("bmt-push", "bmt-push:error-without-fault", format!("push failed without an injected fault: {e}"));
                        return;
                    }
                }
                if sys.mem_in_sync {
                    sys.mem.push(&d);
                    sys.calc.push(&d);
                }
                m.push(d);
                ctx.stats.inc("time.tree_ops");
                if saw_reset_or_reload {
                    pushes_after += 1;
                }
            }};
        }

        // After a crash/IO error: discard the tree object, reload at `k` on the repaired store.
        macro_rules! restart_at {
            ($k:expr, $why:expr) => {{
                let k = $k as u64;
                match reload(&sys.store, k) {
                    Ok(t) => {
                        sys.tree = t;
                        sys.mem_in_sync = false;
                        saw_reset_or_reload = true;
                        ctx.stats.inc("probe.bmt_reload");
                    }
                    Err(e) => {
                        ctx.violate("bmt-load", &format!("bmt-load:{}", $why), format!("reload at recorded leaf count {k} failed ({}): {e}", $why));
                        return;
                    }
                }
            }};
        }

        for (step, op) in sc.ops.iter().enumerate() {
            ctx.event("op", step as u64, m.leaves.len() as u64);
            match op {
                Op::Push { tag, len } => do_push!(leaf_data(*tag, *len)),
                Op::PushMany { n, tag } => {
                    for j in 0..*n {
                        do_push!(leaf_data(tag.wrapping_mul(7919).wrapping_add(j), 8));
                    }
                }
                Op::Root => {
                    // an explicit observation of the root (and nothing else)
                    let got = sys.tree.root();
                    if got != rfc::mth_hashed(&m.hashes) {
                        ctx.violate("bmt-root", "bmt-root:storage-tree", format!("step {step}: root() differs from RFC 6962 MTH over {} model leaves", m.leaves.len()));
                        return;
                    }
                    if sys.mem_in_sync && sys.mem.root() != got {
                        ctx.violate("bmt-root", "bmt-root:in-memory-tree", format!("step {step}: in-memory root() differs from the storage-backed tree's"));
                        return;
                    }
                }
                Op::Prove { index } => {
                    let n = m.leaves.len() as u64;
                    let r = sys.tree.prove(*index);
                    if *index < n {
                        if saw_reset_or_reload {
                            proofs_after += 1;
                        }
                        // judged by check_all's sampled sweep as well; here exactly this index
                        let want = rfc::path_hashed(*index as usize, &m.hashes);
                        match r {
                            Ok((_, set)) if set == want => {}
                            Ok((_, set)) => {
                                ctx.violate("bmt-proof", "bmt-proof:storage-tree", format!("step {step}: prove({index}) of {n} leaves returned {} elements, reference PATH has {}", set.len(), want.len()));
                                return;
                            }
                            Err(e) => {
                                ctx.violate("bmt-proof", "bmt-proof:refused-in-range", format!("step {step}: prove({index}) with {n} leaves failed: {e}"));
                                return;
                            }
                        }
                    } else if !matches!(r, Err(MerkleTreeError::InvalidProofIndex(_))) {
                        ctx.violate("bmt-proof-refusal", "bmt-proof-refusal:storage-tree", format!("step {step}: prove({index}) with {n} leaves returned {:?}", r.map(|(_, s)| s.len())));
                        return;
                    }
                }
                Op::Reset => {
                    sys.tree.reset();
                    sys.mem.reset();
                    sys.calc.clear();
                    sys.mem_in_sync = true;
                    m.set(vec![]);
                    m.window_clean = false;
                    m.store_clean = false;
                    saw_reset_or_reload = true;
                    pushes_after = 0;
                    proofs_after = 0;
                    ctx.stats.inc("probe.bmt_reset");
                }
                Op::Commit => {
                    sys.store.commit();
                    m.committed = m.leaves.clone();
                    m.window_clean = true;
                    ctx.stats.inc("time.commits");
                }
                Op::Load { back } => {
                    let k = m.leaves.len().saturating_sub(*back as usize);
                    if k < m.leaves.len() {
                        // continuing from an earlier count forks the history
                        m.window_clean = false;
                        m.store_clean = false;
                        ctx.stats.inc("probe.bmt_fork_load");
                    }
                    m.truncate(k);
                    restart_at!(k, "recorded-count");
                    pushes_after = 0;
                    proofs_after = 0;
                }
                Op::LoadBeyond { extra } => {
                    if m.store_clean {
                        let k = m.leaves.len() as u64 + *extra as u64;
                        match reload(&sys.store, k) {
                            Err(MerkleTreeError::LoadError(_)) => ctx.stats.inc("probe.bmt_load_error"),
                            Err(e) => {
                                ctx.violate("bmt-load", "bmt-load:beyond-error-kind", format!("step {step}: load at {k} (> {} pushed) failed with {e} instead of LoadError", m.leaves.len()));
                                return;
                            }
                            Ok(_) => {
                                ctx.violate("bmt-load", "bmt-load:beyond-accepted", format!("step {step}: load at {k} succeeded although only {} leaves were ever stored", m.leaves.len()));
                                return;
                            }
                        }
                    }
                }
                Op::CrashInPush { tag, at, survive } => {
                    let d = leaf_data(*tag, 16);
                    sys.store.crash_after(*at as u64);
                    let r = sys.tree.push(&d);
                    let fired = sys.store.is_crashed();
                    if fired {
                        ctx.stats.inc("fault.crash_in_push");
                        if r.is_ok() {
                            ctx.violate("bmt-push", "bmt-push:ok-despite-store-error", format!("step {step}: push returned Ok although a store call failed"));
                            return;
                        }
                    } else {
                        ctx.stats.inc("fault.crash_after_push");
                    }
                    // power loss: tree object gone, buffer lost or partially persisted
                    let surv = if m.window_clean { *survive } else { 0 };
                    let kept = sys.store.crash(surv);
                    if kept > 0 {
                        ctx.stats.inc("fault.dirty_survive");
                    }
                    let committed = m.committed.clone();
                    m.set(committed);
                    if kept > 0 {
                        m.store_clean = false;
                    }
                    restart_at!(m.leaves.len(), "after-crash");
                    m.window_clean = kept == 0 && m.window_clean;
                    pushes_after = 0;
                    proofs_after = 0;
                }
                Op::Crash { survive } => {
                    ctx.stats.inc("fault.crash_idle");
                    let surv = if m.window_clean { *survive } else { 0 };
                    let kept = sys.store.crash(surv);
                    if kept > 0 {
                        ctx.stats.inc("fault.dirty_survive");
                        m.store_clean = false;
                    }
                    let committed = m.committed.clone();
                    m.set(committed);
                    restart_at!(m.leaves.len(), "after-crash");
                    m.window_clean = kept == 0 && m.window_clean;
                    pushes_after = 0;
                    proofs_after = 0;
                }
                Op::FailPush { tag, at } => {
                    let d = leaf_data(*tag, 24);
                    let keep = sys.store.buffer_len();
                    let before = sys.store.errors_fired();
                    sys.store.fail_after(*at as u64);
                    let r = sys.tree.push(&d);
                    let fired = sys.store.errors_fired() > before;
                    sys.store.clear_faults();
                    if fired {
                        ctx.stats.inc("fault.io_error_write");
                        match r {
                            Err(MerkleTreeError::StorageError(_)) => {}
                            other => {
                                ctx.violate("bmt-push", "bmt-push:error-not-surfaced", format!("step {step}: a failing store insert during push surfaced as {other:?}"));
                                return;
                            }
                        }
                        // discard tree, roll the store back to the pre-operation view, reload, retry
                        sys.store.rollback_to(keep);
                        restart_at!(m.leaves.len(), "after-io-error");
                        match sys.tree.push(&d) {
                            Ok(()) => {}
                            Err(e) => {
                                ctx.violate("bmt-push", "bmt-push:retry-failed", format!("step {step}: retry after rollback failed: {e}"));
                                return;
                            }
                        }
                        m.push(d);
                    } else {
                        if r.is_err() {
                            ctx.violate("bmt-push", "bmt-push:error-without-fault", format!("step {step}: push failed although no fault fired"));
                            return;
                        }
                        if sys.mem_in_sync {
                            sys.mem.push(&d);
                            sys.calc.push(&d);
                        }
                        m.push(d);
                    }
                    if saw_reset_or_reload {
                        pushes_after += 1;
                    }
                }
                Op::FailProve { index, at } => {
                    let n = m.leaves.len() as u64;
                    if n > 0 {
                        let i = *index % n;
                        let before = sys.store.errors_fired();
                        sys.store.fail_after(*at as u64);
                        let r = sys.tree.prove(i);
                        let fired = sys.store.errors_fired() > before;
                        sys.store.clear_faults();
                        if fired {
                            ctx.stats.inc("fault.io_error_read");
                            if !matches!(r, Err(MerkleTreeError::StorageError(_))) {
                                ctx.violate("bmt-proof", "bmt-proof:read-error-not-surfaced", format!("step {step}: a failing store read during prove({i}) surfaced as {:?}", r.map(|(_, s)| s.len())));
                                return;
                            }
                        }
                    }
                }
                Op::FailLoad { at } => {
                    let k = m.leaves.len() as u64;
                    let before = sys.store.errors_fired();
                    sys.store.fail_after(*at as u64);
                    let r = reload(&sys.store, k);
                    let fired = sys.store.errors_fired() > before;
                    sys.store.clear_faults();
                    if fired {
                        ctx.stats.inc("fault.io_error_load");
                        if !matches!(r, Err(MerkleTreeError::StorageError(_))) {
                            ctx.violate("bmt-load", "bmt-load:read-error-not-surfaced", format!("step {step}: a failing store read during load({k}) was not surfaced"));
                            return;
                        }
                        // liveness: once the fault is gone the reload succeeds
                        restart_at!(k, "retry-after-io-error");
                    } else if let Ok(t) = r {
                        sys.tree = t;
                        sys.mem_in_sync = false;
                        saw_reset_or_reload = true;
                    } else {
                        ctx.violate("bmt-load", "bmt-load:recorded-count", format!("step {step}: reload at {k} failed without a fault"));
                        return;
                    }
                }
            }
            let observe = (sc.check_mask >> (step % 64)) & 1 == 1 || step + 1 == sc.ops.len();
            if observe && check_all(&sys, &m, sc.dense_checks, step, ctx) {
                return;
            }
            if step % 8 == 7 && m.leaves.len() <= 256 && check_fresh(&m, step, ctx) {
                return;
            }
            if saw_reset_or_reload && pushes_after >= 1 && (proofs_after >= 1 || !m.leaves.is_empty()) {
                ctx.nontrivial = true;
            }
        }
        ctx.stats.add("time.leaves_final", m.leaves.len() as u64);
    }

    fn shrink(_prop: &str, sc: &Scenario) -> Vec<Scenario> {
        let mut out = Vec::new();
        let n = sc.ops.len();
        // drop halves, then single ops
        if n > 1 {
            out.push(Scenario { ops: sc.ops[..n / 2].to_vec(), dense_checks: sc.dense_checks, check_mask: sc.check_mask });
            out.push(Scenario { ops: sc.ops[n / 2..].to_vec(), dense_checks: sc.dense_checks, check_mask: sc.check_mask });
        }
        for i in (0..n).rev() {
            let mut ops = sc.ops.clone();
            ops.remove(i);
            out.push(Scenario { ops, dense_checks: sc.dense_checks, check_mask: sc.check_mask });
        }
        // simplify ops
        for i in 0..n {
            let simpler = match &sc.ops[i] {
                Op::PushMany { n, tag } if *n > 1 => Some(Op::PushMany { n: n / 2, tag: *tag }),
                Op::PushMany { tag, .. } => Some(Op::Push { tag: *tag, len: 8 }),
                Op::Push { tag, len } if *len != 1 => Some(Op::Push { tag: *tag, len: 1 }),
                Op::CrashInPush { tag, at, survive } if *survive != 0 => Some(Op::CrashInPush { tag: *tag, at: *at, survive: 0 }),
                Op::CrashInPush { tag, .. } => Some(Op::Push { tag: *tag, len: 16 }),
                Op::Crash { survive } if *survive != 0 => Some(Op::Crash { survive: 0 }),
                Op::FailPush { tag, .. } => Some(Op::Push { tag: *tag, len: 24 }),
                Op::Prove { index } if *index > 0 => Some(Op::Prove { index: index / 2 }),
                Op::Load { back } if *back > 0 => Some(Op::Load { back: 0 }),
                _ => None,
            };
            if let Some(s) = simpler {
                let mut ops = sc.ops.clone();
                ops[i] = s;
                out.push(Scenario { ops, dense_checks: sc.dense_checks, check_mask: sc.check_mask });
            }
        }
        out
    }
}
