//! Predicate grammar. Every production comes with the truth value the generator *knows*
//! from the construction (not from running the program): `truth == true` means the program
//! returns 1 on its own input, needs far less gas than any `max_gas_per_predicate` the
//! generator draws (straight-line code ≤ 64 instructions, loops ≤ 300 iterations,
//! allocations ≤ 256 KiB), reads no block height and depends on nothing but the
//! transaction, the blob store content listed in the scenario and the ECAL handler flag.

use crate::kernel::Rng;
use fuel_asm::{GMArgs, GTFArgs, Instruction, RegId, op};
use fuel_tx::BlobIdExt;

#[derive(Debug, Clone, Copy, PartialEq, Eq)]
pub enum InKind {
    Coin,
    MsgCoin,
    MsgData,
}

pub struct Built {
    pub rule: &'static str,
    pub code: Vec<u8>,
    pub data: Vec<u8>,
    pub truth: bool,
    /// Program touches the blob store (BSIZ/BLDD).
    pub reads_blob: bool,
    /// Blob (id, content) that must be present in the store for the stated truth.
    pub blob: Option<([u8; 32], Vec<u8>)>,
    /// Leaves a large dirty heap behind.
    pub heavy: bool,
}

pub const RULES: &[&str] = &[
    "const_true", "data_eq", "data_meq", "false", "panic", "loop_n", "loop_forever", "heap_hungry", "heap_probe",
    "stack_probe", "blob_read", "forbidden", "ecal", "own_index",
];

fn asm(v: Vec<Instruction>) -> Vec<u8> {
    v.into_iter().collect()
}

fn pad(rng: &mut Rng, v: &mut Vec<Instruction>) {
    // different lengths -> different gas
    for _ in 0..rng.below(7) {
        match rng.below(3) {
            0 => v.push(op::noop()),
            1 => v.push(op::addi(0x1f, 0x1f, 1)),
            _ => v.push(op::xor(0x1e, 0x1e, 0x1f)),
        }
    }
}

fn data_ptr(kind: InKind) -> GTFArgs {
    match kind {
        InKind::Coin => GTFArgs::InputCoinPredicateData,
        _ => GTFArgs::InputMessagePredicateData,
    }
}

fn wrong_data_ptr(kind: InKind) -> GTFArgs {
    match kind {
        InKind::Coin => GTFArgs::InputMessagePredicateData,
        _ => GTFArgs::InputCoinPredicateData,
    }
}

/// `want`: None = whatever the rule yields; Some(t) = a program of that truth value.
pub fn build(rule: &str, kind: InKind, input_index: usize, ecal_enabled: bool, want: Option<bool>, rng: &mut Rng) -> Built {
    let mut v: Vec<Instruction> = Vec::new();
    let mut b = Built { rule: "const_true", code: vec![], data: vec![], truth: true, reads_blob: false, blob: None, heavy: false };
    let want_true = want.unwrap_or_else(|| rng.chance(3, 4));
    match rule {
        "data_eq" => {
            b.rule = "data_eq";
            let k = rng.below(1 << 18) as u32;
            pad(rng, &mut v);
            v.extend([
                op::gm_args(0x10, GMArgs::GetVerifyingPredicate),
                op::gtf_args(0x11, 0x10, data_ptr(kind)),
                op::lw(0x12, 0x11, 0),
                op::movi(0x13, k),
                op::eq(0x14, 0x12, 0x13),
                op::ret(0x14),
            ]);
            let word = if want_true { k as u64 } else { (k as u64) ^ (1 << rng.below(20)) };
            b.data = word.to_be_bytes().to_vec();
            b.data.extend({ let n_ = rng.usize_below(9); rng.bytes(n_ as usize) });
            b.truth = want_true;
        }
        "data_meq" => {
            b.rule = "data_meq";
            let l = rng.range(1, 48) as u32;
            pad(rng, &mut v);
            v.extend([
                op::gm_args(0x10, GMArgs::GetVerifyingPredicate),
                op::gtf_args(0x11, 0x10, data_ptr(kind)),
                op::movi(0x12, l),
                op::add(0x13, 0x11, 0x12),
                op::meq(0x14, 0x11, 0x13, 0x12),
                op::ret(0x14),
            ]);
            let half = rng.bytes(l as usize);
            let mut other = half.clone();
            if !want_true {
                let p = rng.usize_below(other.len());
                other[p] ^= 1 << rng.below(8);
            }
            b.data = half;
            b.data.extend(other);
            b.truth = want_true;
        }
        "false" => {
            b.rule = "false";
            pad(rng, &mut v);
            match rng.below(4) {
                0 => v.push(op::ret(RegId::ZERO)),
                1 => {
                    v.push(op::movi(0x10, 2 + rng.below(100) as u32));
                    v.push(op::ret(0x10));
                }
                2 => v.push(op::rvrt(RegId::ONE)),
                _ => {
                    v.push(op::eq(0x10, RegId::ONE, RegId::ZERO));
                    v.push(op::ret(0x10));
                }
            }
            b.truth = false;
            if rng.bool() {
                b.data = { let n_ = rng.usize_below(24); rng.bytes(n_ as usize) };
            }
        }
        "panic" => {
            b.rule = "panic";
            pad(rng, &mut v);
            match rng.below(6) {
                0 => {
                    v.push(op::not(0x10, RegId::ZERO));
                    v.push(op::lw(0x11, 0x10, 0));
                }
                1 => v.push(op::retd(RegId::ZERO, RegId::ONE)),
                2 => v.push(op::movi(RegId::ZERO, 1)),
                3 => {
                    v.push(op::gm_args(0x10, GMArgs::GetVerifyingPredicate));
                    v.push(op::gtf_args(0x11, 0x10, wrong_data_ptr(kind)));
                }
                4 => v.push(op::ji(0xff_ffff)),
                _ => {
                    // write into memory the predicate does not own (the transaction image)
                    v.push(op::sw(RegId::ZERO, RegId::ONE, 0));
                }
            }
            v.push(op::ret(RegId::ONE));
            b.truth = false;
        }
        "loop_n" => {
            b.rule = "loop_n";
            let n = rng.range(1, 300) as u32;
            pad(rng, &mut v);
            v.extend([op::movi(0x10, n), op::subi(0x10, 0x10, 1), op::jnzb(0x10, RegId::ZERO, 0)]);
            if want_true {
                v.push(op::ret(RegId::ONE));
            } else {
                v.push(op::ret(0x10)); // counter is 0 here
            }
            b.truth = want_true;
        }
        "loop_forever" => {
            b.rule = "loop_forever";
            pad(rng, &mut v);
            if rng.bool() {
                v.extend([op::noop(), op::jmpb(RegId::ZERO, 0)]);
            } else {
                // 262 143 iterations of ≥ 2 gas units: beyond every drawn per-predicate limit (≤ 30 000)
                v.extend([op::movi(0x10, 0x3_ffff), op::subi(0x10, 0x10, 1), op::jnzb(0x10, RegId::ZERO, 0)]);
            }
            v.push(op::ret(RegId::ONE));
            b.truth = false;
        }
        "heap_hungry" => {
            b.rule = "heap_hungry";
            let kib = *rng.pick(&[1u32, 4, 16, 64, 128, 255]);
            pad(rng, &mut v);
            v.extend([
                op::movi(0x10, kib * 1024),
                op::aloc(0x10),
                op::not(0x12, RegId::ZERO),
                op::sw(RegId::HP, 0x12, 0),
                op::add(0x11, RegId::HP, 0x10),
                op::subi(0x11, 0x11, 8),
                op::sw(0x11, 0x12, 0),
                op::cfei(1024 * (1 + rng.below(8) as u32)),
                op::sw(RegId::SSP, 0x12, 0),
                op::ret(RegId::ONE),
            ]);
            b.heavy = true;
            b.truth = true;
        }
        "heap_probe" => {
            // Freshly allocated heap must read as zero, wherever the instance came from.
            b.rule = "heap_probe";
            let words = rng.range(1, 32) as u32;
            pad(rng, &mut v);
            v.extend([
                op::move_(0x10, RegId::HP),
                op::movi(0x11, words * 8),
                op::aloc(0x11),
                op::sub(0x10, 0x10, 0x11),
                op::lw(0x12, 0x10, 0),
                op::lw(0x13, 0x10, (words - 1) as u16),
                op::or(0x12, 0x12, 0x13),
                op::lw(0x13, RegId::HP, (words / 2) as u16),
                op::or(0x12, 0x12, 0x13),
                op::eq(0x14, 0x12, RegId::ZERO),
                op::ret(0x14),
            ]);
            b.truth = true;
        }
        "stack_probe" => {
            // A first stack extension must read as zero.
            b.rule = "stack_probe";
            let words = rng.range(1, 64) as u32;
            pad(rng, &mut v);
            v.extend([
                op::move_(0x10, RegId::SP),
                op::cfei(words * 8),
                op::lw(0x12, 0x10, 0),
                op::lw(0x13, 0x10, (words - 1) as u16),
                op::or(0x12, 0x12, 0x13),
                op::eq(0x14, 0x12, RegId::ZERO),
                op::ret(0x14),
            ]);
            b.truth = true;
        }
        "blob_read" => {
            b.rule = "blob_read";
            b.reads_blob = true;
            let len = rng.range(8, 96) as usize;
            let content = rng.bytes(len);
            let id = *fuel_types::BlobId::compute(&content);
            let off = rng.below((len - 8 + 1) as u64) as u32 & !7; // word aligned offset inside the blob
            let mut expect = [0u8; 8];
            expect.copy_from_slice(&content[off as usize..off as usize + 8]);
            pad(rng, &mut v);
            v.extend([
                op::gm_args(0x10, GMArgs::GetVerifyingPredicate),
                op::gtf_args(0x11, 0x10, data_ptr(kind)), // -> blob id (32 bytes) ++ expected word
                op::bsiz(0x12, 0x11),
                op::movi(0x13, len as u32),
                op::eq(0x14, 0x12, 0x13),
                op::movi(0x15, 8),
                op::aloc(0x15),
                op::movi(0x16, off),
                op::bldd(RegId::HP, 0x11, 0x16, 0x15),
                op::lw(0x17, RegId::HP, 0),
                op::lw(0x18, 0x11, 4),
                op::eq(0x19, 0x17, 0x18),
                op::and(0x14, 0x14, 0x19),
                op::ret(0x14),
            ]);
            b.data = id.to_vec();
            match if want_true { 0 } else { 1 + rng.below(2) } {
                0 => {
                    b.data.extend(expect);
                    b.blob = Some((id, content));
                    b.truth = true;
                }
                1 => {
                    expect[rng.usize_below(8)] ^= 0x40;
                    b.data.extend(expect);
                    b.blob = Some((id, content));
                    b.truth = false;
                }
                _ => {
                    // blob absent from the store: BSIZ panics with BlobNotFound
                    b.data.extend(expect);
                    b.blob = None;
                    b.truth = false;
                }
            }
        }
        "forbidden" => {
            b.rule = "forbidden";
            pad(rng, &mut v);
            let z = RegId::ZERO;
            let i = match rng.below(12) {
                0 => op::log(z, z, z, z),
                1 => op::bal(0x10, z, z),
                2 => op::bhei(0x10),
                3 => op::bhsh(z, z),
                4 => op::time(0x10, z),
                5 => op::sww(z, 0x10, z),
                6 => op::srw(0x10, 0x11, z, 0),
                7 => op::tr(z, z, z),
                8 => op::call(z, z, z, z),
                9 => op::mint(z, z),
                10 => op::cb(z),
                _ => op::smo(z, z, z, z),
            };
            v.push(i);
            v.push(op::ret(RegId::ONE));
            b.truth = false;
        }
        "ecal" => {
            b.rule = "ecal";
            let a = rng.below(1000) as u32;
            let c = rng.below(1000) as u32;
            pad(rng, &mut v);
            v.extend([
                op::movi(0x10, a),
                op::movi(0x11, c),
                op::ecal(0x10, 0x11, RegId::ZERO, RegId::ZERO),
                op::movi(0x12, a + c + 1),
                op::eq(0x13, 0x10, 0x12),
                op::ret(0x13),
            ]);
            b.truth = ecal_enabled;
        }
        "own_index" => {
            b.rule = "own_index";
            let claimed = if want_true { input_index as u32 } else { input_index as u32 + 1 + rng.below(3) as u32 };
            pad(rng, &mut v);
            v.extend([
                op::gm_args(0x10, GMArgs::GetVerifyingPredicate),
                op::movi(0x11, claimed),
                op::eq(0x12, 0x10, 0x11),
                op::ret(0x12),
            ]);
            b.truth = want_true;
        }
        _ => {
            b.rule = "const_true";
            pad(rng, &mut v);
            v.push(op::ret(RegId::ONE));
            b.truth = true;
            if rng.chance(1, 3) {
                b.data = { let n_ = rng.usize_below(16); rng.bytes(n_ as usize) };
            }
        }
    }
    b.code = asm(v);
    if b.rule == "panic" && rng.chance(1, 8) {
        b.code = vec![0xff, 0xff, 0xff, 0xff]; // not an instruction
    }
    b
}

/// Program that leaves a heap of `kib` KiB written at both ends and a deep written stack.
pub fn dirtier_program(kib: u16) -> Vec<u8> {
    let kib = (kib.max(1) as u32).min(255);
    asm(vec![
        op::movi(0x10, kib * 1024),
        op::aloc(0x10),
        op::not(0x12, RegId::ZERO),
        op::sw(RegId::HP, 0x12, 0),
        op::sw(RegId::HP, 0x12, 1),
        op::add(0x11, RegId::HP, 0x10),
        op::subi(0x11, 0x11, 64),
        op::sw(0x11, 0x12, 0),
        op::sw(0x11, 0x12, 3),
        op::sw(0x11, 0x12, 7),
        op::move_(0x13, RegId::SP),
        op::cfei(4096),
        op::sw(0x13, 0x12, 0),
        op::sw(0x13, 0x12, 100),
        op::sw(0x13, 0x12, 511),
        op::ret(RegId::ONE),
    ])
}
