//! What the simulator puts behind the seams of predicate checking (DESIGN §1.2):
//! `SimExecutor: ParallelExecutor`, `SimPool: VmMemoryPool`, `SimBlobs:
//! PredicateStorageProvider`, `SimEcal: EcalHandler`, and a no-op-waker `block_on`.
//!
//! `ParallelExecutor` has only associated functions (no `self`), so the schedule of the
//! current call lives in a thread-local; a simulated run is single-threaded. Everything a
//! seam decides is taken from the scenario (explicit data) and everything it observes is
//! logged and turned into events by the engine after the call returns.

use fuel_asm::{PanicReason, RegId, Word};
use fuel_storage::{Mappable, StorageInspect, StorageRead, StorageReadError, StorageSize};
use fuel_types::BlobId;
use fuel_vm::checked_transaction::ParallelExecutor;
use fuel_vm::error::{PredicateVerificationFailed, SimpleResult};
use fuel_vm::interpreter::{EcalHandler, Interpreter, Memory, MemoryInstance};
use fuel_vm::pool::VmMemoryPool;
use fuel_vm::storage::BlobData;
use fuel_vm::storage::predicate::{PredicateStorageProvider, PredicateStorageRequirements};
use serde::{Deserialize, Serialize};
use std::borrow::Cow;
use std::cell::RefCell;
use std::collections::BTreeMap;
use std::future::Future;
use std::pin::Pin;
use std::sync::atomic::{AtomicU64, Ordering};
use std::sync::{Arc, Mutex};
use std::task::{Context, Poll, RawWaker, RawWakerVTable, Waker};

// ------------------------------------------------------------------------------------
// block_on

fn noop_raw_waker() -> RawWaker {
    fn clone(_: *const ()) -> RawWaker {
        noop_raw_waker()
    }
    fn noop(_: *const ()) {}
    static VTABLE: RawWakerVTable = RawWakerVTable::new(clone, noop, noop, noop);
    RawWaker::new(std::ptr::null(), &VTABLE)
}

/// Single-threaded executor with a no-op waker: polls until ready. Returns the output and
/// the number of `Pending` results seen. `None` when the future is still pending after
/// `cap` polls (a lost wake-up would look like that; reported by the engine).
pub fn block_on<F: Future>(fut: F, cap: u32) -> Option<(F::Output, u32)> {
    let waker = unsafe { Waker::from_raw(noop_raw_waker()) };
    let mut cx = Context::from_waker(&waker);
    let mut fut = std::pin::pin!(fut);
    let mut pendings = 0u32;
    loop {
        match fut.as_mut().poll(&mut cx) {
            Poll::Ready(v) => return Some((v, pendings)),
            Poll::Pending => {
                pendings += 1;
                if pendings > cap {
                    return None;
                }
            }
        }
    }
}

/// Future that is `Pending` n times before it completes.
pub struct YieldN(pub u8);
impl Future for YieldN {
    type Output = ();
    fn poll(mut self: Pin<&mut Self>, cx: &mut Context<'_>) -> Poll<()> {
        if self.0 == 0 {
            Poll::Ready(())
        } else {
            self.0 -= 1;
            cx.waker().wake_by_ref();
            Poll::Pending
        }
    }
}

// ------------------------------------------------------------------------------------
// Schedule plan (part of the scenario)

/// One memory hand-out of the pool.
#[derive(Debug, Clone, Serialize, Deserialize, PartialEq)]
pub enum Handout {
    /// `MemoryInstance::new()`.
    Fresh,
    /// An instance whose stack buffer holds `len` bytes of `fill` (never reset).
    DirtyStack { len: u32, fill: u8 },
    /// An instance that a heap-hungry program (ALOC `kib` KiB, written at both ends, deep
    /// stack) has just used; `reset` = the pool called `reset()` before handing it out.
    PreDirtied { kib: u16, reset: bool },
    /// The `back`-th most recently returned instance of this run (whatever predicate used
    /// it last, as it left it); falls back to `PreDirtied` when nothing was returned yet.
    Reuse { back: u8, reset: bool },
}

#[derive(Debug, Clone, Serialize, Deserialize, PartialEq, Default)]
pub struct Schedule {
    /// Task start order: tasks are started in ascending key order (ties: creation order).
    pub start_keys: Vec<u32>,
    /// Result delivery order, same encoding.
    pub result_keys: Vec<u32>,
    /// Per `get_new` call (cyclic): which instance.
    pub handouts: Vec<Handout>,
    /// Per `get_new` call (cyclic): number of `Pending` polls before the instance arrives.
    pub pendings: Vec<u8>,
    /// `Pending` polls inside `execute_tasks` before the results are delivered.
    pub exec_pendings: u8,
}

pub fn order_by_keys(n: usize, keys: &[u32]) -> Vec<usize> {
    let mut idx: Vec<usize> = (0..n).collect();
    idx.sort_by_key(|i| (keys.get(*i).copied().unwrap_or(u32::MAX / 2), *i));
    idx
}

// ------------------------------------------------------------------------------------
// Thread-local state of the seams for the call in progress

#[derive(Default)]
pub struct SeamLog {
    /// creation index of the tasks in the order they were started
    pub start_order: Vec<usize>,
    /// input index of the results in the order they were delivered
    pub result_order: Vec<usize>,
    /// input index of the results in task creation order
    pub creation_inputs: Vec<usize>,
    pub handouts: u32,
    pub dirty_handouts: u32,
    pub reused_handouts: u32,
    pub pool_pendings: u32,
    pub tasks: u32,
}

#[derive(Default)]
struct SeamState {
    sched: Schedule,
    next_handout: usize,
    returned: Vec<MemoryInstance>,
    log: SeamLog,
}

thread_local! {
    static SEAMS: RefCell<SeamState> = RefCell::new(SeamState::default());
}

/// Install the schedule for the next async call and clear the log. Returned instances of
/// earlier calls of this run stay in the pool.
pub fn install(sched: &Schedule) {
    SEAMS.with(|s| {
        let mut s = s.borrow_mut();
        s.sched = sched.clone();
        s.next_handout = 0;
        s.log = SeamLog::default();
    })
}

pub fn take_log() -> SeamLog {
    SEAMS.with(|s| std::mem::take(&mut s.borrow_mut().log))
}

/// Forget everything (start of a run).
pub fn reset_all() {
    SEAMS.with(|s| *s.borrow_mut() = SeamState::default())
}

// ------------------------------------------------------------------------------------
// SimExecutor

pub type TaskResult = (usize, Result<Word, PredicateVerificationFailed>);

pub struct SimTask(Option<Box<dyn FnOnce() -> TaskResult + Send + 'static>>);

impl Future for SimTask {
    type Output = TaskResult;
    fn poll(mut self: Pin<&mut Self>, _cx: &mut Context<'_>) -> Poll<TaskResult> {
        match self.0.take() {
            Some(f) => Poll::Ready(f()),
            None => Poll::Pending,
        }
    }
}

pub struct SimExecutor;

impl ParallelExecutor for SimExecutor {
    type Task = SimTask;

    fn create_task<F>(func: F) -> SimTask
    where
        F: FnOnce() -> TaskResult + Send + 'static,
    {
        SimTask(Some(Box::new(func)))
    }

    // Hand-desugared `#[async_trait]` signature (keeps the dependency set unchanged).
    fn execute_tasks<'async_trait>(
        futures: Vec<SimTask>,
    ) -> Pin<Box<dyn Future<Output = Vec<TaskResult>> + Send + 'async_trait>> {
        Box::pin(async move {
            let n = futures.len();
            let (start, exec_pendings) = SEAMS.with(|s| {
                let s = s.borrow();
                (order_by_keys(n, &s.sched.start_keys), s.sched.exec_pendings)
            });
            let mut tasks: Vec<Option<SimTask>> = futures.into_iter().map(Some).collect();
            let mut results: Vec<Option<TaskResult>> = (0..n).map(|_| None).collect();
            for &i in &start {
                if let Some(f) = tasks[i].take().and_then(|mut t| t.0.take()) {
                    // The closure owns its memory instance; dropping it after the call
                    // returns the instance to the pool before the next task starts.
                    results[i] = Some(f());
                }
            }
            YieldN(exec_pendings).await;
            let order = SEAMS.with(|s| order_by_keys(n, &s.borrow().sched.result_keys));
            let creation_inputs: Vec<usize> =
                results.iter().map(|r| r.as_ref().map(|r| r.0).unwrap_or(usize::MAX)).collect();
            let mut out = Vec::with_capacity(n);
            for &i in &order {
                if let Some(r) = results[i].take() {
                    out.push(r);
                }
            }
            SEAMS.with(|s| {
                let mut s = s.borrow_mut();
                s.log.tasks += n as u32;
                s.log.start_order = start;
                s.log.result_order = out.iter().map(|r| r.0).collect();
                s.log.creation_inputs = creation_inputs;
            });
            out
        })
    }
}

// ------------------------------------------------------------------------------------
// SimPool

/// Memory handed out by the pool; goes back to the pool (as the predicate left it) on drop.
pub struct SimMem(Option<MemoryInstance>);

impl AsRef<MemoryInstance> for SimMem {
    fn as_ref(&self) -> &MemoryInstance {
        self.0.as_ref().expect("present until drop")
    }
}
impl AsMut<MemoryInstance> for SimMem {
    fn as_mut(&mut self) -> &mut MemoryInstance {
        self.0.as_mut().expect("present until drop")
    }
}
impl Drop for SimMem {
    fn drop(&mut self) {
        if let Some(m) = self.0.take() {
            // try_with: a drop during thread teardown must not panic
            let _ = SEAMS.try_with(|s| {
                if let Ok(mut s) = s.try_borrow_mut() {
                    if s.returned.len() >= 6 {
                        s.returned.remove(0);
                    }
                    s.returned.push(m);
                }
            });
        }
    }
}

/// `&mut MemoryInstance` as a `Memory` (the blanket impl needs AsRef + AsMut).
pub struct Borrowed<'a>(pub &'a mut MemoryInstance);
impl AsRef<MemoryInstance> for Borrowed<'_> {
    fn as_ref(&self) -> &MemoryInstance {
        self.0
    }
}
impl AsMut<MemoryInstance> for Borrowed<'_> {
    fn as_mut(&mut self) -> &mut MemoryInstance {
        self.0
    }
}

thread_local! {
    /// Producer of heap-dirty instances; set by the engine (it needs the interpreter).
    static DIRTIER: RefCell<Option<fn(u16) -> MemoryInstance>> = const { RefCell::new(None) };
}

pub fn set_dirtier(f: fn(u16) -> MemoryInstance) {
    DIRTIER.with(|d| *d.borrow_mut() = Some(f));
}

fn pre_dirtied(kib: u16) -> MemoryInstance {
    let f = DIRTIER.with(|d| *d.borrow());
    match f {
        Some(f) => f(kib),
        None => MemoryInstance::from(vec![0xA5u8; 4096]),
    }
}

pub fn is_dirty(m: &MemoryInstance) -> bool {
    !m.stack_raw().is_empty() || !m.heap_raw().is_empty()
}

fn produce() -> SimMem {
    let h = SEAMS.with(|s| {
        let mut s = s.borrow_mut();
        let k = s.next_handout;
        s.next_handout += 1;
        let n = s.sched.handouts.len();
        if n == 0 { Handout::Fresh } else { s.sched.handouts[k % n].clone() }
    });
    let mut reused = false;
    let m = match h {
        Handout::Fresh => MemoryInstance::new(),
        Handout::DirtyStack { len, fill } => MemoryInstance::from(vec![fill; (len as usize).min(1 << 20)]),
        Handout::PreDirtied { kib, reset } => {
            let mut m = pre_dirtied(kib);
            if reset {
                m.reset();
            }
            m
        }
        Handout::Reuse { back, reset } => {
            let got = SEAMS.with(|s| {
                let mut s = s.borrow_mut();
                let n = s.returned.len();
                if n == 0 { None } else { Some(s.returned.remove(n - 1 - (back as usize % n))) }
            });
            let mut m = match got {
                Some(m) => {
                    reused = true;
                    m
                }
                None => pre_dirtied(64),
            };
            if reset {
                m.reset();
            }
            m
        }
    };
    SEAMS.with(|s| {
        let mut s = s.borrow_mut();
        s.log.handouts += 1;
        if is_dirty(&m) {
            s.log.dirty_handouts += 1;
        }
        if reused {
            s.log.reused_handouts += 1;
        }
    });
    SimMem(Some(m))
}

pub struct PoolFuture {
    pending: u8,
}

impl Future for PoolFuture {
    type Output = SimMem;
    fn poll(mut self: Pin<&mut Self>, cx: &mut Context<'_>) -> Poll<SimMem> {
        if self.pending > 0 {
            self.pending -= 1;
            SEAMS.with(|s| s.borrow_mut().log.pool_pendings += 1);
            cx.waker().wake_by_ref();
            return Poll::Pending;
        }
        Poll::Ready(produce())
    }
}

#[derive(Clone, Copy, Default)]
pub struct SimPool;

impl VmMemoryPool for SimPool {
    type Memory = SimMem;

    fn get_new(&self) -> impl Future<Output = SimMem> + Send {
        let pending = SEAMS.with(|s| {
            let s = s.borrow();
            let n = s.sched.pendings.len();
            if n == 0 { 0 } else { s.sched.pendings[s.next_handout % n].min(3) }
        });
        PoolFuture { pending }
    }
}

#[allow(dead_code)]
fn _assert_memory<M: Memory + Send + Sync + 'static>() {}
#[allow(dead_code)]
fn _assert_simmem() {
    _assert_memory::<SimMem>()
}

// ------------------------------------------------------------------------------------
// SimBlobs: recording, fault-injecting blob store behind PredicateStorageProvider

#[derive(Debug, Clone, PartialEq, Eq)]
pub struct SimIoError(pub u64);

#[derive(Debug, Clone, PartialEq, Eq)]
pub struct BlobCall {
    pub method: &'static str,
    pub key8: u64,
    pub ok: bool,
    pub found: bool,
}

struct BlobShared {
    blobs: BTreeMap<[u8; 32], Vec<u8>>,
    calls: AtomicU64,
    /// 1-based index of the call that fails; 0 = none.
    fail_at: AtomicU64,
    fired: AtomicU64,
    log: Mutex<Vec<BlobCall>>,
}

#[derive(Clone)]
pub struct SimBlobs(Arc<BlobShared>);

impl SimBlobs {
    pub fn new(blobs: BTreeMap<[u8; 32], Vec<u8>>) -> Self {
        SimBlobs(Arc::new(BlobShared {
            blobs,
            calls: AtomicU64::new(0),
            fail_at: AtomicU64::new(0),
            fired: AtomicU64::new(0),
            log: Mutex::new(Vec::new()),
        }))
    }
    /// Arm: the `k`-th call from now (1-based) fails. 0 disarms. Resets counters.
    pub fn arm(&self, k: u64) {
        self.0.calls.store(0, Ordering::Relaxed);
        self.0.fired.store(0, Ordering::Relaxed);
        self.0.fail_at.store(k, Ordering::Relaxed);
    }
    pub fn fired(&self) -> u64 {
        self.0.fired.load(Ordering::Relaxed)
    }
    pub fn take_log(&self) -> Vec<BlobCall> {
        self.0.log.lock().map(|mut l| std::mem::take(&mut *l)).unwrap_or_default()
    }
    fn enter(&self, method: &'static str, key: &BlobId) -> Result<Option<&Vec<u8>>, SimIoError> {
        let n = self.0.calls.fetch_add(1, Ordering::Relaxed) + 1;
        let key8 = u64::from_be_bytes(key.as_ref()[..8].try_into().unwrap_or([0; 8]));
        let fail = self.0.fail_at.load(Ordering::Relaxed) == n;
        let k: [u8; 32] = **key;
        let found = self.0.blobs.get(&k);
        if let Ok(mut l) = self.0.log.lock() {
            l.push(BlobCall { method, key8, ok: !fail, found: found.is_some() });
        }
        if fail {
            self.0.fired.fetch_add(1, Ordering::Relaxed);
            return Err(SimIoError(n));
        }
        Ok(found)
    }
}

impl StorageInspect<BlobData> for SimBlobs {
    type Error = SimIoError;

    fn get(&self, key: &BlobId) -> Result<Option<Cow<'_, <BlobData as Mappable>::OwnedValue>>, SimIoError> {
        Ok(self.enter("get", key)?.map(|v| Cow::Owned(v.clone().into())))
    }

    fn contains_key(&self, key: &BlobId) -> Result<bool, SimIoError> {
        Ok(self.enter("contains_key", key)?.is_some())
    }
}

impl StorageSize<BlobData> for SimBlobs {
    fn size_of_value(&self, key: &BlobId) -> Result<Option<usize>, SimIoError> {
        Ok(self.enter("size_of_value", key)?.map(|v| v.len()))
    }
}

impl StorageRead<BlobData> for SimBlobs {
    fn read_exact(&self, key: &BlobId, offset: usize, buf: &mut [u8]) -> Result<Result<usize, StorageReadError>, SimIoError> {
        let Some(v) = self.enter("read_exact", key)? else {
            return Ok(Err(StorageReadError::KeyNotFound));
        };
        let Some(src) = offset.checked_add(buf.len()).and_then(|end| v.get(offset..end)) else {
            return Ok(Err(StorageReadError::OutOfBounds));
        };
        buf.copy_from_slice(src);
        Ok(Ok(v.len().saturating_sub(offset).saturating_sub(buf.len())))
    }

    fn read_zerofill(&self, key: &BlobId, offset: usize, buf: &mut [u8]) -> Result<Result<usize, StorageReadError>, SimIoError> {
        let Some(v) = self.enter("read_zerofill", key)? else {
            return Ok(Err(StorageReadError::KeyNotFound));
        };
        if offset > v.len() {
            return Ok(Err(StorageReadError::OutOfBounds));
        }
        let avail = &v[offset..];
        let n = avail.len().min(buf.len());
        buf[..n].copy_from_slice(&avail[..n]);
        buf[n..].fill(0);
        Ok(Ok(avail.len().saturating_sub(n)))
    }

    fn read_alloc(&self, key: &BlobId) -> Result<Option<Vec<u8>>, SimIoError> {
        Ok(self.enter("read_alloc", key)?.cloned())
    }
}

impl PredicateStorageRequirements for SimBlobs {
    fn storage_error_to_string(error: SimIoError) -> String {
        format!("simulated blob store I/O error at call {}", error.0)
    }
}

impl PredicateStorageProvider for SimBlobs {
    type Storage = SimBlobs;
    fn storage(&self) -> SimBlobs {
        self.clone()
    }
}

// ------------------------------------------------------------------------------------
// SimEcal: deterministic handler; disabled = behaves like `NotSupportedEcal`.

#[derive(Debug, Clone, Copy, PartialEq, Eq)]
pub struct SimEcal {
    pub enabled: bool,
}

impl EcalHandler for SimEcal {
    /// reg[a] = reg[a] + reg[b] + 1, charging one unit of gas.
    fn ecal<M, S, Tx, V>(vm: &mut Interpreter<M, S, Tx, Self, V>, a: RegId, b: RegId, _c: RegId, _d: RegId) -> SimpleResult<()>
    where
        M: Memory,
    {
        if !vm.ecal_state().enabled {
            return Err(PanicReason::EcalError.into());
        }
        vm.gas_charge(1)?;
        if a.to_u8() < 16 {
            return Err(PanicReason::ReservedRegisterNotWritable.into());
        }
        let v = vm.registers()[a].wrapping_add(vm.registers()[b]).wrapping_add(1);
        vm.registers_mut()[a] = v;
        Ok(())
    }
}
