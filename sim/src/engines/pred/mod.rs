//! `pred` engine — signature and predicate checking under a seeded executor (C20).
//! System: one transaction, its predicates, a blob store, a memory pool, an executor
//! (DESIGN §4.2, §6 C20).
pub mod generate;
pub mod grammar;
pub mod run;
pub mod scenario;
pub mod seams;

use crate::kernel::*;
use scenario::Scenario;
use seams::Handout;
use serde_json::{Value, json};

pub struct Pred;

impl Engine for Pred {
    type Scenario = Scenario;

    fn generate(_prop: &str, rng: &mut Rng, tier: Tier) -> Scenario {
        generate::generate(rng, tier)
    }

    fn run(_prop: &str, sc: &Scenario, ctx: &mut RunCtx) {
        run::run(sc, ctx)
    }

    /// The transaction is signed, so it is never edited; schedules, faults, tampers and
    /// probes are dropped and simplified.
    fn shrink(_prop: &str, sc: &Scenario) -> Vec<Scenario> {
        let mut out = Vec::new();
        let n = sc.schedules.len();
        if n > 1 {
            // keep one schedule (the fault plan follows it)
            for keep in 0..n {
                let mut s = sc.clone();
                s.schedules = vec![sc.schedules[keep].clone()];
                if let Some(f) = &mut s.blob_fault {
                    if f.schedule as usize == keep {
                        f.schedule = 0;
                    } else {
                        s.blob_fault = None;
                    }
                }
                for g in &mut s.gas_probes {
                    g.schedule = 0;
                }
                out.push(s);
            }
            let mut s = sc.clone();
            s.schedules.truncate(n / 2);
            out.push(s);
        }
        if n == 1 {
            let mut s = sc.clone();
            s.schedules.clear();
            out.push(s);
        }
        if !sc.tampers.is_empty() {
            let mut s = sc.clone();
            s.tampers.clear();
            out.push(s);
            if sc.tampers.len() > 1 {
                for i in 0..sc.tampers.len() {
                    let mut s = sc.clone();
                    s.tampers = vec![sc.tampers[i].clone()];
                    out.push(s);
                }
            }
        }
        if !sc.gas_probes.is_empty() {
            let mut s = sc.clone();
            s.gas_probes.clear();
            out.push(s);
            if sc.gas_probes.len() > 1 {
                for i in 0..sc.gas_probes.len() {
                    let mut s = sc.clone();
                    s.gas_probes = vec![sc.gas_probes[i].clone()];
                    out.push(s);
                }
            }
        }
        if sc.blob_fault.is_some() {
            let mut s = sc.clone();
            s.blob_fault = None;
            out.push(s);
        }
        if sc.seq_dirty_kib != 0 {
            let mut s = sc.clone();
            s.seq_dirty_kib = 0;
            out.push(s);
        }
        if sc.h_est != sc.h_check {
            let mut s = sc.clone();
            s.h_est = sc.h_check;
            out.push(s);
        }
        // simplify the schedules that remain
        for (i, sch) in sc.schedules.iter().enumerate() {
            if sch.pendings.iter().any(|p| *p != 0) || sch.exec_pendings != 0 {
                let mut s = sc.clone();
                s.schedules[i].pendings.clear();
                s.schedules[i].exec_pendings = 0;
                out.push(s);
            }
            if sch.handouts.iter().any(|h| *h != Handout::Fresh) {
                let mut s = sc.clone();
                s.schedules[i].handouts.clear();
                out.push(s);
                for j in 0..sch.handouts.len() {
                    if sch.handouts[j] != Handout::Fresh {
                        let mut s = sc.clone();
                        s.schedules[i].handouts[j] = Handout::Fresh;
                        out.push(s);
                    }
                }
            }
            if !sch.start_keys.is_empty() {
                let mut s = sc.clone();
                s.schedules[i].start_keys.clear();
                out.push(s);
            }
            if !sch.result_keys.is_empty() {
                let mut s = sc.clone();
                s.schedules[i].result_keys.clear();
                out.push(s);
            }
        }
        if !sc.blobs.is_empty() && sc.preds.iter().all(|p| !p.reads_blob) {
            let mut s = sc.clone();
            s.blobs.clear();
            out.push(s);
        }
        out
    }

    fn summarize(_prop: &str, sc: &Scenario) -> Value {
        json!({
            "tx_kind": sc.tx_kind,
            "tx_bytes": sc.tx.len() / 2,
            "params": sc.params,
            "signed_inputs": sc.sigs.iter().map(|s| format!("{}:{}{}", s.input, s.how, if s.valid { "" } else { "!" })).collect::<Vec<_>>(),
            "predicate_inputs": sc.preds.iter().map(|p| format!("{}:{}={}{}", p.input, p.rule, p.truth, if p.owner_ok { "" } else { " wrong-owner" })).collect::<Vec<_>>(),
            "gas_roomy": sc.gas_roomy,
            "heights": [sc.h_est, sc.h_check],
            "schedules": sc.schedules.len(),
            "first_schedule": sc.schedules.first(),
            "blob_fault": sc.blob_fault,
            "seq_dirty_kib": sc.seq_dirty_kib,
            "tampers": sc.tampers,
            "gas_probes": sc.gas_probes,
            "faulty": sc.faulty,
        })
    }
}

fn pred_describe(_prop: &str) -> EngineDescription {
    EngineDescription {
        rule: "Seeded transactions (75% Script, Create, Blob; 0–4 signed coin/message inputs over 1–3 keys with shared, duplicated and unused witnesses; 0–5 predicate inputs of the three kinds from a 14-production grammar whose truth value the generator knows: constant, predicate-data EQ/MEQ, false/revert, panics, bounded and unbounded loops, heap-hungry ALOC, fresh-heap and fresh-stack probes, BSIZ/BLDD blob reads, forbidden contract opcodes, ECAL, own-index) travel as canonical bytes with their ground truth. Per transaction: sequential estimation, estimate→basic→signatures→predicates, then S = 8 (quick) / 64 (thorough) executor schedules (task start permutation × result permutation × pool hand-out fresh / garbage stack / heap-dirty / instance just returned by an earlier predicate × 0–3 Pending polls), each compared with the sequential verdict and gas; parallel estimation on every second schedule; blob-store I/O error at the k-th call; check at a moved block height; sequential check on a heap-dirty instance; declared gas ±1 (the +1 also on a chain whose max_gas_per_predicate equals the predicate's need); 3 (6) tampered copies re-decoded and re-checked, the typed tampers additionally applied in place to the accepted value (which carries its cached id) and re-checked: id and verdict must equal those of the wire copy. 55% of runs are all-true by construction, a third of all runs has no injected fault; 8% of runs draw max_gas_per_tx just above the transaction's need and 3% carry a stale huge declared predicate gas (both outside the estimate→verify precondition: counted as probes, not asserted). A run is non-trivial when its transaction has ≥ 2 predicates with different estimated gas, ≥ 1 dirty instance was handed to a predicate task and ≥ 1 schedule delivered results in an order different from the input order; distinct = distinct event digests among non-trivial runs.".into(),
        real_components: vec![
            "fuel_vm::checked_transaction::{IntoChecked::into_checked_basic, Checked::check_signatures, CheckPredicates::check_predicates, EstimatePredicates::{estimate_predicates_ecal, estimate_predicates_async_ecal}} for Script, Create, Blob and the Transaction enum".into(),
            "fuel_vm::interpreter::predicates::{check_predicates, check_predicates_async} (run_predicates, run_predicate_async, check_predicate, finalize_check_predicate)".into(),
            "fuel_vm Interpreter in predicate mode (init_predicate, verify_predicate, blob opcodes over PredicateStorage)".into(),
            "fuel_tx::FormatValidityChecks::check_signatures / Input::check_signature with its recovery cache; Witness::recover_witness".into(),
            "fuel_tx canonical encoding/decoding of transactions (transit of tampered bytes)".into(),
            "fuel_crypto secp256k1 signing (generator) and recovery".into(),
        ],
        stub_components: vec![
            "SimExecutor: ParallelExecutor (seeded start and result permutations, Pending polls)".into(),
            "SimPool: VmMemoryPool (fresh / garbage-stack / heap-dirty / just-returned instances, reset or not, 0–3 Pending polls)".into(),
            "SimBlobs: PredicateStorageProvider + PredicateStorageRequirements (recording, k-th call fails)".into(),
            "SimEcal: EcalHandler (deterministic function, or 'not supported')".into(),
            "block_on with a no-op waker (single-threaded)".into(),
            "independent authorization oracle: fuel_crypto recovery over the id; Input::predicate_owner over the code".into(),
        ],
        assumptions: vec![
            "Reading note of DESIGN C20: estimation is allowed to return Ok for predicates that fail; 'verification succeeds whenever estimation succeeded' is asserted for transactions whose predicates are true by construction, owned by their code, with ample max_gas_per_tx.".into(),
            "The generator's truth values are correct (programs are built from templates with known outcome and gas far below the per-predicate limit).".into(),
            "Transaction id computation and secp256k1 recovery are trusted (C03, C17 are outside this check).".into(),
            "Which failing predicate is named in an error may depend on the order and is not compared.".into(),
            "Besides the full pipeline, check_predicates alone and check_signatures alone are each expected to reject a predicate whose code no longer hashes to its owner (both are listed as mechanisms of C20).".into(),
        ],
        distinct_state_measure: "distinct event digests (estimated gas vector, verdict per schedule with its start/result order, blob calls, tamper outcomes) of non-trivial runs".into(),
        simulated_time_keys: vec!["transactions".into(), "schedules".into(), "predicate_runs".into(), "signature_checks".into(), "blob_calls".into(), "heights".into()],
    }
}

pub static PRED: EngineDef = EngineDef {
    name: "pred",
    props: &["C20"],
    generate: gen_erased::<Pred>,
    run: run_erased::<Pred>,
    shrink: shrink_erased::<Pred>,
    summarize: summarize_erased::<Pred>,
    describe: pred_describe,
    runs: |_| (250_000, 900_000),
};
