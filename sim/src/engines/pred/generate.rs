//! Scenario generator of the `pred` engine — the only place where the PRNG is used.
//! Builds one signed transaction with a known ground truth per input, a blob store, S
//! executor schedules, a fault plan and a tamper plan.

use super::grammar::{self, Built, InKind};
use super::scenario::*;
use super::seams::{Handout, Schedule};
use crate::kernel::{Rng, Tier};
use fuel_crypto::{Message, SecretKey, Signature};
use fuel_tx::{
    BlobBody, BlobIdExt, Chargeable, ConsensusParameters, Contract, Input, Output, StorageSlot, Transaction, TxPointer, policies::Policies,
    UniqueIdentifier, UtxoId, Witness,
};
use fuel_types::canonical::Serialize as _;
use fuel_types::{Address, AssetId, BlobId, Bytes32, ChainId, Nonce, Salt};

pub fn consensus_params(p: &ParamSpec) -> ConsensusParameters {
    let mut cp = ConsensusParameters::standard();
    cp.set_chain_id(ChainId::new(p.chain_id));
    let pp = cp.predicate_params().clone().with_max_gas_per_predicate(p.max_gas_per_predicate);
    cp.set_predicate_params(pp);
    let tp = cp.tx_params().clone().with_max_gas_per_tx(p.max_gas_per_tx);
    cp.set_tx_params(tp);
    cp
}

fn secret(rng: &mut Rng) -> SecretKey {
    loop {
        let b = rng.bytes32();
        if let Ok(k) = SecretKey::try_from(&b[..]) {
            return k;
        }
    }
}

fn addr(rng: &mut Rng) -> Address {
    Address::from(rng.bytes32())
}

#[derive(Clone, Copy, PartialEq, Eq, Debug)]
enum Slot {
    Body,
    Sig(usize),
    Junk,
}

enum Spec {
    Signed { kind: InKind, key: usize },
    Pred { kind: InKind },
}

const TRUE_RULES: &[&str] =
    &["const_true", "data_eq", "data_meq", "loop_n", "heap_hungry", "heap_probe", "stack_probe", "blob_read", "own_index", "ecal"];

pub fn generate(rng: &mut Rng, tier: Tier) -> Scenario {
    let mut g = rng.fork("gen");
    let mut f = rng.fork("fault");
    let mut s = rng.fork("sched");

    let faulty = g.below(3) != 0; // a third of all runs is fault-free
    let all_true = g.chance(55, 100);
    let mut params = ParamSpec {
        max_gas_per_predicate: *g.pick(&[4_000u64, 4_000, 10_000, 10_000, 30_000]),
        max_gas_per_tx: 100_000_000,
        chain_id: g.below(4),
        ecal_enabled: g.bool(),
    };
    let chain_id = ChainId::new(params.chain_id);
    let tx_kind = match g.below(100) {
        0..=74 => "script",
        75..=86 => "create",
        _ => "blob",
    };
    let data_msgs_allowed = tx_kind == "script";

    // ---- keys and input layout
    let nk = g.range(1, 3) as usize;
    let keys: Vec<SecretKey> = (0..nk + 1).map(|_| secret(&mut g)).collect(); // last one never owns an input
    let ns = g.weighted(&[2, 3, 3, 2, 2]);
    let np = g.weighted(&[1, 2, 4, 4, 3, 2]);
    let pick_kind = |g: &mut Rng| match g.below(if data_msgs_allowed { 4 } else { 3 }) {
        0 | 1 => InKind::Coin,
        2 => InKind::MsgCoin,
        _ => InKind::MsgData,
    };
    let mut specs: Vec<Spec> = Vec::new();
    for _ in 0..ns {
        let kind = pick_kind(&mut g);
        specs.push(Spec::Signed { kind, key: g.usize_below(nk) });
    }
    for _ in 0..np {
        let kind = pick_kind(&mut g);
        specs.push(Spec::Pred { kind });
    }
    g.shuffle(&mut specs);
    let spendable = |sp: &Spec| matches!(sp, Spec::Signed { kind, .. } | Spec::Pred { kind } if *kind != InKind::MsgData);
    if !specs.iter().any(spendable) {
        if g.bool() {
            specs.push(Spec::Signed { kind: InKind::Coin, key: 0 });
        } else {
            specs.push(Spec::Pred { kind: InKind::Coin });
        }
    }
    let fee_payer = specs.iter().position(spendable).unwrap_or(0);

    // ---- witness slots
    let mut slots: Vec<Slot> = Vec::new();
    let used_keys: Vec<usize> =
        (0..nk).filter(|k| specs.iter().any(|sp| matches!(sp, Spec::Signed { key, .. } if key == k))).collect();
    for &k in &used_keys {
        slots.push(Slot::Sig(k));
        if g.chance(1, 4) {
            slots.push(Slot::Sig(k)); // the same signature in two witnesses
        }
    }
    for _ in 0..g.below(3) {
        slots.push(if g.chance(1, 3) { Slot::Sig(nk) } else { Slot::Junk }); // unused witnesses
    }
    g.shuffle(&mut slots);
    if tx_kind != "script" {
        slots.insert(0, Slot::Body);
    }
    let slots_of = |k: usize, slots: &[Slot]| -> Vec<usize> {
        slots.iter().enumerate().filter(|(_, s)| **s == Slot::Sig(k)).map(|(i, _)| i).collect()
    };

    // ---- swarm weights of the predicate grammar
    let mut weights: Vec<u32> = grammar::RULES.iter().map(|_| *g.pick(&[0u32, 1, 2, 4])).collect();
    weights[0] = weights[0].max(1);
    let true_weights: Vec<u32> = TRUE_RULES
        .iter()
        .map(|r| {
            let w = weights[grammar::RULES.iter().position(|x| x == r).unwrap_or(0)].max(1);
            if *r == "ecal" && !params.ecal_enabled { 0 } else { w }
        })
        .collect();

    // ---- inputs
    let base = AssetId::default();
    let alt = AssetId::from(g.bytes32());
    let mut inputs: Vec<Input> = Vec::new();
    let mut preds: Vec<PredTruth> = Vec::new();
    let mut sigs: Vec<SigTruth> = Vec::new();
    let mut blobs: Vec<([u8; 32], Vec<u8>)> = Vec::new();
    // declared gas before estimation: 0, small garbage, or a stale huge value (then the
    // sequential estimator's budget `max_gas_per_tx - max_gas(tx)` is exhausted: not roomy)
    let garbage_gas = g.weighted(&[82, 15, 3]);
    for (i, sp) in specs.iter().enumerate() {
        let amount = if i == fee_payer { 10_000_000 } else { g.below(1_000_000) };
        let asset = if i == fee_payer || tx_kind != "script" || g.chance(7, 10) { base } else { alt };
        let utxo = UtxoId::new(Bytes32::from(g.bytes32()), g.below(8) as u16);
        let ptr = TxPointer::new((g.below(50) as u32).into(), g.below(4) as u16);
        let nonce = Nonce::from(g.bytes32());
        match sp {
            Spec::Signed { kind, key } => {
                let owner = Input::owner(&keys[*key].public_key());
                let ws = slots_of(*key, &slots);
                let w = *g.pick(&ws) as u16;
                let input = match kind {
                    InKind::Coin => Input::coin_signed(utxo, owner, amount, asset, ptr, w),
                    InKind::MsgCoin => Input::message_coin_signed(addr(&mut g), owner, amount, nonce, w),
                    InKind::MsgData => {
                        let n = g.range(1, 24) as usize;
                        Input::message_data_signed(addr(&mut g), owner, amount, nonce, w, g.bytes(n))
                    }
                };
                inputs.push(input);
                sigs.push(SigTruth { input: i as u16, valid: true, how: format!("key{key}") });
            }
            Spec::Pred { kind } => {
                let built: Built = if all_true {
                    let r = TRUE_RULES[g.weighted(&true_weights)];
                    grammar::build(r, *kind, i, params.ecal_enabled, Some(true), &mut g)
                } else {
                    let r = grammar::RULES[g.weighted(&weights)];
                    grammar::build(r, *kind, i, params.ecal_enabled, None, &mut g)
                };
                let owner_ok = all_true || !g.chance(8, 100);
                let owner = if owner_ok { Input::predicate_owner(&built.code) } else { addr(&mut g) };
                let gas = match garbage_gas {
                    0 => 0,
                    1 => g.below(3000),
                    _ => params.max_gas_per_tx - g.below(1000),
                };
                let input = match kind {
                    InKind::Coin => Input::coin_predicate(utxo, owner, amount, asset, ptr, gas, built.code.clone(), built.data.clone()),
                    InKind::MsgCoin => {
                        Input::message_coin_predicate(addr(&mut g), owner, amount, nonce, gas, built.code.clone(), built.data.clone())
                    }
                    InKind::MsgData => {
                        let n = g.range(1, 24) as usize;
                        Input::message_data_predicate(
                            addr(&mut g),
                            owner,
                            amount,
                            nonce,
                            gas,
                            g.bytes(n),
                            built.code.clone(),
                            built.data.clone(),
                        )
                    }
                };
                inputs.push(input);
                if let Some(b) = &built.blob {
                    blobs.push(b.clone());
                }
                preds.push(PredTruth {
                    input: i as u16,
                    rule: built.rule.to_string(),
                    truth: built.truth,
                    owner_ok,
                    reads_blob: built.reads_blob,
                    heavy: built.heavy,
                });
            }
        }
    }
    for _ in 0..g.below(3) {
        let c = { let n_ = g.range(1, 64); g.bytes(n_ as usize) };
        blobs.push((*BlobId::compute(&c), c));
    }

    // ---- a wrongly authorised signed input (never in all-true runs)
    let mut bad_slot: Option<(usize, &'static str)> = None;
    if !all_true && !sigs.is_empty() && g.chance(45, 100) {
        // prefer a victim that shares its witness with an earlier input
        let mut victim = g.usize_below(sigs.len());
        for (j, sj) in sigs.iter().enumerate().rev() {
            let wj = inputs[sj.input as usize].witness_index();
            if sigs[..j].iter().any(|e| inputs[e.input as usize].witness_index() == wj) {
                if g.chance(2, 3) {
                    victim = j;
                }
                break;
            }
        }
        let vi = sigs[victim].input as usize;
        let cur_w = inputs[vi].witness_index().unwrap_or(0) as usize;
        let set_w = |input: &mut Input, w: u16| match input {
            Input::CoinSigned(c) => c.witness_index = w,
            Input::MessageCoinSigned(m) => m.witness_index = w,
            Input::MessageDataSigned(m) => m.witness_index = w,
            _ => {}
        };
        let set_owner = |input: &mut Input, a: Address| match input {
            Input::CoinSigned(c) => c.owner = a,
            Input::MessageCoinSigned(m) => m.recipient = a,
            Input::MessageDataSigned(m) => m.recipient = a,
            _ => {}
        };
        match g.below(7) {
            0 | 1 => {
                // owner is somebody else (a key that has a valid witness elsewhere, or nobody)
                let other = if g.bool() { Input::owner(&keys[g.usize_below(nk + 1)].public_key()) } else { addr(&mut g) };
                let mine = *inputs[vi].input_owner().unwrap_or(&Address::default());
                let other = if other == mine { addr(&mut g) } else { other };
                set_owner(&mut inputs[vi], other);
                sigs[victim].valid = false;
                sigs[victim].how = "wrong_owner_same_witness".into();
            }
            2 => {
                let others: Vec<usize> =
                    slots.iter().enumerate().filter(|(i, s)| *i != cur_w && **s != slots[cur_w]).map(|(i, _)| i).collect();
                if !others.is_empty() {
                    set_w(&mut inputs[vi], *g.pick(&others) as u16);
                    sigs[victim].valid = false;
                    sigs[victim].how = "other_witness".into();
                }
            }
            3 => {
                set_w(&mut inputs[vi], slots.len() as u16 + g.below(2) as u16);
                sigs[victim].valid = false;
                sigs[victim].how = "witness_index_out_of_bounds".into();
            }
            4 => bad_slot = Some((cur_w, "signed_other_message")),
            5 => bad_slot = Some((cur_w, "truncated_signature")),
            _ => bad_slot = Some((cur_w, "signed_other_chain")),
        }
        if let Some((w, how)) = bad_slot {
            for e in sigs.iter_mut() {
                if inputs[e.input as usize].witness_index() == Some(w as u16) {
                    e.valid = false;
                    e.how = how.into();
                }
            }
        }
    }

    // ---- outputs, policies, body
    let mut outputs: Vec<Output> = Vec::new();
    for _ in 0..g.below(3) {
        outputs.push(Output::coin(addr(&mut g), g.below(1000), base));
    }
    if g.bool() {
        outputs.push(Output::change(addr(&mut g), 0, base));
    }
    let h_est = g.below(100) as u32;
    let h_check = if faulty && f.bool() { f.below(100) as u32 } else { h_est };
    let mut policies = Policies::new().with_max_fee(g.below(1000));
    if g.chance(3, 10) {
        policies = policies.with_maturity((g.below(h_est.min(h_check) as u64 + 1) as u32).into());
    }
    if g.chance(2, 10) {
        policies = policies.with_expiration((h_est.max(h_check) + g.below(10) as u32).into());
    }
    if g.chance(2, 10) {
        policies = policies.with_tip(g.below(100));
    }
    let body_witness: Vec<u8> = { let n_ = g.range(4, 80); g.bytes(n_ as usize) };
    // witness contents known before signing (signatures are 64 bytes)
    let mut slot_bytes: Vec<Vec<u8>> = slots
        .iter()
        .map(|s| match s {
            Slot::Body => body_witness.clone(),
            Slot::Sig(_) => vec![0u8; 64],
            Slot::Junk => match g.below(3) {
                0 => g.bytes(64),
                1 => {
                    let n = g.usize_below(100);
                    g.bytes(n)
                }
                _ => vec![],
            },
        })
        .collect();
    let witnesses: Vec<Witness> = slot_bytes.iter().map(|b| b.clone().into()).collect();
    let want_witness_limit = if g.chance(2, 10) { Some(g.below(200)) } else { None };
    let mut tx: Transaction = match tx_kind {
        "create" => {
            let salt = Salt::from(g.bytes32());
            let slots_n = g.below(3);
            let mut storage: Vec<StorageSlot> =
                (0..slots_n).map(|_| StorageSlot::new(Bytes32::from(g.bytes32()), Bytes32::from(g.bytes32()))).collect();
            storage.sort();
            let root = Contract::root_from_code(&body_witness);
            let state_root = Contract::initial_state_root(storage.iter());
            let id = Contract::id(&salt, &root, &state_root);
            outputs.push(Output::contract_created(id, state_root));
            Transaction::create(0, policies, salt, storage, inputs, outputs, witnesses).into()
        }
        "blob" => {
            let body = BlobBody { id: BlobId::compute(&body_witness), witness_index: 0 };
            Transaction::blob(body, policies, inputs, outputs, witnesses).into()
        }
        _ => {
            let script: Vec<u8> = [fuel_asm::op::ret(fuel_asm::RegId::ONE)].into_iter().collect();
            let n = g.usize_below(24);
            Transaction::script(g.below(10_000), script, g.bytes(n), policies, inputs, outputs, witnesses).into()
        }
    };

    if let Some(extra) = want_witness_limit {
        use fuel_tx::field::{Policies as _, Witnesses as _};
        use fuel_tx::policies::PolicyType;
        macro_rules! lim {
            ($t:expr) => {{
                let size = $t.witnesses().size_dynamic() as u64;
                $t.policies_mut().set(PolicyType::WitnessLimit, Some(size + extra));
            }};
        }
        match &mut tx {
            Transaction::Script(t) => lim!(t),
            Transaction::Create(t) => lim!(t),
            Transaction::Blob(t) => lim!(t),
            _ => {}
        }
    }

    // ---- sign
    let id = tx.id(&chain_id);
    let sign = |key: &SecretKey, msg: &[u8; 32]| -> Vec<u8> { Signature::sign(key, &Message::from_bytes(*msg)).as_ref().to_vec() };
    for (i, sl) in slots.iter().enumerate() {
        if let Slot::Sig(k) = sl {
            let mut sig = sign(&keys[*k], &id);
            if let Some((w, how)) = bad_slot {
                if w == i {
                    match how {
                        "signed_other_message" => {
                            let mut m: [u8; 32] = *id;
                            m[g.usize_below(32)] ^= 1 << g.below(8);
                            sig = sign(&keys[*k], &m);
                        }
                        "truncated_signature" => {
                            sig.truncate(63);
                        }
                        _ => {
                            let other = tx.id(&ChainId::new(params.chain_id + 1));
                            sig = sign(&keys[*k], &other);
                        }
                    }
                }
            }
            slot_bytes[i] = sig;
        }
    }
    let ws: Vec<Witness> = slot_bytes.into_iter().map(Into::into).collect();
    set_witnesses(&mut tx, ws);

    // ---- gas room
    let mut gas_roomy = garbage_gas != 2;
    if gas_roomy && g.chance(8, 100) {
        let cp = consensus_params(&params);
        let need = match &tx {
            Transaction::Script(t) => t.max_gas(cp.gas_costs(), cp.fee_params()),
            Transaction::Create(t) => t.max_gas(cp.gas_costs(), cp.fee_params()),
            Transaction::Blob(t) => t.max_gas(cp.gas_costs(), cp.fee_params()),
            _ => 0,
        };
        params.max_gas_per_tx = need + g.below(30_000);
        gas_roomy = false;
    }

    let tx_bytes = tx.to_bytes();

    // ---- schedules
    let n_sched = if tier == Tier::Thorough { 64 } else { 8 };
    let np_real = preds.len();
    let mut schedules = Vec::new();
    let w_handout: [u32; 4] = if faulty { [*s.pick(&[1u32, 3, 6]), *s.pick(&[0u32, 2, 4]), *s.pick(&[0u32, 2, 4]), *s.pick(&[0u32, 3, 6])] } else { [1, 0, 0, 0] };
    for _ in 0..n_sched {
        let perm = |s: &mut Rng, n: usize| -> Vec<u32> {
            match s.below(5) {
                0 => (0..n as u32).collect(),
                1 => (0..n as u32).rev().collect(),
                _ => s.permutation(n).into_iter().map(|x| x as u32).collect(),
            }
        };
        let start_keys = perm(&mut s, np_real);
        let result_keys = perm(&mut s, np_real);
        let handouts: Vec<Handout> = (0..np_real.max(1))
            .map(|_| match s.weighted(&w_handout) {
                0 => Handout::Fresh,
                1 => Handout::DirtyStack { len: *s.pick(&[8u32, 600, 4096, 70_000]), fill: s.below(256) as u8 },
                2 => Handout::PreDirtied { kib: *s.pick(&[1u16, 16, 64, 255]), reset: s.bool() },
                _ => Handout::Reuse { back: s.below(4) as u8, reset: s.chance(1, 3) },
            })
            .collect();
        let pendings: Vec<u8> = (0..np_real.max(1)).map(|_| if s.bool() { 0 } else { s.below(4) as u8 }).collect();
        schedules.push(Schedule { start_keys, result_keys, handouts, pendings, exec_pendings: s.below(3) as u8 });
    }

    // ---- fault plan
    let readers = preds.iter().filter(|p| p.reads_blob).count() as u64;
    let blob_fault = if faulty && readers > 0 && f.chance(2, 3) {
        Some(BlobFault {
            phase: if f.chance(1, 5) { FaultPhase::Estimate } else { FaultPhase::Check },
            schedule: f.below(n_sched as u64) as u16,
            at_call: 1 + f.below(3 * readers + 1) as u16,
        })
    } else {
        None
    };
    let seq_dirty_kib = if faulty && f.bool() { *f.pick(&[1u16, 16, 64, 255]) } else { 0 };

    // ---- tamper plan (judged on copies; never changes the main verdict)
    let n_tamper = if tier == Tier::Thorough { 6 } else { 3 };
    let len = tx_bytes.len() as u64;
    let n_in = specs.len() as u64;
    let mut tampers = Vec::new();
    for _ in 0..n_tamper {
        let t = match f.weighted(&[6, 2, 4, 2, 2, 2, 2, 1, 1, 2, 1]) {
            0 => Tamper::FlipBit { pos: f.below(len) as u32, bit: f.below(8) as u8 },
            1 => Tamper::SetWord { pos: f.below(len / 8 + 1) as u32 * 8, value: f.word_biased() },
            2 => match preds.is_empty() {
                false => Tamper::PredicateByte { input: f.pick(&preds).input, off: f.below(64) as u32, xor: 1 << f.below(8) },
                true => Tamper::FlipBit { pos: f.below(len) as u32, bit: f.below(8) as u8 },
            },
            3 => match preds.is_empty() {
                false => Tamper::PredicateData { input: f.pick(&preds).input, off: f.below(48) as u32, xor: 1 << f.below(8) },
                true => Tamper::FlipBit { pos: f.below(len) as u32, bit: f.below(8) as u8 },
            },
            4 => Tamper::OutputTo { output: f.below(4) as u16, to: hex::encode(f.bytes32()) },
            5 => Tamper::InputAmount { input: f.below(n_in) as u16, amount: f.word_biased() },
            6 => Tamper::InputOwner { input: f.below(n_in) as u16, owner: hex::encode(f.bytes32()) },
            7 => Tamper::SwapWitnessIndex { a: f.below(n_in) as u16, b: f.below(n_in) as u16 },
            8 => Tamper::SwapWitnesses { a: f.below(slots.len() as u64 + 1) as u16, b: f.below(slots.len() as u64 + 1) as u16 },
            9 => Tamper::BodyByte { off: f.below(40) as u32, xor: 1 << f.below(8) },
            _ => Tamper::MaxFee { value: f.below(5000) },
        };
        tampers.push(t);
    }
    let mut gas_probes = Vec::new();
    let good: Vec<u16> = preds.iter().filter(|p| p.truth && p.owner_ok).map(|p| p.input).collect();
    if !good.is_empty() {
        for _ in 0..2 {
            gas_probes.push(GasProbe {
                input: *f.pick(&good),
                delta: if f.bool() { 1 } else { -1 },
                schedule: f.below(n_sched as u64) as u16,
            });
        }
    }

    Scenario {
        params,
        tx_kind: tx_kind.to_string(),
        tx: hex::encode(tx_bytes),
        preds,
        sigs,
        gas_roomy,
        blobs: blobs.into_iter().map(|(k, v)| (hex::encode(k), hex::encode(v))).collect(),
        h_est,
        h_check,
        schedules,
        blob_fault,
        seq_dirty_kib,
        tampers,
        gas_probes,
        faulty,
    }
}

pub fn set_witnesses(tx: &mut Transaction, ws: Vec<Witness>) {
    use fuel_tx::field::Witnesses;
    match tx {
        Transaction::Script(t) => *t.witnesses_mut() = ws,
        Transaction::Create(t) => *t.witnesses_mut() = ws,
        Transaction::Blob(t) => *t.witnesses_mut() = ws,
        Transaction::Upgrade(t) => *t.witnesses_mut() = ws,
        Transaction::Upload(t) => *t.witnesses_mut() = ws,
        Transaction::Mint(_) => {}
    }
}
