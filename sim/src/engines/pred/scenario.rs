//! Scenario of the `pred` engine: explicit data, nothing is re-derived from a seed at run
//! time. The transaction travels as canonical bytes (hex); the generator's ground truth
//! per input travels next to it; secret keys do not travel at all.

use super::seams::Schedule;
use serde::{Deserialize, Serialize};

#[derive(Debug, Clone, Serialize, Deserialize, PartialEq)]
pub struct ParamSpec {
    pub max_gas_per_predicate: u64,
    pub max_gas_per_tx: u64,
    pub chain_id: u64,
    /// ECAL handler behind the seam: enabled (deterministic function) or "not supported".
    pub ecal_enabled: bool,
}

/// What the generator knows about one predicate input.
#[derive(Debug, Clone, Serialize, Deserialize, PartialEq)]
pub struct PredTruth {
    pub input: u16,
    pub rule: String,
    /// The program returns 1 on this transaction (by construction), well within the gas limits.
    pub truth: bool,
    /// The input's owner is the predicate's address.
    pub owner_ok: bool,
    pub reads_blob: bool,
    pub heavy: bool,
}

/// What the generator knows about one signed input.
#[derive(Debug, Clone, Serialize, Deserialize, PartialEq)]
pub struct SigTruth {
    pub input: u16,
    /// The referenced witness is a signature over the transaction id by the owner's key.
    pub valid: bool,
    pub how: String,
}

#[derive(Debug, Clone, Serialize, Deserialize, PartialEq)]
pub enum FaultPhase {
    /// During parallel checking under schedule `schedule` and during one sequential check.
    Check,
    /// During sequential estimation (observation only, see DESIGN C20 reading note).
    Estimate,
}

#[derive(Debug, Clone, Serialize, Deserialize, PartialEq)]
pub struct BlobFault {
    pub phase: FaultPhase,
    pub schedule: u16,
    /// 1-based index of the blob-store call that fails.
    pub at_call: u16,
}

#[derive(Debug, Clone, Serialize, Deserialize, PartialEq)]
pub enum Tamper {
    /// Flip one bit of the canonical bytes (position taken modulo the length).
    FlipBit { pos: u32, bit: u8 },
    /// Overwrite one 8-byte aligned word.
    SetWord { pos: u32, value: u64 },
    /// XOR a byte of the code of predicate input `input`.
    PredicateByte { input: u16, off: u32, xor: u8 },
    /// XOR a byte of the predicate data of predicate input `input`.
    PredicateData { input: u16, off: u32, xor: u8 },
    /// Redirect output `output` (coin/change/variable) to another address.
    OutputTo { output: u16, to: String },
    /// Change the amount of input `input`.
    InputAmount { input: u16, amount: u64 },
    /// Change the owner/recipient of input `input`.
    InputOwner { input: u16, owner: String },
    /// Exchange the witness indices of two signed inputs.
    SwapWitnessIndex { a: u16, b: u16 },
    /// Exchange two witnesses (not covered by the id).
    SwapWitnesses { a: u16, b: u16 },
    /// Change one byte of the script / salt / blob id (the body).
    BodyByte { off: u32, xor: u8 },
    /// Change the max-fee policy.
    MaxFee { value: u64 },
}

#[derive(Debug, Clone, Serialize, Deserialize, PartialEq)]
pub struct GasProbe {
    pub input: u16,
    /// +1 or -1 on the declared gas.
    pub delta: i8,
    /// Also check in parallel under this schedule.
    pub schedule: u16,
}

#[derive(Debug, Clone, Serialize, Deserialize, PartialEq)]
pub struct Scenario {
    pub params: ParamSpec,
    pub tx_kind: String,
    /// Canonical bytes of the signed, un-estimated transaction.
    pub tx: String,
    pub preds: Vec<PredTruth>,
    pub sigs: Vec<SigTruth>,
    /// `max_gas_per_tx` leaves ample room for all predicates and the declared gas before
    /// estimation is small.
    pub gas_roomy: bool,
    /// Blob store content: (id, bytes) hex.
    pub blobs: Vec<(String, String)>,
    /// Block height used for the reference check and the one used "later".
    pub h_est: u32,
    pub h_check: u32,
    pub schedules: Vec<Schedule>,
    pub blob_fault: Option<BlobFault>,
    /// One sequential check runs on a heap-dirty instance of this many KiB (0 = none).
    pub seq_dirty_kib: u16,
    pub tampers: Vec<Tamper>,
    pub gas_probes: Vec<GasProbe>,
    /// False for the fault-free third (no blob error, fresh memory, no height move).
    pub faulty: bool,
}
