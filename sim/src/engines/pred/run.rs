//! Execution of one `pred` scenario against the real checking code, and the C20 oracles.
//! Pure function of (scenario, code under test): no PRNG, no clock, no threads.

use super::generate::consensus_params;
use super::grammar;
use super::scenario::*;
use super::seams::{self, Borrowed, SimBlobs, SimEcal, SimExecutor, SimPool, block_on};
use crate::kernel::RunCtx;
use fuel_crypto::{Message, Signature};
use fuel_tx::field::{Inputs, Outputs, Witnesses};
use fuel_tx::{ConsensusParameters, FormatValidityChecks, Input, Output, Transaction, UniqueIdentifier};
use fuel_types::canonical::{Deserialize as _, Serialize as _};
use fuel_types::{Address, BlockHeight, ChainId};
use fuel_vm::checked_transaction::{
    CheckError, CheckPredicateParams, CheckPredicates, Checked, Checks, EstimatePredicates, IntoChecked,
};
use fuel_vm::error::PredicateVerificationFailed as Pvf;
use fuel_vm::interpreter::{CheckedMetadata, ExecutableTransaction, MemoryInstance};
use fuel_vm::prelude::predicates;
use std::collections::BTreeMap;

const POLL_CAP: u32 = 10_000;

pub struct Env {
    pub cp: ConsensusParameters,
    pub params: CheckPredicateParams,
    pub chain_id: ChainId,
    pub blobs: SimBlobs,
    pub ecal: SimEcal,
}

/// Verdict of a predicate check: Ok(total gas) or Err(short error name, input index).
type Verdict = Result<u64, (String, Option<usize>)>;

fn pvf_name(e: &Pvf) -> (String, Option<usize>) {
    match e {
        Pvf::GasMismatch { index } => ("GasMismatch".into(), Some(*index)),
        Pvf::OutOfGas { index } => ("OutOfGas".into(), Some(*index)),
        Pvf::InvalidOwner { index } => ("InvalidOwner".into(), Some(*index)),
        Pvf::False { index } => ("False".into(), Some(*index)),
        Pvf::GasNotSpecified { index } => ("GasNotSpecified".into(), Some(*index)),
        Pvf::TransactionExceedsTotalGasAllowance(_) => ("TransactionExceedsTotalGasAllowance".into(), None),
        Pvf::GasOverflow => ("GasOverflow".into(), None),
        Pvf::Bug(b) => (format!("Bug({b:?})"), None),
        Pvf::PanicInstruction { index, instruction } => (format!("Panic({:?})", instruction.reason()), Some(*index)),
        Pvf::Panic { index, reason } => (format!("Panic({reason:?})"), Some(*index)),
        Pvf::Storage { index } => ("Storage".into(), Some(*index)),
    }
}

fn verdict_code(v: &Verdict) -> u64 {
    match v {
        Ok(g) => *g << 1,
        Err(_) => 1,
    }
}

fn show(v: &Verdict) -> String {
    match v {
        Ok(g) => format!("Ok(gas {g})"),
        Err((n, i)) => format!("Err({n} @ input {i:?})"),
    }
}

pub fn tx_inputs(tx: &Transaction) -> &[Input] {
    match tx {
        Transaction::Script(t) => t.inputs(),
        Transaction::Create(t) => t.inputs(),
        Transaction::Upgrade(t) => t.inputs(),
        Transaction::Upload(t) => t.inputs(),
        Transaction::Blob(t) => t.inputs(),
        Transaction::Mint(_) => &[],
    }
}

macro_rules! each_chargeable {
    ($tx:expr, $t:ident => $body:expr, $mint:expr) => {
        match $tx {
            Transaction::Script($t) => $body,
            Transaction::Create($t) => $body,
            Transaction::Upgrade($t) => $body,
            Transaction::Upload($t) => $body,
            Transaction::Blob($t) => $body,
            Transaction::Mint(_) => $mint,
        }
    };
}

/// Heap-dirty instance: the real interpreter runs a heap-hungry predicate on it.
fn make_dirty(kib: u16) -> MemoryInstance {
    let code = grammar::dirtier_program(kib);
    let owner = Input::predicate_owner(&code);
    let input = Input::coin_predicate(Default::default(), owner, 1, Default::default(), Default::default(), 0, code, vec![]);
    let mut tx = Transaction::script(0, vec![], vec![], fuel_tx::policies::Policies::new().with_max_fee(0), vec![input], vec![], vec![]);
    let params = CheckPredicateParams::from(&ConsensusParameters::standard());
    let mut m = MemoryInstance::new();
    let _ = tx.estimate_predicates(&params, Borrowed(&mut m), &fuel_vm::storage::predicate::EmptyStorage);
    m
}

pub fn run(sc: &Scenario, ctx: &mut RunCtx) {
    seams::reset_all();
    seams::set_dirtier(make_dirty);
    let Ok(bytes) = hex::decode(&sc.tx) else {
        ctx.event("undecodable-hex", 0, 0);
        return;
    };
    let tx = match Transaction::from_bytes(&bytes) {
        Ok(t) => t,
        Err(_) => {
            ctx.event("undecodable-tx", bytes.len() as u64, 0);
            return;
        }
    };
    let cp = consensus_params(&sc.params);
    let mut blobs = BTreeMap::new();
    for (k, v) in &sc.blobs {
        if let (Ok(k), Ok(v)) = (hex::decode(k), hex::decode(v)) {
            if let Ok(k) = <[u8; 32]>::try_from(k.as_slice()) {
                blobs.insert(k, v);
            }
        }
    }
    let env = Env {
        params: CheckPredicateParams::from(&cp),
        chain_id: cp.chain_id(),
        cp,
        blobs: SimBlobs::new(blobs),
        ecal: SimEcal { enabled: sc.params.ecal_enabled },
    };
    ctx.stats.inc("time.transactions");
    match tx {
        Transaction::Script(t) => run_tx(t, sc, &env, ctx),
        Transaction::Create(t) => run_tx(t, sc, &env, ctx),
        Transaction::Blob(t) => run_tx(t, sc, &env, ctx),
        Transaction::Upgrade(t) => run_tx(t, sc, &env, ctx),
        Transaction::Upload(t) => run_tx(t, sc, &env, ctx),
        Transaction::Mint(_) => ctx.event("mint", 0, 0),
    }
    seams::reset_all();
}

fn pred_gas<Tx: Inputs>(tx: &Tx) -> Vec<(usize, u64)> {
    tx.inputs().iter().enumerate().filter_map(|(i, inp)| inp.predicate_gas_used().map(|g| (i, g))).collect()
}

fn seq_check<Tx>(c: &Checked<Tx>, env: &Env, mem: impl fuel_vm::interpreter::Memory) -> Verdict
where
    Tx: ExecutableTransaction,
    <Tx as IntoChecked>::Metadata: CheckedMetadata,
{
    predicates::check_predicates(c, &env.params, mem, &env.blobs, env.ecal).map(|p| p.gas_used()).map_err(|e| pvf_name(&e))
}

/// Parallel check under the installed schedule. None = the future never completed.
fn par_check<Tx>(c: &Checked<Tx>, env: &Env) -> Option<(Verdict, u32)>
where
    Tx: ExecutableTransaction + Send + 'static,
    <Tx as IntoChecked>::Metadata: CheckedMetadata,
{
    let fut = predicates::check_predicates_async::<Tx, SimEcal, SimExecutor>(c, &env.params, &SimPool, &env.blobs, env.ecal);
    block_on(fut, POLL_CAP).map(|(r, p)| (r.map(|p| p.gas_used()).map_err(|e| pvf_name(&e)), p))
}

fn emit_blob_log(env: &Env, ctx: &mut RunCtx) {
    for c in env.blobs.take_log() {
        ctx.stats.inc("time.blob_calls");
        ctx.event("blob-call", c.key8, ((c.ok as u64) << 1) | c.found as u64);
        ctx.note(|| format!("  blob store: {} key {:016x}.. -> {}", c.method, c.key8, if !c.ok { "IO ERROR" } else if c.found { "found" } else { "absent" }));
    }
}

fn recover_owner(witness: &[u8], id: &[u8; 32]) -> Option<Address> {
    let bytes = <[u8; 64]>::try_from(witness).ok()?;
    let pk = Signature::from_bytes(bytes).recover(&Message::from_bytes(*id)).ok()?;
    Some(Input::owner(&pk))
}

fn run_tx<Tx>(tx0: Tx, sc: &Scenario, env: &Env, ctx: &mut RunCtx)
where
    Tx: ExecutableTransaction + Send + Sync + 'static + PartialEq + core::fmt::Debug,
    <Tx as IntoChecked>::Metadata: CheckedMetadata + Send + Sync + Clone,
    Checked<Tx>: CheckPredicates,
    Transaction: From<Tx>,
{
    let h_est = BlockHeight::from(sc.h_est);
    let h_check = BlockHeight::from(sc.h_check);
    let n_inputs = tx0.inputs().len();
    let n_preds = tx0.inputs().iter().filter(|i| i.input_predicate().is_some()).count();
    let n_signed = tx0.inputs().iter().filter(|i| i.witness_index().is_some()).count();
    ctx.event("tx", n_inputs as u64, ((n_preds as u64) << 8) | n_signed as u64);

    // ---- ground truth carried by the scenario
    let truth_covers = sc.preds.len() == n_preds
        && sc.sigs.len() == n_signed
        && sc.preds.iter().all(|p| tx0.inputs().get(p.input as usize).is_some_and(|i| i.input_predicate().is_some()))
        && sc.sigs.iter().all(|s| tx0.inputs().get(s.input as usize).is_some_and(|i| i.witness_index().is_some()));
    if !truth_covers {
        // a hand-edited scenario: nothing can be expected, only cross-checked
        ctx.stats.inc("probe.truth_missing");
    }
    let preds_true = sc.preds.iter().all(|p| p.truth && p.owner_ok);
    let sigs_valid = sc.sigs.iter().all(|s| s.valid);
    let expect_accept = truth_covers && preds_true && sigs_valid && sc.gas_roomy;
    let pred_must_fail = truth_covers && !preds_true;
    let sig_must_fail = truth_covers && !sigs_valid;

    // ---- O1a: sequential estimation on fresh memory
    let mut tx_seq = tx0.clone();
    env.blobs.arm(0);
    let est = tx_seq.estimate_predicates_ecal(&env.params, MemoryInstance::new(), &env.blobs, env.ecal);
    emit_blob_log(env, ctx);
    let gases = pred_gas(&tx_seq);
    ctx.event("estimate-seq", est.is_ok() as u64, gases.iter().fold(0u64, |a, (i, g)| a.wrapping_mul(1_000_003).wrapping_add(*g ^ (*i as u64) << 48)));
    ctx.note(|| format!("sequential estimation: {:?}; gas per predicate input {:?}", est.as_ref().map_err(|e| format!("{e:?}")), gases));
    ctx.stats.add("time.predicate_runs", n_preds as u64);
    if expect_accept {
        if let Err(e) = &est {
            if ctx.violate(
                "estimate-ok",
                "estimate-ok:sequential",
                format!("sequential estimate_predicates failed with {e:?} on a transaction whose predicates are all true by construction ({:?})", rules(sc)),
            ) {
                return;
            }
        }
    }
    let distinct_gas = {
        let mut g: Vec<u64> = gases.iter().map(|x| x.1).collect();
        g.sort();
        g.dedup();
        g.len() >= 2
    };

    // ---- O1b: basic -> signatures -> predicates on the estimated transaction (sequential, fresh)
    let c0 = match tx_seq.clone().into_checked_basic(h_check, &env.cp) {
        Ok(c) => c,
        Err(e) => {
            ctx.event("basic-rejected", 0, 0);
            ctx.note(|| format!("into_checked_basic rejected the transaction: {e:?}"));
            ctx.stats.inc("probe.basic_rejected");
            if expect_accept {
                ctx.violate(
                    "estimate-verify",
                    "estimate-verify:basic-rejected",
                    format!("into_checked_basic({}) rejected the estimated all-true transaction: {e:?}", sc.h_check),
                );
            }
            // Rejected is a safe verdict for every other clause; tampering needs an accepted transaction.
            return;
        }
    };
    let id: [u8; 32] = *c0.id();
    env.blobs.arm(0);
    let seq = seq_check(&c0, env, MemoryInstance::new());
    emit_blob_log(env, ctx);
    ctx.stats.add("time.predicate_runs", n_preds as u64);
    let sig = c0.clone().check_signatures(&env.chain_id);
    ctx.stats.add("time.signature_checks", n_signed as u64);
    let accepted = sig.is_ok() && seq.is_ok();
    ctx.event("verify-seq", verdict_code(&seq), sig.is_ok() as u64);
    ctx.note(|| format!("sequential check_predicates: {}; check_signatures: {:?}", show(&seq), sig.as_ref().map(|_| "Ok").map_err(|e| format!("{e:?}"))));
    if accepted {
        ctx.stats.inc("probe.accepted");
    } else {
        ctx.stats.inc("probe.rejected");
    }

    if expect_accept {
        if let Err(e) = &sig {
            if ctx.violate("estimate-verify", "estimate-verify:signatures", format!("check_signatures rejected validly signed inputs: {e:?}")) {
                return;
            }
        }
        match &seq {
            Err((name, idx)) => {
                if ctx.violate(
                    "estimate-verify",
                    &format!("estimate-verify:{name}"),
                    format!(
                        "estimation returned {:?} with gas {:?}, but check_predicates on the estimated transaction fails with {name} at input {idx:?}; all predicates are true by construction ({:?})",
                        est.as_ref().map_err(|e| format!("{e:?}")),
                        gases,
                        rules(sc)
                    ),
                ) {
                    return;
                }
            }
            Ok(g) => {
                let declared: u64 = gases.iter().map(|x| x.1).sum();
                if *g != declared {
                    if ctx.violate(
                        "gas-total",
                        "gas-total:sequential",
                        format!("check_predicates reports gas_used {g} but the declared predicate gas sums to {declared} ({gases:?})"),
                    ) {
                        return;
                    }
                }
            }
        }
    }
    if truth_covers && preds_true && sigs_valid && !sc.gas_roomy && est.is_ok() && seq.is_err() {
        // outside the asserted precondition (gas room); counted so that the reach is visible
        if tx0.inputs().iter().any(|i| i.predicate_gas_used().is_some_and(|g| g > 1_000_000)) {
            ctx.stats.inc("probe.estimate_ok_verify_fails_stale_declared_gas");
        } else {
            ctx.stats.inc("probe.estimate_ok_verify_fails_tight_tx_gas");
        }
    }
    if pred_must_fail && seq.is_ok() {
        let bad: Vec<String> = sc.preds.iter().filter(|p| !(p.truth && p.owner_ok)).map(|p| format!("input {} rule {} owner_ok {}", p.input, p.rule, p.owner_ok)).collect();
        if ctx.violate(
            "unauthorized-accepted",
            "unauthorized-accepted:predicate",
            format!("check_predicates accepted ({}) a transaction with predicates that cannot be true / owned: {bad:?}", show(&seq)),
        ) {
            return;
        }
    }
    if sig_must_fail && sig.is_ok() {
        let bad: Vec<String> = sc.sigs.iter().filter(|s| !s.valid).map(|s| format!("input {} ({})", s.input, s.how)).collect();
        if ctx.violate(
            "unauthorized-accepted",
            "unauthorized-accepted:signature",
            format!("check_signatures accepted a transaction with wrongly authorised signed inputs: {bad:?}"),
        ) {
            return;
        }
    }

    // ---- trait-level pipeline: the `Checked` value with all three checks
    let full: Option<Checked<Tx>> = match sig {
        Ok(c) => {
            env.blobs.arm(0);
            let r = c.check_predicates(&env.params, MemoryInstance::new(), &env.blobs, env.ecal);
            let _ = env.blobs.take_log();
            ctx.stats.add("time.predicate_runs", n_preds as u64);
            match r {
                Ok(c) => {
                    if !seq.is_ok() || !c.checks().contains(Checks::all()) {
                        if ctx.violate(
                            "seq-par-verdict",
                            "seq-par-verdict:api-levels",
                            format!("Checked::check_predicates returned Ok (checks {:?}) but predicates::check_predicates returned {}", c.checks(), show(&seq)),
                        ) {
                            return;
                        }
                    }
                    Some(c)
                }
                Err(e) => {
                    if seq.is_ok() {
                        if ctx.violate(
                            "seq-par-verdict",
                            "seq-par-verdict:api-levels",
                            format!("Checked::check_predicates failed with {e:?} but predicates::check_predicates returned {}", show(&seq)),
                        ) {
                            return;
                        }
                    }
                    None
                }
            }
        }
        Err(_) => None,
    };

    // ---- O3: authorization of everything inside a fully checked transaction
    if let Some(c) = &full {
        let t = c.transaction();
        for (i, inp) in t.inputs().iter().enumerate() {
            if let Some(w) = inp.witness_index() {
                let owner = inp.input_owner().copied().unwrap_or_default();
                let rec = t.witnesses().get(w as usize).and_then(|w| recover_owner(w.as_ref(), &id));
                ctx.stats.inc("time.signature_checks");
                if rec != Some(owner) {
                    if ctx.violate(
                        "authorization",
                        "authorization:signed-input",
                        format!(
                            "fully checked transaction {}: signed input {i} has owner {owner} but witness {w} recovers to {:?} over the id",
                            hex::encode(id),
                            rec.map(|a| a.to_string())
                        ),
                    ) {
                        return;
                    }
                }
            } else if let Some(code) = inp.input_predicate() {
                let owner = inp.input_owner().copied().unwrap_or_default();
                if owner != Input::predicate_owner(code) {
                    if ctx.violate(
                        "authorization",
                        "authorization:predicate-owner",
                        format!("fully checked transaction: predicate input {i} has owner {owner} but its code hashes to {}", Input::predicate_owner(code)),
                    ) {
                        return;
                    }
                }
            }
        }
    }

    // ---- clock: a check prepared at the other height gives the same predicate verdict
    if sc.h_est != sc.h_check {
        if let Ok(c_other) = tx_seq.clone().into_checked_basic(h_est, &env.cp) {
            env.blobs.arm(0);
            let v = seq_check(&c_other, env, MemoryInstance::new());
            let _ = env.blobs.take_log();
            ctx.stats.inc("fault.clock_jump");
            ctx.stats.add("time.heights", (sc.h_est as i64 - sc.h_check as i64).unsigned_abs());
            ctx.event("verify-other-height", verdict_code(&v), sc.h_est as u64);
            if v.is_ok() != seq.is_ok() || (v.is_ok() && v != seq) {
                if ctx.violate(
                    "height-independent",
                    "height-independent:sequential",
                    format!("predicate verdict at height {} is {} but at height {} it is {}", sc.h_check, show(&seq), sc.h_est, show(&v)),
                ) {
                    return;
                }
            }
        }
    }

    // ---- dirty memory handed to the sequential checker
    if sc.seq_dirty_kib > 0 {
        let mut m = make_dirty(sc.seq_dirty_kib);
        env.blobs.arm(0);
        let v = seq_check(&c0, env, Borrowed(&mut m));
        let _ = env.blobs.take_log();
        ctx.stats.inc("fault.dirty_memory_sequential");
        ctx.stats.add("time.predicate_runs", n_preds as u64);
        ctx.event("verify-seq-dirty", verdict_code(&v), sc.seq_dirty_kib as u64);
        if v.is_ok() != seq.is_ok() || (v.is_ok() && v != seq) {
            if ctx.violate(
                "seq-par-verdict",
                "seq-par-verdict:dirty-sequential",
                format!("sequential check on fresh memory: {}; on an instance a heap-hungry predicate used before: {}", show(&seq), show(&v)),
            ) {
                return;
            }
        }
    }

    // ---- O2 (+ O6): every schedule of the parallel checker against the sequential verdict
    let readers: Vec<usize> = sc.preds.iter().filter(|p| p.reads_blob).map(|p| p.input as usize).collect();
    let mut saw_dirty = false;
    let mut saw_reorder = false;
    for (si, sched) in sc.schedules.iter().enumerate() {
        // async estimation under this schedule (O1: "and async under any schedule")
        if si % 2 == 0 || sc.schedules.len() <= 2 {
            seams::install(sched);
            env.blobs.arm(0);
            let mut tx_a = tx0.clone();
            let r = block_on(tx_a.estimate_predicates_async_ecal::<SimEcal, SimExecutor>(&env.params, &SimPool, &env.blobs, env.ecal), POLL_CAP);
            let _ = env.blobs.take_log();
            let log = seams::take_log();
            ctx.stats.add("time.predicate_runs", log.tasks as u64);
            let Some((r, _)) = r else {
                ctx.violate("liveness", "liveness:estimate-async", format!("schedule {si}: estimate_predicates_async still pending after {POLL_CAP} polls"));
                return;
            };
            ctx.event("estimate-par", si as u64, r.is_ok() as u64);
            ctx.note(|| format!("schedule {si}: parallel estimation {:?}; gas per predicate input {:?}", r.as_ref().map_err(|e| format!("{e:?}")), pred_gas(&tx_a)));
            if expect_accept {
                if let Err(e) = &r {
                    if ctx.violate("estimate-ok", "estimate-ok:parallel", format!("schedule {si}: estimate_predicates_async failed with {e:?} on an all-true transaction")) {
                        return;
                    }
                }
                if r.is_ok() && tx_a != tx_seq {
                    // a different estimate is allowed only if it verifies as well
                    ctx.stats.inc("probe.estimate_par_differs");
                    let v = match tx_a.clone().into_checked_basic(h_check, &env.cp) {
                        Ok(c) => seq_check(&c, env, MemoryInstance::new()),
                        Err(e) => Err((format!("{e:?}"), None)),
                    };
                    let _ = env.blobs.take_log();
                    if let Err((name, idx)) = &v {
                        if ctx.violate(
                            "estimate-verify",
                            &format!("estimate-verify:parallel:{name}"),
                            format!(
                                "schedule {si} (start order {:?}, result order {:?}): parallel estimation produced gas {:?} (sequential: {:?}); verification of it fails with {name} at input {idx:?}",
                                log.start_order,
                                log.result_order,
                                pred_gas(&tx_a),
                                gases
                            ),
                        ) {
                            return;
                        }
                    }
                }
            }
        }

        // parallel check
        seams::install(sched);
        let fault_here = matches!(&sc.blob_fault, Some(BlobFault { phase: FaultPhase::Check, schedule, .. }) if *schedule as usize == si);
        env.blobs.arm(if fault_here { sc.blob_fault.as_ref().map(|f| f.at_call as u64).unwrap_or(0) } else { 0 });
        let r = par_check(&c0, env);
        let fired = env.blobs.fired() > 0;
        emit_blob_log(env, ctx);
        let log = seams::take_log();
        ctx.stats.add("time.predicate_runs", log.tasks as u64);
        ctx.stats.inc("time.schedules");
        let Some((v, polls)) = r else {
            ctx.violate("liveness", "liveness:check-async", format!("schedule {si}: check_predicates_async still pending after {POLL_CAP} polls"));
            return;
        };
        let reordered = log.result_order.windows(2).any(|w| w[0] > w[1]);
        let start_reordered = log.start_order.windows(2).any(|w| w[0] > w[1]);
        if log.dirty_handouts > 0 {
            ctx.stats.add("fault.dirty_memory", log.dirty_handouts as u64);
            ctx.stats.inc("probe.dirty_handout");
            saw_dirty = true;
        }
        if log.reused_handouts > 0 {
            ctx.stats.add("probe.reused_instance_handout", log.reused_handouts as u64);
        }
        if reordered {
            ctx.stats.inc("fault.result_order");
            ctx.stats.inc("probe.result_order_differs");
            saw_reorder = true;
        }
        if start_reordered {
            ctx.stats.inc("fault.task_order");
        }
        if log.pool_pendings > 0 {
            ctx.stats.add("fault.pool_pending", log.pool_pendings as u64);
        }
        ctx.event("verify-par", ((si as u64) << 32) | order_code(&log.start_order) << 16 | order_code(&log.result_order), verdict_code(&v));
        ctx.note(|| {
            format!(
                "schedule {si}: start {:?} results {:?} handouts {} (dirty {}, reused {}) pending polls {} -> {}{}",
                log.start_order,
                log.result_order,
                log.handouts,
                log.dirty_handouts,
                log.reused_handouts,
                polls,
                show(&v),
                if fired { "  [blob store error fired]" } else { "" }
            )
        });
        if fired {
            ctx.stats.inc("fault.io_error_read");
            if judge_blob_fault(&v, &seq, &readers, &format!("schedule {si} (parallel)"), ctx) {
                return;
            }
        } else {
            if v.is_ok() != seq.is_ok() {
                if ctx.violate(
                    "seq-par-verdict",
                    "seq-par-verdict:verdict",
                    format!(
                        "schedule {si}: start order {:?}, result order {:?}, {} dirty hand-outs: parallel {} but sequential {}",
                        log.start_order,
                        log.result_order,
                        log.dirty_handouts,
                        show(&v),
                        show(&seq)
                    ),
                ) {
                    return;
                }
            }
            if let (Ok(a), Ok(b)) = (&v, &seq) {
                if a != b {
                    if ctx.violate(
                        "seq-par-gas",
                        "seq-par-gas:total",
                        format!("schedule {si}: result order {:?}: parallel gas_used {a} but sequential {b} (declared {gases:?})", log.result_order),
                    ) {
                        return;
                    }
                }
            }
        }
        if fault_here {
            // the same fault against the sequential checker
            env.blobs.arm(sc.blob_fault.as_ref().map(|f| f.at_call as u64).unwrap_or(0));
            let v = seq_check(&c0, env, MemoryInstance::new());
            let fired = env.blobs.fired() > 0;
            emit_blob_log(env, ctx);
            ctx.event("verify-seq-fault", verdict_code(&v), fired as u64);
            if fired {
                ctx.stats.inc("fault.io_error_read");
                if judge_blob_fault(&v, &seq, &readers, "sequential", ctx) {
                    return;
                }
            }
        }
    }

    // ---- blob-store error during estimation: observation only (reading note of DESIGN C20)
    if let Some(BlobFault { phase: FaultPhase::Estimate, at_call, .. }) = &sc.blob_fault {
        env.blobs.arm(*at_call as u64);
        let mut t = tx0.clone();
        let r = t.estimate_predicates_ecal(&env.params, MemoryInstance::new(), &env.blobs, env.ecal);
        let fired = env.blobs.fired() > 0;
        emit_blob_log(env, ctx);
        ctx.event("estimate-fault", r.is_ok() as u64, fired as u64);
        if fired {
            ctx.stats.inc("fault.io_error_read_estimation");
            if r.is_ok() {
                ctx.stats.inc("probe.estimate_ok_despite_storage_error");
                // whatever estimation said: the truncated estimate must not verify unless it is right
                if let Ok(c) = t.clone().into_checked_basic(h_check, &env.cp) {
                    env.blobs.arm(0);
                    let v = seq_check(&c, env, MemoryInstance::new());
                    let _ = env.blobs.take_log();
                    ctx.event("verify-after-faulted-estimate", verdict_code(&v), 0);
                    if v.is_ok() && t != tx_seq {
                        if ctx.violate(
                            "exact-gas",
                            "exact-gas:faulted-estimate",
                            format!("an estimate cut short by a storage error ({:?} vs {:?}) verifies", pred_gas(&t), gases),
                        ) {
                            return;
                        }
                    }
                }
            }
        }
    }
    env.blobs.arm(0);

    // ---- O4: exact gas
    if seq.is_ok() {
        for gp in &sc.gas_probes {
            let i = gp.input as usize;
            let Some(g) = tx_seq.inputs().get(i).and_then(|x| x.predicate_gas_used()) else { continue };
            let Some(ng) = (if gp.delta >= 0 { g.checked_add(1) } else { g.checked_sub(1) }) else { continue };
            let mut t = tx_seq.clone();
            t.inputs_mut()[i].set_predicate_gas_used(ng);
            ctx.stats.inc("fault.gas_exhaustion");
            let c = match t.into_checked_basic(h_check, &env.cp) {
                Ok(c) => c,
                Err(_) => {
                    ctx.event("gas-probe-basic-rejected", i as u64, ng);
                    continue;
                }
            };
            let v = seq_check(&c, env, MemoryInstance::new());
            let _ = env.blobs.take_log();
            ctx.stats.add("time.predicate_runs", n_preds as u64);
            ctx.event("gas-probe-seq", ((i as u64) << 8) | (gp.delta as u8) as u64, verdict_code(&v));
            if v.is_ok() {
                if ctx.violate(
                    "exact-gas",
                    "exact-gas:sequential",
                    format!("predicate input {i} needs {g} gas; declared {ng} ({:+}) was accepted by check_predicates: {}", gp.delta, show(&v)),
                ) {
                    return;
                }
            }
            // The same over-declared input on a chain whose per-predicate limit is exactly what the
            // predicate needs: the limit must not turn the mismatch into a match.
            if gp.delta > 0 {
                let mut tight = env.params.clone();
                tight.max_gas_per_predicate = g;
                let v2: Verdict = predicates::check_predicates(&c, &tight, MemoryInstance::new(), &env.blobs, env.ecal).map(|p| p.gas_used()).map_err(|e| pvf_name(&e));
                let _ = env.blobs.take_log();
                ctx.event("gas-probe-tight-limit", i as u64, verdict_code(&v2));
                if v2.is_ok() {
                    if ctx.violate(
                        "exact-gas",
                        "exact-gas:per-predicate-limit",
                        format!("predicate input {i} needs {g} gas; declared {ng} was accepted by check_predicates when max_gas_per_predicate = {g}: {}", show(&v2)),
                    ) {
                        return;
                    }
                }
            }
            if let Some(sched) = sc.schedules.get(gp.schedule as usize) {
                seams::install(sched);
                let r = par_check(&c, env);
                let _ = env.blobs.take_log();
                let log = seams::take_log();
                ctx.stats.add("time.predicate_runs", log.tasks as u64);
                let Some((v, _)) = r else {
                    ctx.violate("liveness", "liveness:check-async", "gas probe: check_predicates_async never completed".into());
                    return;
                };
                ctx.event("gas-probe-par", i as u64, verdict_code(&v));
                if v.is_ok() {
                    if ctx.violate(
                        "exact-gas",
                        "exact-gas:parallel",
                        format!(
                            "predicate input {i} needs {g} gas; declared {ng} ({:+}) was accepted by check_predicates_async (result order {:?}): {}",
                            gp.delta,
                            log.result_order,
                            show(&v)
                        ),
                    ) {
                        return;
                    }
                }
            }
        }
    }

    // ---- O5: tampering in transit after acceptance
    if let Some(c) = &full {
        let accepted_tx: Transaction = c.transaction().clone().into();
        for (ti, t) in sc.tampers.iter().enumerate() {
            if judge_tamper(ti, t, &accepted_tx, &id, env, h_check, ctx) {
                return;
            }
        }
    }

    if distinct_gas && saw_dirty && saw_reorder {
        ctx.nontrivial = true;
    }
}

fn rules(sc: &Scenario) -> Vec<String> {
    sc.preds.iter().map(|p| format!("{}:{}", p.input, p.rule)).collect()
}

fn order_code(o: &[usize]) -> u64 {
    o.iter().fold(0u64, |a, x| (a.wrapping_mul(7).wrapping_add(*x as u64 + 1)) & 0xffff)
}

/// O6. Returns true when the run must stop.
fn judge_blob_fault(v: &Verdict, seq: &Verdict, readers: &[usize], place: &str, ctx: &mut RunCtx) -> bool {
    match v {
        Ok(_) => ctx.violate(
            "storage-error-surfaced",
            "storage-error-surfaced:accepted",
            format!("{place}: a blob-store call failed with an I/O error but the predicates were accepted: {}", show(v)),
        ),
        Err((name, idx)) => {
            // When nothing else can fail, the error must be the storage error of a blob-reading predicate.
            if seq.is_ok() && !(name == "Storage" && idx.is_some_and(|i| readers.contains(&i))) {
                return ctx.violate(
                    "storage-error-surfaced",
                    "storage-error-surfaced:kind",
                    format!("{place}: a blob-store call failed with an I/O error; the only possible failure surfaced as {name} at input {idx:?} (blob-reading inputs {readers:?})"),
                );
            }
            false
        }
    }
}

fn set_input_owner(inp: &mut Input, a: Address) {
    match inp {
        Input::CoinSigned(c) => c.owner = a,
        Input::CoinPredicate(c) => c.owner = a,
        Input::MessageCoinSigned(m) => m.recipient = a,
        Input::MessageCoinPredicate(m) => m.recipient = a,
        Input::MessageDataSigned(m) => m.recipient = a,
        Input::MessageDataPredicate(m) => m.recipient = a,
        Input::Contract(_) => {}
    }
}

fn set_input_amount(inp: &mut Input, v: u64) {
    match inp {
        Input::CoinSigned(c) => c.amount = v,
        Input::CoinPredicate(c) => c.amount = v,
        Input::MessageCoinSigned(m) => m.amount = v,
        Input::MessageCoinPredicate(m) => m.amount = v,
        Input::MessageDataSigned(m) => m.amount = v,
        Input::MessageDataPredicate(m) => m.amount = v,
        Input::Contract(_) => {}
    }
}

fn set_witness_index(inp: &mut Input, w: u16) {
    match inp {
        Input::CoinSigned(c) => c.witness_index = w,
        Input::MessageCoinSigned(m) => m.witness_index = w,
        Input::MessageDataSigned(m) => m.witness_index = w,
        _ => {}
    }
}

fn predicate_code_mut(inp: &mut Input) -> Option<&mut Vec<u8>> {
    match inp {
        Input::CoinPredicate(c) => Some(&mut *c.predicate),
        Input::MessageCoinPredicate(m) => Some(&mut *m.predicate),
        Input::MessageDataPredicate(m) => Some(&mut *m.predicate),
        _ => None,
    }
}

fn predicate_data_mut(inp: &mut Input) -> Option<&mut Vec<u8>> {
    match inp {
        Input::CoinPredicate(c) => Some(&mut *c.predicate_data),
        Input::MessageCoinPredicate(m) => Some(&mut *m.predicate_data),
        Input::MessageDataPredicate(m) => Some(&mut *m.predicate_data),
        _ => None,
    }
}

/// Apply a tamper to the canonical bytes (typed rewrites go through decode → edit → encode,
/// which is what an attacker on the wire would produce). None = not applicable.
fn apply_tamper(t: &Tamper, tx: &Transaction, bytes: &[u8]) -> Option<Vec<u8>> {
    let mut out = bytes.to_vec();
    if out.is_empty() {
        return None;
    }
    match t {
        Tamper::FlipBit { pos, bit } => {
            let p = *pos as usize % out.len();
            out[p] ^= 1 << (bit % 8);
            return Some(out);
        }
        Tamper::SetWord { pos, value } => {
            let p = (*pos as usize % out.len()) & !7;
            let end = (p + 8).min(out.len());
            out[p..end].copy_from_slice(&value.to_be_bytes()[..end - p]);
            return Some(out);
        }
        _ => {}
    }
    let mut tx = tx.clone();
    let applied = edit_typed(t, &mut tx);
    if let Tamper::BodyByte { off, xor } = t {
        // the body sits right after the 8-byte discriminant
        let p = 8 + (*off as usize % out.len().saturating_sub(8).max(1));
        if p < out.len() && *xor != 0 {
            out[p] ^= *xor;
            return Some(out);
        }
        return None;
    }
    if applied { Some(tx.to_bytes()) } else { None }
}

/// The typed rewrites, applied to the value in place (whatever cache it carries stays).
fn edit_typed(t: &Tamper, tx: &mut Transaction) -> bool {
    let mut applied = false;
    each_chargeable!(tx, x => {
        match t {
            Tamper::PredicateByte { input, off, xor } => {
                if let Some(code) = x.inputs_mut().get_mut(*input as usize).and_then(predicate_code_mut) {
                    if !code.is_empty() && *xor != 0 {
                        let p = *off as usize % code.len();
                        code[p] ^= *xor;
                        applied = true;
                    }
                }
            }
            Tamper::PredicateData { input, off, xor } => {
                if let Some(d) = x.inputs_mut().get_mut(*input as usize).and_then(predicate_data_mut) {
                    if !d.is_empty() && *xor != 0 {
                        let p = *off as usize % d.len();
                        d[p] ^= *xor;
                        applied = true;
                    }
                }
            }
            Tamper::OutputTo { output, to } => {
                let n = x.outputs().len();
                if n > 0 {
                    if let Ok(a) = hex::decode(to).map_err(|_| ()).and_then(|b| <[u8; 32]>::try_from(b.as_slice()).map_err(|_| ())) {
                        match &mut x.outputs_mut()[*output as usize % n] {
                            Output::Coin { to, .. } | Output::Change { to, .. } | Output::Variable { to, .. } => {
                                *to = Address::from(a);
                                applied = true;
                            }
                            _ => {}
                        }
                    }
                }
            }
            Tamper::InputAmount { input, amount } => {
                if let Some(i) = x.inputs_mut().get_mut(*input as usize) {
                    set_input_amount(i, *amount);
                    applied = true;
                }
            }
            Tamper::InputOwner { input, owner } => {
                if let Some(i) = x.inputs_mut().get_mut(*input as usize) {
                    if let Ok(a) = hex::decode(owner).map_err(|_| ()).and_then(|b| <[u8; 32]>::try_from(b.as_slice()).map_err(|_| ())) {
                        set_input_owner(i, Address::from(a));
                        applied = true;
                    }
                }
            }
            Tamper::SwapWitnessIndex { a, b } => {
                let wa = x.inputs().get(*a as usize).and_then(|i| i.witness_index());
                let wb = x.inputs().get(*b as usize).and_then(|i| i.witness_index());
                if let (Some(wa), Some(wb)) = (wa, wb) {
                    if wa != wb {
                        set_witness_index(&mut x.inputs_mut()[*a as usize], wb);
                        set_witness_index(&mut x.inputs_mut()[*b as usize], wa);
                        applied = true;
                    }
                }
            }
            Tamper::SwapWitnesses { a, b } => {
                let n = x.witnesses().len();
                if n >= 2 {
                    let (a, b) = (*a as usize % n, *b as usize % n);
                    if a != b {
                        x.witnesses_mut().swap(a, b);
                        applied = true;
                    }
                }
            }
            Tamper::MaxFee { value } => {
                use fuel_tx::field::Policies as _;
                x.policies_mut().set(fuel_tx::policies::PolicyType::MaxFee, Some(*value));
                applied = true;
            }
            Tamper::BodyByte { .. } | Tamper::FlipBit { .. } | Tamper::SetWord { .. } => {}
        }
    }, {});
    applied
}

/// O5. Returns true when the run must stop.
fn judge_tamper(ti: usize, t: &Tamper, accepted: &Transaction, id: &[u8; 32], env: &Env, h: BlockHeight, ctx: &mut RunCtx) -> bool {
    let bytes = accepted.to_bytes();
    let Some(tb) = apply_tamper(t, accepted, &bytes) else {
        ctx.event("tamper-na", ti as u64, 0);
        return false;
    };
    if tb == bytes {
        ctx.event("tamper-noop", ti as u64, 0);
        return false;
    }
    ctx.stats.inc("fault.tamper");
    let tx2 = match Transaction::from_bytes(&tb) {
        Ok(t) => t,
        Err(_) => {
            ctx.stats.inc("probe.tamper_undecodable");
            ctx.event("tamper-undecodable", ti as u64, 0);
            return false;
        }
    };
    if matches!(tx2, Transaction::Mint(_)) {
        ctx.event("tamper-mint", ti as u64, 0);
        return false;
    }
    let id2: [u8; 32] = *tx2.id(&env.chain_id);
    let signed = tx_inputs(&tx2).iter().filter(|i| i.witness_index().is_some()).count();
    // predicate inputs whose code no longer hashes to their owner
    let orphaned: Vec<usize> = tx_inputs(&tx2)
        .iter()
        .enumerate()
        .filter(|(_, i)| i.input_predicate().is_some_and(|code| i.input_owner().is_some_and(|o| *o != Input::predicate_owner(code))))
        .map(|(i, _)| i)
        .collect();
    let sig = tx2.check_signatures(&env.chain_id);
    ctx.stats.add("time.signature_checks", signed.min(1) as u64);
    // full pipeline, enum API
    let basic = tx2.clone().into_checked_basic(h, &env.cp);
    let (pipeline, preds_alone): (Result<(), String>, Option<Result<(), String>>) = match basic {
        Err(e) => (Err(format!("basic: {e:?}")), None),
        Ok(c) => {
            let alone = c
                .clone()
                .check_predicates(&env.params, MemoryInstance::new(), &env.blobs, env.ecal)
                .map(|_| ())
                .map_err(|e| format!("{e:?}"));
            let _ = env.blobs.take_log();
            let p = match c.check_signatures(&env.chain_id) {
                Err(e) => Err(format!("signatures: {e:?}")),
                Ok(_) => alone.clone(),
            };
            (p, Some(alone))
        }
    };
    ctx.event(
        "tamper",
        ((ti as u64) << 8) | ((id2 != *id) as u64) << 2 | (sig.is_ok() as u64) << 1 | pipeline.is_ok() as u64,
        u64::from_le_bytes(id2[..8].try_into().unwrap_or([0; 8])),
    );
    ctx.note(|| format!("tamper {ti} {t:?}: id changed {}, signed inputs {signed}, check_signatures {:?}, pipeline {:?}", id2 != *id, sig.as_ref().map_err(|e| format!("{e:?}")), pipeline));
    // The same edit made in place on the accepted value (which carries its cached id and
    // offsets) and re-checked must be judged exactly like the copy that came over the wire.
    if !matches!(t, Tamper::FlipBit { .. } | Tamper::SetWord { .. } | Tamper::BodyByte { .. }) {
        let mut inplace = accepted.clone();
        if edit_typed(t, &mut inplace) {
            ctx.stats.inc("fault.tamper_in_place");
            let wire = tx2.clone().into_checked_basic(h, &env.cp).map(|c| {
                let id: [u8; 32] = *c.id();
                (id, c.check_signatures(&env.chain_id).is_ok())
            });
            let mem = inplace.into_checked_basic(h, &env.cp).map(|c| {
                let id: [u8; 32] = *c.id();
                (id, c.check_signatures(&env.chain_id).is_ok())
            });
            let same = match (&wire, &mem) {
                (Ok(a), Ok(b)) => a == b,
                (Err(a), Err(b)) => format!("{a:?}") == format!("{b:?}"),
                _ => false,
            };
            ctx.event("tamper-in-place", ti as u64, same as u64);
            if !same {
                let show = |r: &Result<([u8; 32], bool), CheckError>| match r {
                    Ok((id, ok)) => format!("id {} signatures ok={ok}", hex::encode(id)),
                    Err(e) => format!("rejected: {e:?}"),
                };
                return ctx.violate(
                    "tamper-in-place",
                    "tamper-in-place:differs-from-wire",
                    format!("tamper {t:?} applied in place to the accepted transaction and re-checked gives [{}], the same content decoded from bytes gives [{}]", show(&mem), show(&wire)),
                );
            }
        }
    }
    if id2 == *id {
        ctx.stats.inc("probe.tamper_same_id");
        return false;
    }
    if signed >= 1 {
        ctx.stats.inc("probe.tamper_signed_content");
        if sig.is_ok() {
            return ctx.violate(
                "tamper-signature",
                "tamper-signature:check_signatures",
                format!("tamper {t:?} changed the id {} -> {} of a transaction with {signed} signed inputs, yet check_signatures succeeds", hex::encode(id), hex::encode(id2)),
            );
        }
        if pipeline.is_ok() {
            return ctx.violate("tamper-signature", "tamper-signature:pipeline", format!("tamper {t:?}: the tampered transaction passes basic, signature and predicate checks"));
        }
    }
    if !orphaned.is_empty() {
        ctx.stats.inc("probe.tamper_predicate_code");
        if sig.is_ok() {
            return ctx.violate(
                "tamper-predicate",
                "tamper-predicate:check_signatures",
                format!("tamper {t:?}: predicate inputs {orphaned:?} no longer hash to their owner, yet check_signatures (owner check) succeeds"),
            );
        }
        if let Some(Ok(())) = preds_alone {
            return ctx.violate(
                "tamper-predicate",
                "tamper-predicate:check_predicates",
                format!("tamper {t:?}: predicate inputs {orphaned:?} no longer hash to their owner, yet check_predicates succeeds"),
            );
        }
        if pipeline.is_ok() {
            return ctx.violate("tamper-predicate", "tamper-predicate:pipeline", format!("tamper {t:?}: tampered predicate code accepted by the full pipeline"));
        }
    }
    if pipeline.is_ok() {
        ctx.stats.inc("probe.tamper_accepted_unsigned_content");
    }
    false
}

#[allow(dead_code)]
fn _unused(_: CheckError) {}
