//! The encoder node's workload: values of every wire type, built with the repository's real
//! constructors / `TransactionBuilder` / (rarely) `TransactionFactory`, then mutated
//! structurally; plus the layout map (from a write trace of the fault-free encoding) that the
//! fault planner uses to aim at integer words, padding and field boundaries.
//! Everything derives from the kernel `Rng` handed to `generate`.

use super::stream::{Seg, TraceOutput};
use super::Kind;
use crate::kernel::Rng;
use fuel_tx::field::{
    BytecodeWitnessIndex, Inputs, Outputs, Policies as PoliciesField, ProofSet, ReceiptsRoot,
    Script as ScriptField, ScriptData, StorageSlots, SubsectionIndex, SubsectionsNumber,
    UpgradePurpose as UpgradePurposeField, Witnesses,
};
use fuel_tx::policies::{Policies, PolicyType};
use fuel_tx::{
    BlobBody, Cacheable, ConsensusParameters, Finalizable, Input, Output, PanicInstruction, Receipt,
    ScriptExecutionResult, StorageSlot, Transaction, TransactionBuilder, TxPointer, UpgradePurpose,
    UploadBody, UtxoId, Witness,
};
use fuel_types::canonical::Serialize;
use fuel_types::{BlockHeight, ChainId};

// ---------------------------------------------------------------------------------------
// primitive draws

pub fn b32(g: &mut Rng) -> [u8; 32] {
    match g.below(10) {
        0 => [0u8; 32],
        1 => [0xffu8; 32],
        2 => {
            let mut b = [0u8; 32];
            b[31] = g.below(256) as u8;
            b
        }
        _ => g.bytes32(),
    }
}

const LENS: [usize; 16] = [0, 1, 2, 7, 8, 9, 15, 16, 17, 24, 31, 32, 33, 63, 64, 65];

/// Byte string; lengths hit every residue mod 8 and both sides of 8/16/32/64.
pub fn blob(g: &mut Rng, max: usize) -> Vec<u8> {
    let len = match g.below(4) {
        0 | 1 => *g.pick(&LENS),
        2 => g.usize_below(24),
        _ => g.usize_below(max + 1),
    }
    .min(max);
    match g.below(8) {
        0 => vec![0u8; len],
        1 => vec![0xffu8; len],
        _ => g.bytes(len),
    }
}

pub fn blob_nonempty(g: &mut Rng, max: usize) -> Vec<u8> {
    let mut v = blob(g, max);
    if v.is_empty() {
        v.push(g.below(256) as u8);
    }
    v
}

fn word(g: &mut Rng) -> u64 {
    g.word_biased()
}

fn u16b(g: &mut Rng) -> u16 {
    match g.below(6) {
        0 => 0,
        1 => 1,
        2 => u16::MAX,
        3 => g.below(8) as u16,
        _ => g.below(1 << 16) as u16,
    }
}

fn u32b(g: &mut Rng) -> u32 {
    match g.below(6) {
        0 => 0,
        1 => 1,
        2 => u32::MAX,
        3 => g.below(100) as u32,
        _ => g.next_u32(),
    }
}

pub fn tx_pointer(g: &mut Rng) -> TxPointer {
    TxPointer::new(BlockHeight::new(u32b(g)), u16b(g))
}

pub fn utxo_id(g: &mut Rng) -> UtxoId {
    UtxoId::new(b32(g).into(), u16b(g))
}

pub fn storage_slot(g: &mut Rng) -> StorageSlot {
    StorageSlot::new(b32(g).into(), b32(g).into())
}

/// Policies inside the codec's domain (maturity / expiration are 32-bit block heights).
pub fn policies(g: &mut Rng) -> Policies {
    let mut p = Policies::new();
    let mask = match g.below(5) {
        0 => 0,
        1 => 0x3f,
        2 => 1u64 << g.below(6),
        _ => g.below(64),
    };
    if mask & 1 != 0 {
        p.set(PolicyType::Tip, Some(word(g)));
    }
    if mask & 2 != 0 {
        p.set(PolicyType::WitnessLimit, Some(word(g)));
    }
    if mask & 4 != 0 {
        p.set(PolicyType::Maturity, Some(u32b(g) as u64));
    }
    if mask & 8 != 0 {
        p.set(PolicyType::MaxFee, Some(word(g)));
    }
    if mask & 16 != 0 {
        p.set(PolicyType::Expiration, Some(u32b(g) as u64));
    }
    if mask & 32 != 0 {
        p.set(PolicyType::Owner, Some(if g.bool() { g.below(8) } else { word(g) }));
    }
    p
}

// ---------------------------------------------------------------------------------------
// inputs, outputs, receipts

pub const INPUT_NAMES: [&str; 7] = [
    "coin_signed",
    "coin_predicate",
    "contract",
    "message_coin_signed",
    "message_coin_predicate",
    "message_data_signed",
    "message_data_predicate",
];

/// Returns (value, variant name, strict). `strict == false` marks the one family the format
/// cannot represent: a predicate variant whose predicate is empty (it re-decodes as the signed
/// variant, which carries neither predicate data nor predicate gas).
pub fn input(g: &mut Rng, max_blob: usize, variant: Option<usize>) -> (Input, &'static str, bool) {
    let v = variant.unwrap_or_else(|| g.usize_below(7));
    let ambiguous = g.chance(1, 40);
    let mut strict = true;
    let mut pred = |g: &mut Rng| {
        if ambiguous {
            strict = false;
            Vec::new()
        } else {
            blob_nonempty(g, max_blob)
        }
    };
    let i = match v {
        0 => Input::coin_signed(utxo_id(g), b32(g).into(), word(g), b32(g).into(), tx_pointer(g), u16b(g)),
        1 => {
            let p = pred(g);
            Input::coin_predicate(utxo_id(g), b32(g).into(), word(g), b32(g).into(), tx_pointer(g), word(g), p, blob(g, max_blob))
        }
        2 => Input::contract(utxo_id(g), b32(g).into(), b32(g).into(), tx_pointer(g), b32(g).into()),
        3 => Input::message_coin_signed(b32(g).into(), b32(g).into(), word(g), b32(g).into(), u16b(g)),
        4 => {
            let p = pred(g);
            Input::message_coin_predicate(b32(g).into(), b32(g).into(), word(g), b32(g).into(), word(g), p, blob(g, max_blob))
        }
        5 => Input::message_data_signed(b32(g).into(), b32(g).into(), word(g), b32(g).into(), u16b(g), blob_nonempty(g, max_blob)),
        _ => {
            let p = pred(g);
            Input::message_data_predicate(
                b32(g).into(),
                b32(g).into(),
                word(g),
                b32(g).into(),
                word(g),
                blob_nonempty(g, max_blob),
                p,
                blob(g, max_blob),
            )
        }
    };
    (i, INPUT_NAMES[v.min(6)], strict)
}

pub const OUTPUT_NAMES: [&str; 5] = ["coin", "contract", "change", "variable", "contract_created"];

pub fn output(g: &mut Rng, variant: Option<usize>) -> (Output, &'static str) {
    let v = variant.unwrap_or_else(|| g.usize_below(5));
    let o = match v {
        0 => Output::coin(b32(g).into(), word(g), b32(g).into()),
        1 => Output::contract(u16b(g), b32(g).into(), b32(g).into()),
        2 => Output::change(b32(g).into(), word(g), b32(g).into()),
        3 => Output::variable(b32(g).into(), word(g), b32(g).into()),
        _ => Output::contract_created(b32(g).into(), b32(g).into()),
    };
    (o, OUTPUT_NAMES[v.min(4)])
}

pub const RECEIPT_NAMES: [&str; 13] = [
    "call", "return", "return_data", "panic", "revert", "log", "log_data", "transfer", "transfer_out",
    "script_result", "message_out", "mint", "burn",
];

pub fn receipt(g: &mut Rng, variant: Option<usize>) -> (Receipt, &'static str) {
    let v = variant.unwrap_or_else(|| g.usize_below(13));
    // payloads are not part of the encoding (`#[canonical(skip)]`); include them anyway so the
    // encoder sees real receipts
    let payload = |g: &mut Rng| if g.bool() { Some(blob(g, 48)) } else { None };
    let r = match v {
        0 => Receipt::call(b32(g).into(), b32(g).into(), word(g), b32(g).into(), word(g), word(g), word(g), word(g), word(g)),
        1 => Receipt::ret(b32(g).into(), word(g), word(g), word(g)),
        2 => {
            let p = payload(g);
            Receipt::return_data_with_len(b32(g).into(), word(g), word(g), b32(g).into(), word(g), word(g), p)
        }
        3 => {
            let r = Receipt::panic(b32(g).into(), PanicInstruction::from(word(g)), word(g), word(g));
            if g.bool() { r.with_panic_contract_id(Some(b32(g).into())) } else { r }
        }
        4 => Receipt::revert(b32(g).into(), word(g), word(g), word(g)),
        5 => Receipt::log(b32(g).into(), word(g), word(g), word(g), word(g), word(g), word(g)),
        6 => {
            let p = payload(g);
            Receipt::log_data_with_len(b32(g).into(), word(g), word(g), word(g), word(g), b32(g).into(), word(g), word(g), p)
        }
        7 => Receipt::transfer(b32(g).into(), b32(g).into(), word(g), b32(g).into(), word(g), word(g)),
        8 => Receipt::transfer_out(b32(g).into(), b32(g).into(), word(g), b32(g).into(), word(g), word(g)),
        9 => {
            let res = match g.below(5) {
                0 => ScriptExecutionResult::Success,
                1 => ScriptExecutionResult::Revert,
                2 => ScriptExecutionResult::Panic,
                _ => ScriptExecutionResult::GenericFailure(word(g)),
            };
            Receipt::script_result(res, word(g))
        }
        10 => {
            let p = payload(g);
            Receipt::message_out_with_len(b32(g).into(), b32(g).into(), word(g), b32(g).into(), word(g), b32(g).into(), p)
        }
        11 => Receipt::mint(b32(g).into(), b32(g).into(), word(g), word(g), word(g)),
        _ => Receipt::burn(b32(g).into(), b32(g).into(), word(g), word(g), word(g)),
    };
    (r, RECEIPT_NAMES[v.min(12)])
}

// ---------------------------------------------------------------------------------------
// transactions

pub const TX_NAMES: [&str; 6] = ["script", "create", "mint", "upgrade", "upload", "blob"];

struct Parts {
    policies: Policies,
    inputs: Vec<Input>,
    outputs: Vec<Output>,
    witnesses: Vec<Witness>,
    strict: bool,
}

fn count(g: &mut Rng) -> usize {
    match g.below(8) {
        0 => 0,
        1 | 2 => 1,
        3 | 4 => 2,
        5 => 3,
        6 => g.usize_below(6),
        _ => g.usize_below(9),
    }
}

fn parts(g: &mut Rng) -> Parts {
    let (ni, no, nw) = (count(g), count(g), count(g));
    // keep the record within ≈ 4 KiB
    let max_blob = 1200 / (1 + 2 * ni + nw).max(1);
    let mut strict = true;
    let one_kind = if g.chance(1, 6) { Some(g.usize_below(7)) } else { None };
    let inputs = (0..ni)
        .map(|_| {
            let (i, _, s) = input(g, max_blob, one_kind);
            strict &= s;
            i
        })
        .collect();
    let outputs = (0..no).map(|_| output(g, None).0).collect();
    let witnesses = (0..nw).map(|_| Witness::from(blob(g, max_blob))).collect();
    Parts { policies: policies(g), inputs, outputs, witnesses, strict }
}

fn set_witness_index(i: &mut Input, x: u16) {
    match i {
        Input::CoinSigned(c) => c.witness_index = x,
        Input::MessageCoinSigned(m) => m.witness_index = x,
        Input::MessageDataSigned(m) => m.witness_index = x,
        _ => {}
    }
}

/// Structural mutations of an already built transaction; all stay inside the codec's domain
/// (the codec does not validate semantics), so the strict round-trip still applies.
fn mutate_common<T>(g: &mut Rng, tx: &mut T, what: &mut String)
where
    T: Inputs + Outputs + Witnesses + PoliciesField,
{
    for _ in 0..g.below(3) {
        match g.below(11) {
            0 => {
                if let Some(i) = tx.inputs().first().cloned() {
                    tx.inputs_mut().push(i);
                    what.push_str("+dup_input");
                }
            }
            1 => {
                if !tx.inputs().is_empty() {
                    let k = g.usize_below(tx.inputs().len());
                    tx.inputs_mut().remove(k);
                    what.push_str("+rm_input");
                }
            }
            2 => {
                let n = tx.inputs().len();
                if n >= 2 {
                    let (a, b) = (g.usize_below(n), g.usize_below(n));
                    tx.inputs_mut().swap(a, b);
                    what.push_str("+swap_inputs");
                }
            }
            3 => {
                tx.witnesses_mut().clear();
                what.push_str("+no_witnesses");
            }
            4 => {
                tx.witnesses_mut().push(Witness::default());
                what.push_str("+empty_witness");
            }
            5 => {
                let w = blob(g, 700);
                tx.witnesses_mut().insert(0, w.into());
                what.push_str("+front_witness");
            }
            6 => {
                if let Some(o) = tx.outputs().last().cloned() {
                    tx.outputs_mut().push(o);
                    what.push_str("+dup_output");
                }
            }
            7 => {
                tx.outputs_mut().clear();
                what.push_str("+no_outputs");
            }
            8 => {
                *tx.policies_mut() = policies(g);
                what.push_str("+policies");
            }
            9 => {
                let n = tx.inputs().len();
                if n > 0 {
                    let k = g.usize_below(n);
                    let x = if g.bool() { u16::MAX } else { tx.witnesses().len() as u16 + g.below(3) as u16 };
                    set_witness_index(&mut tx.inputs_mut()[k], x);
                    what.push_str("+witness_index_oob");
                }
            }
            _ => {
                tx.inputs_mut().clear();
                what.push_str("+no_inputs");
            }
        }
    }
    tx.inputs_mut().truncate(8);
    tx.outputs_mut().truncate(8);
    tx.witnesses_mut().truncate(8);
}

fn apply_policies<T: fuel_tx::Buildable>(b: &mut TransactionBuilder<T>, p: &Policies) {
    if let Some(v) = p.get(PolicyType::Tip) {
        b.tip(v);
    }
    if let Some(v) = p.get(PolicyType::WitnessLimit) {
        b.witness_limit(v);
    }
    if let Some(v) = p.get(PolicyType::Maturity) {
        b.maturity(BlockHeight::new(v as u32));
    }
    if let Some(v) = p.get(PolicyType::MaxFee) {
        b.max_fee_limit(v);
    }
    if let Some(v) = p.get(PolicyType::Expiration) {
        b.expiration(BlockHeight::new(v as u32));
    }
    if let Some(v) = p.get(PolicyType::Owner) {
        b.owner(v);
    }
}

fn fill<T: fuel_tx::Buildable + Outputs>(b: &mut TransactionBuilder<T>, p: Parts) {
    apply_policies(b, &p.policies);
    for i in p.inputs {
        b.add_input(i);
    }
    for o in p.outputs {
        b.add_output(o);
    }
    for w in p.witnesses {
        b.add_witness(w);
    }
}

pub struct MadeTx {
    pub tx: Transaction,
    pub what: String,
    pub strict: bool,
}

/// One transaction of kind `k` (0..6). `path`: 0 = `TransactionBuilder` (+ precomputed
/// metadata), 1 = plain constructor, 2 = the repository's random `TransactionFactory` driven by
/// `StdRng::seed_from_u64(seed from our stream)`.
pub fn transaction(g: &mut Rng, k: usize, path: usize) -> MadeTx {
    let chain = ChainId::default();
    let mut what = format!("tx.{}", TX_NAMES[k.min(5)]);
    if path == 2 {
        use fuel_crypto::rand::{rngs::StdRng, SeedableRng};
        use fuel_tx::test_helper::TransactionFactory;
        let seed = g.next_u64();
        let rng = StdRng::seed_from_u64(seed);
        what.push_str("/factory");
        let tx: Transaction = match k {
            0 => TransactionFactory::<_, fuel_tx::Script>::from(rng).transaction().into(),
            1 => TransactionFactory::<_, fuel_tx::Create>::from(rng).transaction().into(),
            3 => TransactionFactory::<_, fuel_tx::Upgrade>::from(rng).transaction().into(),
            // the Upload / Blob factories build 1 MiB records: outside this engine's bounds
            _ => TransactionFactory::<_, fuel_tx::Mint>::from(rng).transaction().into(),
        };
        return MadeTx { tx, what, strict: true };
    }
    let p = parts(g);
    let strict = p.strict;
    what.push_str(if path == 0 { "/builder" } else { "/ctor" });
    let tx: Transaction = match k {
        0 => {
            let (script, data) = (blob(g, 300), blob(g, 300));
            let mut t = if path == 0 {
                let mut b = TransactionBuilder::script(script, data);
                b.script_gas_limit(word(g));
                fill(&mut b, p);
                b.finalize_without_signature()
            } else {
                Transaction::script(word(g), script, data, p.policies, p.inputs, p.outputs, p.witnesses)
            };
            mutate_common(g, &mut t, &mut what);
            match g.below(8) {
                0 => {
                    t.script_mut().clear();
                    what.push_str("+empty_script");
                }
                1 => {
                    t.script_data_mut().clear();
                    what.push_str("+empty_script_data");
                }
                2 => {
                    *t.receipts_root_mut() = b32(g).into();
                    what.push_str("+receipts_root");
                }
                _ => {}
            }
            t.into()
        }
        1 => {
            let nslots = count(g);
            let slots: Vec<StorageSlot> = (0..nslots).map(|_| storage_slot(g)).collect();
            let mut t = if path == 0 {
                let mut b = TransactionBuilder::create(blob(g, 400).into(), b32(g).into(), slots);
                fill(&mut b, p);
                b.finalize_without_signature()
            } else {
                Transaction::create(u16b(g), p.policies, b32(g).into(), slots, p.inputs, p.outputs, p.witnesses)
            };
            mutate_common(g, &mut t, &mut what);
            match g.below(8) {
                0 => {
                    *t.bytecode_witness_index_mut() = u16b(g);
                    what.push_str("+bytecode_index_oob");
                }
                1 => {
                    // duplicate slot (the mutable handle re-sorts on drop)
                    if let Some(s) = t.storage_slots().first().cloned() {
                        t.storage_slots_mut().as_mut().push(s);
                        what.push_str("+dup_slot");
                    }
                }
                2 => {
                    t.storage_slots_mut().as_mut().clear();
                    what.push_str("+no_slots");
                }
                _ => {}
            }
            t.into()
        }
        2 => {
            let ic = fuel_tx::input::contract::Contract {
                utxo_id: utxo_id(g),
                balance_root: b32(g).into(),
                state_root: b32(g).into(),
                tx_pointer: tx_pointer(g),
                contract_id: b32(g).into(),
            };
            let oc = fuel_tx::output::contract::Contract {
                input_index: u16b(g),
                balance_root: b32(g).into(),
                state_root: b32(g).into(),
            };
            if path == 0 {
                TransactionBuilder::mint(BlockHeight::new(u32b(g)), u16b(g), ic, oc, word(g), b32(g).into(), word(g))
                    .finalize()
                    .into()
            } else {
                Transaction::mint(tx_pointer(g), ic, oc, word(g), b32(g).into(), word(g)).into()
            }
        }
        3 => {
            let mut t = match g.below(3) {
                0 if path == 0 => {
                    // valid consensus-parameters upgrade: checksum matches the witness, so the
                    // metadata can be precomputed
                    what.push_str("+consensus_params");
                    let cp = ConsensusParameters::default();
                    match Transaction::upgrade_consensus_parameters(&cp, p.policies, p.inputs, p.outputs, vec![]) {
                        Ok(mut t) => {
                            let _ = t.precompute(&chain);
                            t
                        }
                        Err(_) => Transaction::upgrade(
                            UpgradePurpose::StateTransition { root: b32(g).into() },
                            Policies::new(),
                            vec![],
                            vec![],
                            vec![],
                        ),
                    }
                }
                1 => {
                    what.push_str("+checksum_only");
                    Transaction::upgrade(
                        UpgradePurpose::ConsensusParameters { witness_index: u16b(g), checksum: b32(g).into() },
                        p.policies,
                        p.inputs,
                        p.outputs,
                        p.witnesses,
                    )
                }
                _ => {
                    let purpose = UpgradePurpose::StateTransition { root: b32(g).into() };
                    if path == 0 {
                        let mut b = TransactionBuilder::upgrade(purpose);
                        fill(&mut b, p);
                        b.finalize_without_signature()
                    } else {
                        Transaction::upgrade(purpose, p.policies, p.inputs, p.outputs, p.witnesses)
                    }
                }
            };
            mutate_common(g, &mut t, &mut what);
            if g.chance(1, 8) {
                *t.upgrade_purpose_mut() = UpgradePurpose::StateTransition { root: b32(g).into() };
                what.push_str("+purpose_swapped");
            }
            t.into()
        }
        4 => {
            let nproof = count(g);
            let body = UploadBody {
                root: b32(g).into(),
                witness_index: u16b(g),
                subsection_index: u16b(g),
                subsections_number: u16b(g),
                proof_set: (0..nproof).map(|_| b32(g).into()).collect(),
            };
            let mut t = if path == 0 {
                let mut b = TransactionBuilder::upload(body);
                fill(&mut b, p);
                b.finalize_without_signature()
            } else {
                Transaction::upload(body, p.policies, p.inputs, p.outputs, p.witnesses)
            };
            mutate_common(g, &mut t, &mut what);
            match g.below(8) {
                0 => {
                    t.proof_set_mut().clear();
                    what.push_str("+no_proof");
                }
                1 => {
                    let x = b32(g).into();
                    t.proof_set_mut().push(x);
                    what.push_str("+proof_push");
                }
                2 => {
                    *t.subsection_index_mut() = u16::MAX;
                    *t.subsections_number_mut() = 0;
                    what.push_str("+subsection_oob");
                }
                _ => {}
            }
            t.proof_set_mut().truncate(8);
            t.into()
        }
        _ => {
            let body = BlobBody { id: b32(g).into(), witness_index: u16b(g) };
            let mut t = if path == 0 {
                let mut b = TransactionBuilder::blob(body);
                fill(&mut b, p);
                b.finalize_without_signature()
            } else {
                Transaction::blob(body, p.policies, p.inputs, p.outputs, p.witnesses)
            };
            mutate_common(g, &mut t, &mut what);
            t.into()
        }
    };
    // a structural mutation may have duplicated an ambiguous input or removed it; recompute
    let _ = strict;
    let strict = !has_ambiguous_input(&tx);
    MadeTx { tx, what, strict }
}

fn inputs_of(tx: &Transaction) -> &[Input] {
    match tx {
        Transaction::Script(t) => t.inputs(),
        Transaction::Create(t) => t.inputs(),
        Transaction::Upgrade(t) => t.inputs(),
        Transaction::Upload(t) => t.inputs(),
        Transaction::Blob(t) => t.inputs(),
        Transaction::Mint(_) => &[],
    }
}

fn outputs_of(tx: &Transaction) -> &[Output] {
    match tx {
        Transaction::Script(t) => t.outputs(),
        Transaction::Create(t) => t.outputs(),
        Transaction::Upgrade(t) => t.outputs(),
        Transaction::Upload(t) => t.outputs(),
        Transaction::Blob(t) => t.outputs(),
        Transaction::Mint(_) => &[],
    }
}

fn witnesses_of(tx: &Transaction) -> &[Witness] {
    match tx {
        Transaction::Script(t) => t.witnesses(),
        Transaction::Create(t) => t.witnesses(),
        Transaction::Upgrade(t) => t.witnesses(),
        Transaction::Upload(t) => t.witnesses(),
        Transaction::Blob(t) => t.witnesses(),
        Transaction::Mint(_) => &[],
    }
}

fn is_ambiguous(i: &Input) -> bool {
    match i {
        Input::CoinPredicate(c) => c.predicate.is_empty(),
        Input::MessageCoinPredicate(m) => m.predicate.is_empty(),
        Input::MessageDataPredicate(m) => m.predicate.is_empty(),
        _ => false,
    }
}

fn has_ambiguous_input(tx: &Transaction) -> bool {
    inputs_of(tx).iter().any(is_ambiguous)
}

// ---------------------------------------------------------------------------------------
// layout map of one fault-free encoding

#[derive(Debug, Clone, Copy, PartialEq, Eq)]
pub enum Class {
    /// First word of a transaction / input / output / receipt record.
    Discr0,
    /// Discriminant of an input or output nested in a transaction (exact offset).
    NestedDiscr,
    /// The policy bit mask word (exact offset).
    PolicyBits,
    /// inputs / outputs / witnesses count of a transaction header (exact offset).
    Count,
    /// Length prefix of a witness nested in a transaction (exact offset).
    WitnessLen,
    /// Other 64-bit word holding 0..=12: nested discriminant, count or short length prefix.
    SmallU64,
    /// Other 64-bit word holding 13..=8192: almost always a length prefix.
    LenLike,
    /// 16-bit field (witness_index, output_index, tx_index, subsection numbers).
    U16,
    /// 32-bit field (block height; policy bits when not labelled exactly).
    U32,
    U8,
    /// Any other aligned 64-bit word (amounts, gas, pc, hash fragments).
    Other,
}

impl Class {
    pub fn name(&self) -> &'static str {
        match self {
            Class::Discr0 => "discriminant",
            Class::NestedDiscr => "nested_discriminant",
            Class::PolicyBits => "policy_bits",
            Class::Count => "count",
            Class::WitnessLen => "witness_len",
            Class::SmallU64 => "small_word",
            Class::LenLike => "len_prefix",
            Class::U16 => "u16_index",
            Class::U32 => "u32_field",
            Class::U8 => "u8_field",
            Class::Other => "value_word",
        }
    }
}

#[derive(Debug, Clone, Copy)]
pub struct Target {
    pub off: usize,
    pub class: Class,
    pub val: u64,
}

/// One value, encoded fault-free by the real encoder, with its layout map.
pub struct Made {
    pub source: Kind,
    pub what: String,
    pub strict: bool,
    pub bytes: Vec<u8>,
    pub segs: Vec<Seg>,
    pub targets: Vec<Target>,
    /// Offsets of zero-padding bytes.
    pub pads: Vec<usize>,
}

fn be64(b: &[u8], off: usize) -> u64 {
    let mut w = [0u8; 8];
    if off + 8 <= b.len() {
        w.copy_from_slice(&b[off..off + 8]);
    }
    u64::from_be_bytes(w)
}

fn layout(source: Kind, what: String, strict: bool, t: TraceOutput, exact: &[(usize, Class)]) -> Made {
    let TraceOutput { bytes, segs } = t;
    let mut targets: Vec<Target> = Vec::new();
    let mut pads = Vec::new();
    let mut pad_run = 0usize;
    for s in &segs {
        if s.pad {
            pads.push(s.off);
            pad_run += 1;
            continue;
        }
        let end = s.off + s.len;
        let class = match s.len {
            8 if s.off % 8 == 0 => {
                let v = be64(&bytes, s.off);
                Some(if v <= 12 { Class::SmallU64 } else if v <= 8192 { Class::LenLike } else { Class::Other })
            }
            1 | 2 | 4 if end % 8 == 0 && pad_run >= 8 - s.len => Some(match s.len {
                1 => Class::U8,
                2 => Class::U16,
                _ => Class::U32,
            }),
            _ => None,
        };
        if let Some(c) = class {
            let off = end - 8;
            targets.push(Target { off, class: c, val: be64(&bytes, off) });
        }
        pad_run = 0;
    }
    for (off, c) in exact {
        if let Some(t) = targets.iter_mut().find(|t| t.off == *off) {
            t.class = *c;
        }
    }
    Made { source, what, strict, bytes, segs, targets, pads }
}

fn trace<T: Serialize>(v: &T) -> TraceOutput {
    let mut t = TraceOutput::default();
    // the trace sink never fails; an encoder error here would be reported by `run`, which
    // re-encodes the value through SimOutput
    let _ = v.encode(&mut t);
    t
}

pub fn make_tx(m: MadeTx) -> Made {
    let t = trace(&m.tx);
    let mut exact = vec![(0usize, Class::Discr0)];
    if !matches!(m.tx, Transaction::Mint(_)) {
        let hdr = m.tx.size_static();
        if hdr >= 40 {
            exact.push((hdr - 32, Class::PolicyBits));
            exact.push((hdr - 24, Class::Count));
            exact.push((hdr - 16, Class::Count));
            exact.push((hdr - 8, Class::Count));
        }
        let total = t.bytes.len();
        let wit: usize = witnesses_of(&m.tx).iter().map(|w| w.size()).sum();
        let out: usize = outputs_of(&m.tx).iter().map(|o| o.size()).sum();
        let inp: usize = inputs_of(&m.tx).iter().map(|i| i.size()).sum();
        if let Some(mut off) = total.checked_sub(wit + out + inp) {
            for i in inputs_of(&m.tx) {
                exact.push((off, Class::NestedDiscr));
                off += i.size();
            }
            for o in outputs_of(&m.tx) {
                exact.push((off, Class::NestedDiscr));
                off += o.size();
            }
            for w in witnesses_of(&m.tx) {
                exact.push((off, Class::WitnessLen));
                off += w.size();
            }
        }
    }
    layout(Kind::Tx, m.what, m.strict, t, &exact)
}

/// A record of one of the eight wire types.
pub fn make(g: &mut Rng, source: Kind, allow_factory: bool) -> Made {
    match source {
        Kind::Tx => {
            let k = g.usize_below(6);
            let path = if allow_factory && k != 4 && k != 5 && g.chance(1, 48) { 2 } else { g.usize_below(2) };
            make_tx(transaction(g, k, path))
        }
        Kind::Input => {
            let (v, name, strict) = input(g, 600, None);
            layout(source, format!("input.{name}"), strict, trace(&v), &[(0, Class::Discr0)])
        }
        Kind::Output => {
            let (v, name) = output(g, None);
            layout(source, format!("output.{name}"), true, trace(&v), &[(0, Class::Discr0)])
        }
        Kind::Receipt => {
            let (v, name) = receipt(g, None);
            layout(source, format!("receipt.{name}"), true, trace(&v), &[(0, Class::Discr0)])
        }
        Kind::Policies => layout(source, "policies".into(), true, trace(&policies(g)), &[(0, Class::PolicyBits)]),
        Kind::StorageSlot => layout(source, "storage_slot".into(), true, trace(&storage_slot(g)), &[]),
        Kind::UtxoId => layout(source, "utxo_id".into(), true, trace(&utxo_id(g)), &[]),
        Kind::TxPointer => layout(source, "tx_pointer".into(), true, trace(&tx_pointer(g)), &[]),
    }
}
