//! `wire` engine — canonical codec on streams that end, tear and rot (C02).
//!
//! encoder node --SimOutput--> medium (faults) --SimInput--> decoder node
//!
//! The scenario is explicit data: per record the fault-free encoding (hex, produced by the real
//! encoder at generation time), which decoder reads it, and the fault plan (write failure
//! position, medium faults with positions and values, read-side fault). `run` uses no PRNG.

pub mod alloc;
pub mod values;
pub mod plan;
pub mod stream;

use crate::kernel::*;
use fuel_tx::{Input, Output, Receipt, StorageSlot, Transaction, TxPointer, UtxoId};
use fuel_tx::policies::Policies;
use fuel_types::canonical::{Deserialize as CDeserialize, Error as CError, Serialize as CSerialize};
use serde::{Deserialize, Serialize};
use serde_json::{json, Value};
use stream::{ReadFault, SimInput, SimOutput};

pub const QUICK_RUNS: u64 = 600_000;
pub const THOROUGH_RUNS: u64 = 12_000_000;

#[derive(Debug, Clone, Copy, PartialEq, Eq, Serialize, Deserialize)]
pub enum Kind {
    Tx,
    Input,
    Output,
    Receipt,
    Policies,
    StorageSlot,
    UtxoId,
    TxPointer,
}

impl Kind {
    fn code(&self) -> u64 {
        *self as u64
    }
}

#[derive(Debug, Clone, PartialEq, Serialize, Deserialize)]
pub enum Fault {
    /// The medium keeps only the first `at` bytes.
    Truncate { at: u32, class: String },
    /// Absolute bit positions (byte * 8 + bit).
    BitFlip { bits: Vec<u32> },
    /// Big-endian 64-bit word written at byte offset `off`.
    Overwrite { off: u32, val: u64, class: String },
    /// `len` bytes from the 8-aligned offset `off` read back as zero.
    ZeroBlock { off: u32, len: u32 },
    /// Bytes appended after everything else.
    Trailing { hex: String },
}

#[derive(Debug, Clone, PartialEq, Serialize, Deserialize)]
pub struct Concat {
    pub hex: String,
    pub strict: bool,
}

#[derive(Debug, Clone, PartialEq, Serialize, Deserialize)]
pub struct Record {
    /// Human label of the value ("tx.script/builder+dup_input", "receipt.log_data").
    pub what: String,
    /// Type of the encoded value (encoder node).
    pub source: Kind,
    /// Decoder applied by the decoder node (differs from `source` = wrong-decoder fault).
    pub decoder: Kind,
    /// The value is inside the round-trippable domain: the strict baseline applies.
    pub strict: bool,
    /// Fault-free encoding of the value.
    pub hex: String,
    /// The encoder's sink accepts only this many bytes (full disk / torn write).
    #[serde(default)]
    pub write_fail_at: Option<u32>,
    /// A second record written right behind the first one.
    #[serde(default)]
    pub concat: Option<Concat>,
    #[serde(default)]
    pub medium: Vec<Fault>,
    #[serde(default)]
    pub read: Option<ReadFault>,
}

#[derive(Debug, Clone, PartialEq, Serialize, Deserialize)]
pub struct Scenario {
    pub records: Vec<Record>,
    /// A byte vector whose length sits at the decoder's allocation limit: (delta to the limit,
    /// fill byte). Built at run time (100 MiB does not belong in a replay file).
    #[serde(default)]
    pub giant: Option<(i8, u8)>,
}

pub struct Wire;

/// A witness of limit−1 / limit / limit+1 bytes: at or below the limit it must decode, consume
/// exactly its encoded size and encode again to the same bytes; above it, it must be refused.
fn run_giant(delta: i8, fill: u8, ctx: &mut RunCtx) {
    use fuel_types::canonical::VEC_DECODE_LIMIT;
    let len = (VEC_DECODE_LIMIT as i64 + delta as i64) as usize;
    let padded = len.div_ceil(8) * 8;
    let mut bytes = Vec::with_capacity(8 + padded);
    bytes.extend_from_slice(&(len as u64).to_be_bytes());
    bytes.resize(8 + len, fill);
    bytes.resize(8 + padded, 0);
    ctx.stats.inc("probe.vector_at_allocation_limit");
    let mut rest: &[u8] = &bytes;
    let r = fuel_tx::Witness::decode(&mut rest);
    ctx.event("giant", (delta as i64 + 1) as u64, r.is_ok() as u64);
    match r {
        Ok(w) => {
            if len > VEC_DECODE_LIMIT {
                ctx.violate("wire-limit", "wire-limit:accepted-above-limit", format!("a byte vector of {len} bytes (limit {VEC_DECODE_LIMIT}) was decoded"));
                return;
            }
            let consumed = bytes.len() - rest.len();
            if consumed != w.size() || consumed != bytes.len() {
                ctx.violate("wire-size", "wire-size:consumed-vs-size", format!("a witness of {len} bytes: decode consumed {consumed}, the value reports size {}, the encoding had {}", w.size(), bytes.len()));
                return;
            }
            let mut out = Vec::with_capacity(bytes.len());
            match w.encode(&mut out) {
                Ok(()) => {
                    if out != bytes {
                        ctx.violate("wire-roundtrip", "wire-roundtrip:reencode-differs", format!("a witness of {len} bytes encodes to different bytes than it was decoded from"));
                    }
                }
                Err(e) => {
                    ctx.violate("wire-roundtrip", "wire-roundtrip:decoded-value-does-not-encode", format!("a witness of {len} bytes (limit {VEC_DECODE_LIMIT}) was decoded but its encoding fails with {e:?}"));
                }
            }
        }
        Err(e) => {
            if len <= VEC_DECODE_LIMIT {
                ctx.violate("wire-limit", "wire-limit:refused-within-limit", format!("a byte vector of {len} bytes (limit {VEC_DECODE_LIMIT}) was refused with {e:?}"));
            }
        }
    }
}

trait WireTy: CSerialize + CDeserialize + PartialEq + core::fmt::Debug {}
impl<T: CSerialize + CDeserialize + PartialEq + core::fmt::Debug> WireTy for T {}

macro_rules! by_kind {
    ($k:expr, $f:ident, $($a:expr),*) => {
        match $k {
            Kind::Tx => $f::<Transaction>($($a),*),
            Kind::Input => $f::<Input>($($a),*),
            Kind::Output => $f::<Output>($($a),*),
            Kind::Receipt => $f::<Receipt>($($a),*),
            Kind::Policies => $f::<Policies>($($a),*),
            Kind::StorageSlot => $f::<StorageSlot>($($a),*),
            Kind::UtxoId => $f::<UtxoId>($($a),*),
            Kind::TxPointer => $f::<TxPointer>($($a),*),
        }
    };
}

fn err_code(e: &CError) -> (u64, &'static str) {
    match e {
        CError::BufferIsTooShort => (1, "probe.err.buffer_too_short"),
        CError::UnknownDiscriminant => (2, "probe.err.unknown_discriminant"),
        CError::InvalidPrefix => (3, "probe.err.invalid_prefix"),
        CError::AllocationLimit => (4, "probe.err.allocation_limit"),
        CError::Unknown(_) => (5, "probe.err.unknown_str"),
        _ => (6, "probe.err.other"),
    }
}

fn short(b: &[u8]) -> String {
    if b.len() <= 96 { hex::encode(b) } else { format!("{}… ({} bytes)", hex::encode(&b[..96]), b.len()) }
}

/// Clean decode of a fault-free encoding; used by the generator to know how many calls a
/// decoder makes (to aim `FailCall`).
fn clean_calls<T: WireTy>(bytes: &[u8]) -> plan::CallCounts {
    let mut inp = SimInput::plain(bytes);
    let _ = T::decode(&mut inp);
    inp.counts()
}

struct EncOne {
    wire: Vec<u8>,
    /// What an intact transport must decode to (re-encoded form); None when not asserted.
    expect: Option<Vec<u8>>,
    torn: bool,
}

/// Encoder node for one value: recover the value from its fault-free encoding (strict
/// baseline), then write it through SimOutput. Err(()) = violation reported, stop the run.
fn encode_one<S: WireTy>(
    orig: &[u8],
    strict: bool,
    fail_at: Option<usize>,
    idx: usize,
    what: &str,
    ctx: &mut RunCtx,
) -> Result<EncOne, ()> {
    let mut inp = SimInput::plain(orig);
    let x = match S::decode(&mut inp) {
        Ok(x) => x,
        Err(e) => {
            if strict {
                ctx.violate(
                    "wire-roundtrip",
                    "wire-roundtrip:clean-record-refused",
                    format!("record {idx} ({what}): the decoder refused a fault-free encoding with {e:?} after {} of {} bytes: {}", inp.pos(), orig.len(), short(orig)),
                );
                return Err(());
            }
            // outside the round-trippable domain: the bytes travel as they are
            ctx.stats.inc("probe.source_refused_by_decoder");
            return Ok(EncOne { wire: orig.to_vec(), expect: None, torn: false });
        }
    };
    let enc = x.to_bytes();
    let sz = x.size();
    ctx.note(|| format!("  encoder: recovered value from {} of {} bytes, size() = {sz}, to_bytes() = {} bytes{}", inp.pos(), orig.len(), enc.len(), if enc == orig { "" } else { " (differs from the scenario bytes)" }));
    if strict {
        if inp.pos() != orig.len() || sz != orig.len() || enc != orig {
            ctx.violate(
                "wire-roundtrip",
                "wire-roundtrip:clean-record-changed",
                format!(
                    "record {idx} ({what}): fault-free transport: decoder consumed {} of {} bytes, size() = {sz}, re-encoding {} the original ({} bytes): {}",
                    inp.pos(), orig.len(), if enc == orig { "equals" } else { "differs from" }, enc.len(), short(orig)
                ),
            );
            return Err(());
        }
    } else {
        // outside the strict domain the recovered value is still "a value the decoder returned
        // for a byte string": clause 2 of the property applies to it
        check_value::<S>(&x, &enc, sz, inp.pos(), idx, 0, what, ctx)?;
        if enc != orig {
            ctx.stats.inc("probe.source_normalised_by_decoder");
        }
    }
    let mut out = SimOutput::new(fail_at);
    let r = x.encode(&mut out);
    match (out.fired, r) {
        (true, Ok(())) => {
            ctx.violate(
                "wire-write-error-swallowed",
                "wire-write-error-swallowed",
                format!("record {idx} ({what}): the sink refused the write at byte {} of {sz} but encode returned Ok ({} bytes reached the medium)", fail_at.unwrap_or(0), out.bytes.len()),
            );
            Err(())
        }
        (true, Err(_)) => {
            ctx.stats.inc("fault.torn_write");
            if out.calls_after_failure > 0 {
                ctx.stats.inc("probe.encoder_wrote_after_failure");
            }
            if !enc.starts_with(&out.bytes) {
                ctx.stats.inc("probe.torn_record_not_a_prefix");
            }
            Ok(EncOne { wire: out.bytes, expect: None, torn: true })
        }
        (false, Err(e)) => {
            ctx.violate(
                "wire-fixed-point",
                "wire-fixed-point:encode-failed",
                format!("record {idx} ({what}): encoding a decoded value failed with {e:?} without any fault"),
            );
            Err(())
        }
        (false, Ok(())) => {
            if out.bytes.len() != sz || out.bytes != enc {
                ctx.violate(
                    "wire-size",
                    "wire-size:encode-vs-size",
                    format!("record {idx} ({what}): encode wrote {} bytes, size() = {sz}, to_bytes() = {} bytes", out.bytes.len(), enc.len()),
                );
                return Err(());
            }
            Ok(EncOne { wire: out.bytes, expect: Some(enc), torn: false })
        }
    }
}

struct Sent {
    wire: Vec<u8>,
    /// Bytes of the first / second record on the wire as written (before medium faults).
    len1: usize,
    len2: usize,
    expect1: Option<Vec<u8>>,
    expect2: Option<Vec<u8>>,
    torn: bool,
}

fn encoder_node<S: WireTy>(rec: &Record, idx: usize, ctx: &mut RunCtx) -> Result<Option<Sent>, ()> {
    let Ok(orig) = hex::decode(&rec.hex) else {
        ctx.stats.inc("probe.scenario_bad_hex");
        return Ok(None);
    };
    ctx.stats.add("time.bytes_encoded", orig.len() as u64);
    let first = encode_one::<S>(&orig, rec.strict, rec.write_fail_at.map(|k| k as usize), idx, &rec.what, ctx)?;
    let mut sent = Sent { len1: first.wire.len(), wire: first.wire, len2: 0, expect1: first.expect, expect2: None, torn: first.torn };
    if let Some(c) = &rec.concat {
        if let Ok(o2) = hex::decode(&c.hex) {
            let second = encode_one::<S>(&o2, c.strict, None, idx, "concatenated record", ctx)?;
            sent.len2 = second.wire.len();
            sent.wire.extend_from_slice(&second.wire);
            sent.expect2 = second.expect;
            ctx.stats.inc("fault.concatenate");
        }
    }
    Ok(Some(sent))
}

fn trunc_key(class: &str) -> &'static str {
    match class {
        "empty" => "fault.truncate.empty",
        "in_word" => "fault.truncate.in_word",
        "in_padding" => "fault.truncate.in_padding",
        "field_boundary" => "fault.truncate.field_boundary",
        "in_bytes" => "fault.truncate.in_bytes",
        "near_end" => "fault.truncate.near_end",
        _ => "fault.truncate.random",
    }
}

fn over_key(class: &str) -> &'static str {
    match class {
        "discriminant" => "fault.word_overwrite.discriminant",
        "nested_discriminant" => "fault.word_overwrite.nested_discriminant",
        "policy_bits" => "fault.word_overwrite.policy_bits",
        "count" => "fault.word_overwrite.count",
        "witness_len" => "fault.word_overwrite.witness_len",
        "small_word" => "fault.word_overwrite.small_word",
        "len_prefix" => "fault.word_overwrite.len_prefix",
        "u16_index" => "fault.word_overwrite.u16_index",
        "u32_field" => "fault.word_overwrite.u32_field",
        "u8_field" => "fault.word_overwrite.u8_field",
        _ => "fault.word_overwrite.value_word",
    }
}

/// Applies the medium faults; returns the byte ranges that no longer hold what was written.
fn medium(wire: &mut Vec<u8>, faults: &[Fault], ctx: &mut RunCtx) -> Vec<(usize, usize)> {
    let mut dirty = Vec::new();
    for f in faults {
        match f {
            Fault::Truncate { at, class } => {
                let at = *at as usize;
                if at < wire.len() {
                    wire.truncate(at);
                    dirty.push((at, usize::MAX));
                    ctx.stats.inc(trunc_key(class));
                }
            }
            Fault::BitFlip { bits } => {
                let mut hit = false;
                for b in bits {
                    let byte = (*b / 8) as usize;
                    if byte < wire.len() {
                        wire[byte] ^= 1 << (*b % 8);
                        dirty.push((byte, byte + 1));
                        hit = true;
                    }
                }
                if hit {
                    ctx.stats.inc("fault.bit_flip");
                }
            }
            Fault::Overwrite { off, val, class } => {
                let off = *off as usize;
                if off.checked_add(8).is_some_and(|e| e <= wire.len()) {
                    let w = val.to_be_bytes();
                    if wire[off..off + 8] != w {
                        wire[off..off + 8].copy_from_slice(&w);
                        dirty.push((off, off + 8));
                        ctx.stats.inc(over_key(class));
                    }
                }
            }
            Fault::ZeroBlock { off, len } => {
                let off = *off as usize;
                let end = off.saturating_add(*len as usize).min(wire.len());
                if off < end && wire[off..end].iter().any(|b| *b != 0) {
                    wire[off..end].fill(0);
                    dirty.push((off, end));
                    ctx.stats.inc("fault.zeroed_block");
                }
            }
            Fault::Trailing { hex } => {
                if let Ok(j) = hex::decode(hex) {
                    if !j.is_empty() {
                        dirty.push((wire.len(), wire.len() + j.len()));
                        wire.extend_from_slice(&j);
                        ctx.stats.inc("fault.trailing_garbage");
                    }
                }
            }
        }
    }
    dirty
}

fn intersects(dirty: &[(usize, usize)], lo: usize, hi: usize) -> bool {
    lo < hi && dirty.iter().any(|(a, b)| *a < hi && lo < *b)
}

/// Property clause 2 for a value the decoder returned after consuming `consumed` bytes:
/// consumed == size() == to_bytes().len(), and decoding its own encoding yields the same
/// value (PartialEq and re-encoded bytes), consuming everything.
#[allow(clippy::too_many_arguments)]
fn check_value<D: WireTy>(v: &D, enc: &[u8], sz: usize, consumed: usize, idx: usize, nth: usize, what: &str, ctx: &mut RunCtx) -> Result<(), ()> {
    if consumed != sz || enc.len() != sz {
        ctx.violate(
            "wire-size",
            "wire-size:consumed-vs-size",
            format!("record {idx}.{nth} ({what}): decoder consumed {consumed} bytes, the value's size() = {sz}, to_bytes().len() = {}; value re-encodes as {}", enc.len(), short(enc)),
        );
        return Err(());
    }
    let mut again = SimInput::plain(enc);
    match D::decode(&mut again) {
        Ok(v2) => {
            let enc2 = v2.to_bytes();
            if again.pos() != enc.len() || v2 != *v || enc2 != enc {
                ctx.violate(
                    "wire-fixed-point",
                    "wire-fixed-point:changed",
                    format!(
                        "record {idx}.{nth} ({what}): decode(encode(v)) consumed {} of {} bytes, value {} v, re-encoding {} ({} bytes): v encodes as {}",
                        again.pos(), enc.len(), if v2 == *v { "==" } else { "!=" }, if enc2 == enc { "equal" } else { "differs" }, enc2.len(), short(enc)
                    ),
                );
                return Err(());
            }
            Ok(())
        }
        Err(e) => {
            ctx.violate(
                "wire-fixed-point",
                "wire-fixed-point:refused",
                format!("record {idx}.{nth} ({what}): the decoder returned a value whose own encoding it refuses with {e:?} after {} of {} bytes: {}", again.pos(), enc.len(), short(enc)),
            );
            Err(())
        }
    }
}

struct Expect<'a> {
    /// Re-encoded form the decoded value must have (None: not asserted).
    bytes: Option<&'a [u8]>,
    /// The region of this record reached the decoder exactly as written and no fault was
    /// injected on the way: the decoder must accept it.
    clean: bool,
}

/// Decode one value at the current stream position and judge it. Returns Err(()) when a
/// violation stops the run, Ok(true) when the decoder returned a value.
fn decode_and_judge<D: WireTy>(
    inp: &mut SimInput,
    exp: Expect,
    idx: usize,
    nth: usize,
    what: &str,
    ctx: &mut RunCtx,
) -> Result<bool, ()> {
    let start = inp.pos();
    let refused0 = inp.refused();
    let fired0 = inp.fail_fired();
    let (r, biggest) = alloc::measure(|| D::decode(inp));
    let consumed = inp.pos() - start;
    let refused = inp.refused() - refused0;
    // (an EOF cut inside the record already makes it not `clean`)
    let injected = inp.fail_fired() && !fired0;
    if biggest >= 1 << 20 {
        ctx.note(|| format!("  probe: the decoder requested a single allocation of {biggest} bytes while reading {consumed} bytes"));
        ctx.stats.inc("probe.decode_alloc_ge_1MiB");
        if biggest >= 100 << 20 {
            ctx.stats.inc("probe.decode_alloc_ge_100MiB");
        }
        if biggest >= 1 << 30 {
            ctx.stats.inc("probe.decode_alloc_ge_1GiB");
        }
        if biggest >= 8usize << 30 {
            ctx.stats.inc("probe.decode_alloc_ge_8GiB");
        }
        if biggest >= 16usize << 30 {
            ctx.stats.inc("probe.decode_alloc_ge_16GiB");
        }
    }
    ctx.stats.inc("time.decodes");
    ctx.stats.add("time.bytes_decoded", consumed as u64);
    match r {
        Ok(v) => {
            let sz = v.size();
            let enc = v.to_bytes();
            ctx.event("dec_ok", consumed as u64, rng::fnv1a(&enc));
            if refused > 0 {
                ctx.violate(
                    "wire-read-error-swallowed",
                    "wire-read-error-swallowed",
                    format!("record {idx}.{nth} ({what}): {refused} read/skip/peek call(s) were refused during decoding but the decoder returned Ok after consuming {consumed} bytes"),
                );
                return Err(());
            }
            check_value::<D>(&v, &enc, sz, consumed, idx, nth, what, ctx)?;
            if exp.clean {
                if let Some(want) = exp.bytes {
                    if enc != want {
                        ctx.violate(
                            "wire-roundtrip",
                            "wire-roundtrip:intact-record-changed",
                            format!("record {idx}.{nth} ({what}): the record reached the decoder intact but decoded to a different value: sent {} got {}", short(want), short(&enc)),
                        );
                        return Err(());
                    }
                }
            } else {
                ctx.stats.inc("probe.decoder_ok_on_faulted");
                ctx.nontrivial = true;
            }
            Ok(true)
        }
        Err(e) => {
            let (code, key) = err_code(&e);
            ctx.stats.inc(key);
            ctx.event("dec_err", consumed as u64, code);
            if exp.clean && exp.bytes.is_some() && !injected {
                ctx.violate(
                    "wire-roundtrip",
                    "wire-roundtrip:intact-record-refused",
                    format!("record {idx}.{nth} ({what}): the record reached the decoder intact and no read fault was injected, but decoding failed with {e:?} after {consumed} bytes"),
                );
                return Err(());
            }
            if consumed >= 64 {
                ctx.stats.inc("probe.err_after_64_bytes");
                ctx.nontrivial = true;
            }
            Ok(false)
        }
    }
}

fn decoder_node<D: WireTy>(rec: &Record, sent: &Sent, wire: &[u8], dirty: &[(usize, usize)], idx: usize, ctx: &mut RunCtx) -> Result<(), ()> {
    let same = rec.decoder == rec.source;
    if !same {
        ctx.stats.inc("fault.wrong_decoder");
    }
    let mut inp = SimInput::new(wire, rec.read.as_ref());
    let eof_at = match rec.read {
        Some(ReadFault::Eof { at }) => at as usize,
        _ => usize::MAX,
    };
    // (expect1 is None when the bytes of a non-strict record are not a well-formed record at all)
    let intact1 = same && !sent.torn && sent.expect1.is_some() && !intersects(dirty, 0, sent.len1) && eof_at >= sent.len1;
    let end2 = sent.len1 + sent.len2;
    let intact2 = intact1 && sent.len2 > 0 && !intersects(dirty, sent.len1, end2) && eof_at >= end2;

    let ok1 = decode_and_judge::<D>(&mut inp, Expect { bytes: sent.expect1.as_deref(), clean: intact1 && sent.expect1.is_some() }, idx, 0, &rec.what, ctx)?;
    let mut ok = ok1;
    let mut nth = 1;
    // The decoder node keeps reading records from the stream: the concatenated one, then
    // whatever follows (trailing garbage), at most three more.
    while ok && inp.left() > 0 && nth < 4 {
        let exp = if nth == 1 && sent.len2 > 0 {
            Expect { bytes: sent.expect2.as_deref(), clean: intact2 && sent.expect2.is_some() }
        } else {
            Expect { bytes: None, clean: false }
        };
        ok = decode_and_judge::<D>(&mut inp, exp, idx, nth, &rec.what, ctx)?;
        nth += 1;
    }
    if inp.fail_fired() {
        ctx.stats.inc("fault.read_call_refused");
    }
    if inp.eof_fired() {
        ctx.stats.inc("fault.eof");
    }
    ctx.stats.add("time.stream_calls", inp.calls() as u64);
    Ok(())
}

fn run_record<S: WireTy>(rec: &Record, idx: usize, ctx: &mut RunCtx) -> Result<(), ()> {
    ctx.event("rec", idx as u64, rec.source.code() << 8 | rec.decoder.code());
    let Some(sent) = encoder_node::<S>(rec, idx, ctx)? else { return Ok(()) };
    ctx.event("sent", sent.wire.len() as u64, sent.torn as u64);
    let mut wire = sent.wire.clone();
    let dirty = medium(&mut wire, &rec.medium, ctx);
    ctx.event_bytes("wire", &wire);
    ctx.stats.inc("time.records");
    by_kind!(rec.decoder, decoder_node, rec, &sent, &wire, &dirty, idx, ctx)
}

impl Engine for Wire {
    type Scenario = Scenario;

    fn generate(_prop: &str, rng: &mut Rng, _tier: Tier) -> Scenario {
        let mut g = rng.fork("gen");
        let mut f = rng.fork("fault");
        let faulty = g.below(3) != 0; // a third of all runs is fault-free
        let n = g.range(8, 24) as usize;
        // swarm: per-run mix of record types
        let w = [
            *g.pick(&[2u32, 6, 12]),
            *g.pick(&[1u32, 4, 8]),
            *g.pick(&[1u32, 3]),
            *g.pick(&[1u32, 4, 8]),
            *g.pick(&[0u32, 1, 2]),
            *g.pick(&[0u32, 1]),
            *g.pick(&[0u32, 1]),
            *g.pick(&[0u32, 1]),
        ];
        const KINDS: [Kind; 8] = [Kind::Tx, Kind::Input, Kind::Output, Kind::Receipt, Kind::Policies, Kind::StorageSlot, Kind::UtxoId, Kind::TxPointer];
        let mades: Vec<values::Made> = (0..n)
            .map(|_| {
                let k = KINDS[g.weighted(&w)];
                values::make(&mut g, k, true)
            })
            .collect();
        let swarm = if faulty { Some(plan::Swarm::draw(&mut f)) } else { None };
        let records = mades
            .iter()
            .map(|m| {
                let calls = if swarm.as_ref().is_some_and(|s| s.enabled.contains(&plan::FaultKind::FailCall)) {
                    by_kind!(m.source, clean_calls, &m.bytes)
                } else {
                    (0, 0, 0)
                };
                plan::record(&mut f, m, &mades, swarm.as_ref(), calls)
            })
            .collect();
        // one run in 16384: a byte vector of exactly limit−1 / limit / limit+1 bytes
        let giant = if g.below(16384) == 0 { Some((g.below(3) as i8 - 1, g.below(256) as u8)) } else { None };
        Scenario { records, giant }
    }

    fn run(_prop: &str, sc: &Scenario, ctx: &mut RunCtx) {
        for (idx, rec) in sc.records.iter().enumerate() {
            if by_kind!(rec.source, run_record, rec, idx, ctx).is_err() {
                return;
            }
        }
        if let Some((delta, fill)) = sc.giant {
            run_giant(delta, fill, ctx);
        }
    }

    fn shrink(_prop: &str, sc: &Scenario) -> Vec<Scenario> {
        let mut out = Vec::new();
        if sc.giant.is_some() {
            out.push(Scenario { records: sc.records.clone(), giant: None });
            if !sc.records.is_empty() {
                out.push(Scenario { records: Vec::new(), giant: sc.giant });
            }
        }
        let n = sc.records.len();
        if n > 1 {
            out.push(Scenario { records: sc.records[..n / 2].to_vec(), giant: sc.giant });
            out.push(Scenario { records: sc.records[n / 2..].to_vec(), giant: sc.giant });
            for i in (0..n).rev() {
                let mut r = sc.records.clone();
                r.remove(i);
                out.push(Scenario { records: r, giant: sc.giant });
            }
        }
        let with = |i: usize, f: &dyn Fn(&mut Record)| {
            let mut r = sc.records.clone();
            f(&mut r[i]);
            Scenario { records: r, giant: sc.giant }
        };
        for i in 0..n {
            let rec = &sc.records[i];
            if rec.read.is_some() {
                out.push(with(i, &|r| r.read = None));
            }
            if rec.write_fail_at.is_some() {
                out.push(with(i, &|r| r.write_fail_at = None));
            }
            if rec.concat.is_some() {
                out.push(with(i, &|r| r.concat = None));
            }
            if rec.decoder != rec.source {
                out.push(with(i, &|r| r.decoder = r.source));
            }
            for k in (0..rec.medium.len()).rev() {
                out.push(with(i, &|r| {
                    r.medium.remove(k);
                }));
            }
            for k in 0..rec.medium.len() {
                if let Fault::BitFlip { bits } = &rec.medium[k] {
                    if bits.len() > 1 {
                        for b in 0..bits.len() {
                            out.push(with(i, &|r| {
                                if let Fault::BitFlip { bits } = &mut r.medium[k] {
                                    bits.remove(b);
                                }
                            }));
                        }
                    }
                }
                if let Fault::Trailing { hex } = &rec.medium[k] {
                    if hex.len() > 16 {
                        out.push(with(i, &|r| {
                            if let Fault::Trailing { hex } = &mut r.medium[k] {
                                hex.truncate(16);
                            }
                        }));
                    }
                }
            }
        }
        out
    }

    fn summarize(_prop: &str, sc: &Scenario) -> Value {
        let recs: Vec<Value> = sc
            .records
            .iter()
            .take(12)
            .map(|r| {
                let mut faults: Vec<String> = Vec::new();
                if let Some(k) = r.write_fail_at {
                    faults.push(format!("torn_write@{k}"));
                }
                if r.concat.is_some() {
                    faults.push("concatenate".into());
                }
                for m in &r.medium {
                    faults.push(match m {
                        Fault::Truncate { at, class } => format!("truncate@{at}({class})"),
                        Fault::BitFlip { bits } => format!("bit_flip{bits:?}"),
                        Fault::Overwrite { off, val, class } => format!("overwrite@{off}={val:#x}({class})"),
                        Fault::ZeroBlock { off, len } => format!("zeroed_block@{off}+{len}"),
                        Fault::Trailing { hex } => format!("trailing_garbage+{}", hex.len() / 2),
                    });
                }
                match &r.read {
                    Some(ReadFault::Eof { at }) => faults.push(format!("eof@{at}")),
                    Some(ReadFault::FailCall { op, k }) => faults.push(format!("fail_{op:?}#{k}")),
                    None => {}
                }
                if r.decoder != r.source {
                    faults.push(format!("decoded_as_{:?}", r.decoder));
                }
                json!({"what": r.what, "bytes": r.hex.len() / 2, "faults": faults})
            })
            .collect();
        json!({"records": sc.records.len(), "first": recs})
    }
}

fn wire_describe(_prop: &str) -> EngineDescription {
    EngineDescription {
        rule: "Each run is a batch of 8–24 records. An encoder node builds values of Transaction (all six kinds via TransactionBuilder + precomputed metadata, via the plain constructors, and 1 in 48 via the repository's TransactionFactory driven by StdRng seeded from the run's stream; then structural mutations: duplicated/removed/swapped inputs, witness indices out of range, no/empty/extra witnesses, replaced policies, emptied script, duplicate storage slots, proof-set edits, …), Input (7 variants), Output (5), Receipt (13), Policies, StorageSlot, UtxoId, TxPointer, and writes them through SimOutput (canonical::Output; write fails at byte k = torn record). The medium applies ≤ 3 faults per record: truncation (empty / inside an integer word / inside padding / at a field boundary / inside a byte string / near the end), 1–3 bit flips (half aimed at the low bytes of integer words), 8-byte word overwrites aimed via a write-trace layout map at discriminants, nested discriminants, vector length prefixes and counts (2^32, 2^63, VEC_DECODE_LIMIT−1/±0/+1, ±1, ×2, …), policy bit masks (unknown bits, dirty padding), 16/32-bit index fields; a zeroed 8-aligned block; a second record concatenated; trailing garbage; the record handed to the wrong decoder. A decoder node reads through SimInput (canonical::Input; EOF at byte k; the k-th read/skip/peek refused although bytes remain) with Transaction/Input/Output/Receipt::decode (and the four small types' decoders) and keeps decoding records until the stream ends or a decode fails. Oracles: no panic; Ok(v) ⇒ consumed == v.size() == v.to_bytes().len(), decode(v.to_bytes()) == Ok(v) consuming everything and re-encoding identically, and no stream call was refused; a record that reached the decoder exactly as written (also behind an intact first record) must decode to a value whose re-encoding equals what was sent; a refused write ⇒ encode returns Err. One run in 16 384 additionally decodes a witness of VEC_DECODE_LIMIT−1 / ±0 / +1 bytes built at run time (accepted up to the limit with consumed == size and an identical re-encoding, refused above it). A third of all runs is fault-free. A run is non-trivial when a decoder returned Ok on a faulted record or failed after consuming ≥ 64 bytes; distinct = distinct event digests (wire bytes + per-decode outcome) among those.".into(),
        real_components: vec![
            "fuel_types::canonical::{Serialize, Deserialize} impls for primitives, Vec<T>, [T; N] and the derive macros (fuel-derive)".into(),
            "fuel_tx::{Transaction, Input, Output, Receipt, Policies, StorageSlot, UtxoId, TxPointer, Witness} encode / decode / size".into(),
            "fuel_tx::{TransactionBuilder, Transaction::script/create/mint/upgrade/upload/blob, test_helper::TransactionFactory}".into(),
        ],
        stub_components: vec![
            "SimOutput (canonical::Output with a byte budget: torn write)".into(),
            "medium (truncate / bit flip / word overwrite / zeroed block / concatenate / trailing garbage)".into(),
            "SimInput (canonical::Input with EOF cut, refused k-th call, refusal accounting)".into(),
            "counting global allocator (probe: largest single allocation requested during a decode)".into(),
        ],
        assumptions: vec![
            "A refused read/skip/peek is transient: later calls succeed if bytes remain; a decoder that returns Ok after any refused call has swallowed an error.".into(),
            "Predicate-variant inputs with an empty predicate are outside the round-trippable domain of the format (they re-decode as the signed variant); such records (1 in 40 inputs) are sent but the strict baseline is not asserted for them.".into(),
            "Receipt payloads, panic reason/contract id and cached transaction metadata are not part of the encoding; equality is judged on re-encoded bytes and on PartialEq between two decoded values.".into(),
            "Records ≤ ≈ 4 KiB (factory transactions up to ≈ 12 KiB); ≤ 8 inputs / outputs / witnesses.".into(),
            "Memory is not bounded by the property: a length prefix below VEC_DECODE_LIMIT makes the decoder reserve count × size_of::<T>() before reading an element; reported as probe.decode_alloc_ge_*, not alarmed (an allocation failure would abort the worker and surface as process-death).".into(),
        ],
        distinct_state_measure: "distinct event digests (record kinds, bytes on the wire after faults, consumed bytes and outcome of every decode) of non-trivial runs".into(),
        simulated_time_keys: vec!["records".into(), "decodes".into(), "bytes_encoded".into(), "bytes_decoded".into(), "stream_calls".into()],
    }
}

pub static WIRE: EngineDef = EngineDef {
    name: "wire",
    props: &["C02"],
    generate: gen_erased::<Wire>,
    run: run_erased::<Wire>,
    shrink: shrink_erased::<Wire>,
    summarize: summarize_erased::<Wire>,
    describe: wire_describe,
    runs: |_| (QUICK_RUNS, THOROUGH_RUNS),
};
