//! Simulated byte streams behind `fuel_types::canonical::{Input, Output}`.
//!
//! `SimOutput` — the encoder's sink: accepts bytes until byte `fail_at`, then tears the write
//! (the bytes that still fit are kept, the call returns `BufferIsTooShort`) — full disk.
//! `SimInput` — the decoder's source: the stream ends at `limit` (EOF at an arbitrary byte)
//! and the k-th `read`/`skip`/`peek` call can be refused although bytes remain (transient I/O
//! error). Every refused call is counted: a decoder that returns `Ok` after a refused call has
//! swallowed an error.
//! `TraceOutput` — records the write calls of a fault-free encoding, so that the generator can
//! aim faults at integer words, padding and field boundaries.

use fuel_types::canonical::{Error, Input, Output};
use serde::{Deserialize, Serialize};
use std::cell::Cell;

pub struct SimOutput {
    pub bytes: Vec<u8>,
    /// Number of bytes the medium accepts in total; `None` = unbounded.
    pub fail_at: Option<usize>,
    pub fired: bool,
    /// Calls made after the first failure (an encoder that goes on after an error).
    pub calls_after_failure: u32,
}

impl SimOutput {
    pub fn new(fail_at: Option<usize>) -> Self {
        SimOutput { bytes: Vec::new(), fail_at, fired: false, calls_after_failure: 0 }
    }
}

impl Output for SimOutput {
    fn write(&mut self, from: &[u8]) -> Result<(), Error> {
        if self.fired {
            // The device stays full: nothing more is accepted.
            self.calls_after_failure += 1;
            return Err(Error::BufferIsTooShort);
        }
        if let Some(cap) = self.fail_at {
            let room = cap.saturating_sub(self.bytes.len());
            if from.len() > room {
                // torn write: the part that still fits reaches the medium
                self.bytes.extend_from_slice(&from[..room]);
                self.fired = true;
                return Err(Error::BufferIsTooShort);
            }
        }
        self.bytes.extend_from_slice(from);
        Ok(())
    }
}

#[derive(Debug, Clone, Copy, PartialEq, Eq, Serialize, Deserialize)]
pub enum Op {
    Read,
    Skip,
    Peek,
    /// Any of the three, counted together.
    Any,
}

#[derive(Debug, Clone, PartialEq, Eq, Serialize, Deserialize)]
pub enum ReadFault {
    /// The stream ends after `at` bytes although the medium holds more.
    Eof { at: u32 },
    /// The `k`-th call (0-based) of kind `op` is refused with `BufferIsTooShort`.
    FailCall { op: Op, k: u32 },
}

pub struct SimInput<'a> {
    data: &'a [u8],
    pos: usize,
    limit: usize,
    fail: Option<(Op, u32)>,
    n_read: Cell<u32>,
    n_skip: Cell<u32>,
    n_peek: Cell<u32>,
    /// Calls refused for any reason (end of data, EOF cut, injected error).
    refused: Cell<u32>,
    /// The injected call failure was reached.
    fail_fired: Cell<bool>,
    /// A call was refused at the EOF cut although the medium held enough bytes.
    eof_fired: Cell<bool>,
}

impl<'a> SimInput<'a> {
    pub fn plain(data: &'a [u8]) -> Self {
        Self::new(data, None)
    }

    pub fn new(data: &'a [u8], fault: Option<&ReadFault>) -> Self {
        let mut limit = data.len();
        let mut fail = None;
        match fault {
            Some(ReadFault::Eof { at }) => limit = limit.min(*at as usize),
            Some(ReadFault::FailCall { op, k }) => fail = Some((*op, *k)),
            None => {}
        }
        SimInput {
            data,
            pos: 0,
            limit,
            fail,
            n_read: Cell::new(0),
            n_skip: Cell::new(0),
            n_peek: Cell::new(0),
            refused: Cell::new(0),
            fail_fired: Cell::new(false),
            eof_fired: Cell::new(false),
        }
    }

    pub fn pos(&self) -> usize {
        self.pos
    }
    pub fn left(&self) -> usize {
        self.limit - self.pos
    }
    pub fn refused(&self) -> u32 {
        self.refused.get()
    }
    pub fn fail_fired(&self) -> bool {
        self.fail_fired.get()
    }
    pub fn eof_fired(&self) -> bool {
        self.eof_fired.get()
    }
    pub fn calls(&self) -> u32 {
        self.n_read.get() + self.n_skip.get() + self.n_peek.get()
    }

    /// Count the call; true when the injected failure hits it.
    fn injected(&self, op: Op) -> bool {
        let total_before = self.calls();
        let c = match op {
            Op::Read => &self.n_read,
            Op::Skip => &self.n_skip,
            Op::Peek => &self.n_peek,
            Op::Any => &self.n_read,
        };
        let own_before = c.get();
        c.set(own_before.wrapping_add(1));
        match self.fail {
            Some((Op::Any, k)) if k == total_before => true,
            Some((o, k)) if o == op && k == own_before => true,
            _ => false,
        }
    }

    fn admit(&self, op: Op, n: usize) -> Result<(), Error> {
        if self.injected(op) {
            self.fail_fired.set(true);
            self.refused.set(self.refused.get() + 1);
            return Err(Error::BufferIsTooShort);
        }
        if n > self.limit - self.pos {
            if n <= self.data.len() - self.pos {
                self.eof_fired.set(true);
            }
            self.refused.set(self.refused.get() + 1);
            return Err(Error::BufferIsTooShort);
        }
        Ok(())
    }
}

impl Input for SimInput<'_> {
    fn remaining(&mut self) -> usize {
        self.limit - self.pos
    }

    fn peek(&self, into: &mut [u8]) -> Result<(), Error> {
        self.admit(Op::Peek, into.len())?;
        into.copy_from_slice(&self.data[self.pos..self.pos + into.len()]);
        Ok(())
    }

    fn read(&mut self, into: &mut [u8]) -> Result<(), Error> {
        self.admit(Op::Read, into.len())?;
        into.copy_from_slice(&self.data[self.pos..self.pos + into.len()]);
        self.pos += into.len();
        Ok(())
    }

    fn skip(&mut self, n: usize) -> Result<(), Error> {
        self.admit(Op::Skip, n)?;
        self.pos += n;
        Ok(())
    }
}

/// One write call of a fault-free encoding.
#[derive(Debug, Clone, Copy)]
pub struct Seg {
    pub off: usize,
    pub len: usize,
    /// `push_byte` (the codec uses it only for zero padding).
    pub pad: bool,
}

#[derive(Default)]
pub struct TraceOutput {
    pub bytes: Vec<u8>,
    pub segs: Vec<Seg>,
}

impl Output for TraceOutput {
    fn write(&mut self, from: &[u8]) -> Result<(), Error> {
        self.segs.push(Seg { off: self.bytes.len(), len: from.len(), pad: false });
        self.bytes.extend_from_slice(from);
        Ok(())
    }
    fn push_byte(&mut self, byte: u8) -> Result<(), Error> {
        self.segs.push(Seg { off: self.bytes.len(), len: 1, pad: true });
        self.bytes.push(byte);
        Ok(())
    }
}

impl SimInput<'_> {
    /// (read, skip, peek) calls made so far.
    pub fn counts(&self) -> (u32, u32, u32) {
        (self.n_read.get(), self.n_skip.get(), self.n_peek.get())
    }
}
