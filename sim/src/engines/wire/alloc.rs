//! Counting allocator (probe only, never an alarm): the largest single allocation requested
//! while a decoder runs. Pass-through to the system allocator; when not armed it costs one
//! relaxed atomic load per allocation.

use std::alloc::{GlobalAlloc, Layout, System};
use std::sync::atomic::{AtomicBool, AtomicUsize, Ordering::Relaxed};

pub struct Probe;

static ARMED: AtomicBool = AtomicBool::new(false);
static MAX: AtomicUsize = AtomicUsize::new(0);

#[inline]
fn note(size: usize) {
    if ARMED.load(Relaxed) {
        MAX.fetch_max(size, Relaxed);
    }
}

unsafe impl GlobalAlloc for Probe {
    #[inline]
    unsafe fn alloc(&self, layout: Layout) -> *mut u8 {
        note(layout.size());
        unsafe { System.alloc(layout) }
    }
    #[inline]
    unsafe fn alloc_zeroed(&self, layout: Layout) -> *mut u8 {
        note(layout.size());
        unsafe { System.alloc_zeroed(layout) }
    }
    #[inline]
    unsafe fn realloc(&self, ptr: *mut u8, layout: Layout, new_size: usize) -> *mut u8 {
        note(new_size);
        unsafe { System.realloc(ptr, layout, new_size) }
    }
    #[inline]
    unsafe fn dealloc(&self, ptr: *mut u8, layout: Layout) {
        unsafe { System.dealloc(ptr, layout) }
    }
}

#[global_allocator]
static GLOBAL: Probe = Probe;

/// Run `f` and report the largest single allocation it requested (bytes).
pub fn measure<R>(f: impl FnOnce() -> R) -> (R, usize) {
    MAX.store(0, Relaxed);
    ARMED.store(true, Relaxed);
    let r = f();
    ARMED.store(false, Relaxed);
    (r, MAX.load(Relaxed))
}
