//! Fault planner: turns the layout map of a fault-free encoding into explicit fault data
//! (positions and values), so that `run` needs no PRNG and replay needs no generator.

use super::values::{Class, Made, Target};
use super::stream::{Op, ReadFault};
use super::{Concat, Fault, Kind, Record};
use crate::kernel::Rng;
use fuel_types::canonical::VEC_DECODE_LIMIT;

/// Fault kinds a run may enable (swarm).
#[derive(Clone, Copy, Debug, PartialEq, Eq)]
pub enum FaultKind {
    TornWrite,
    Truncate,
    BitFlip,
    Overwrite,
    ZeroBlock,
    Concat,
    Trailing,
    Eof,
    FailCall,
    WrongDecoder,
}

pub const ALL_KINDS: [FaultKind; 10] = [
    FaultKind::TornWrite,
    FaultKind::Truncate,
    FaultKind::BitFlip,
    FaultKind::Overwrite,
    FaultKind::ZeroBlock,
    FaultKind::Concat,
    FaultKind::Trailing,
    FaultKind::Eof,
    FaultKind::FailCall,
    FaultKind::WrongDecoder,
];

/// A cut position inside the record and the class of position it was drawn from.
pub fn cut_pos(f: &mut Rng, m: &Made) -> (usize, &'static str) {
    let len = m.bytes.len();
    if len == 0 {
        return (0, "empty");
    }
    let random = |f: &mut Rng| (f.usize_below(len), "random");
    match f.below(9) {
        0 => (0, "empty"),
        1 | 2 => {
            // inside an integer word: discriminant, length prefix, count, index
            let ts: Vec<&Target> = m.targets.iter().filter(|t| t.class != Class::Other).collect();
            if ts.is_empty() {
                return random(f);
            }
            let t = ts[f.usize_below(ts.len())];
            ((t.off + 1 + f.usize_below(7)).min(len - 1), "in_word")
        }
        3 => {
            if m.pads.is_empty() {
                return random(f);
            }
            (m.pads[f.usize_below(m.pads.len())], "in_padding")
        }
        4 | 5 => {
            let bs: Vec<usize> = m.segs.iter().filter(|s| s.off % 8 == 0 && s.off > 0).map(|s| s.off).collect();
            if bs.is_empty() {
                return random(f);
            }
            (bs[f.usize_below(bs.len())], "field_boundary")
        }
        6 => {
            let bs: Vec<(usize, usize)> = m.segs.iter().filter(|s| !s.pad && s.len > 8).map(|s| (s.off, s.len)).collect();
            if bs.is_empty() {
                return random(f);
            }
            let (o, l) = bs[f.usize_below(bs.len())];
            (o + 1 + f.usize_below(l - 1), "in_bytes")
        }
        7 => (len - 1 - f.usize_below(8.min(len)), "near_end"),
        _ => random(f),
    }
}

fn class_weight(c: Class) -> u32 {
    match c {
        Class::Discr0 => 3,
        Class::NestedDiscr => 3,
        Class::PolicyBits => 4,
        Class::Count => 4,
        Class::WitnessLen => 3,
        Class::SmallU64 => 4,
        Class::LenLike => 5,
        Class::U16 => 3,
        Class::U32 => 2,
        Class::U8 => 1,
        Class::Other => 1,
    }
}

const CLASSES: [Class; 11] = [
    Class::Discr0,
    Class::NestedDiscr,
    Class::PolicyBits,
    Class::Count,
    Class::WitnessLen,
    Class::SmallU64,
    Class::LenLike,
    Class::U16,
    Class::U32,
    Class::U8,
    Class::Other,
];

fn pick_target<'a>(f: &mut Rng, m: &'a Made) -> Option<&'a Target> {
    if m.targets.is_empty() {
        return None;
    }
    let w: Vec<u32> = CLASSES
        .iter()
        .map(|c| if m.targets.iter().any(|t| t.class == *c) { class_weight(*c) } else { 0 })
        .collect();
    let c = CLASSES[f.weighted(&w)];
    let ts: Vec<&Target> = m.targets.iter().filter(|t| t.class == c).collect();
    if ts.is_empty() {
        return m.targets.first();
    }
    Some(ts[f.usize_below(ts.len())])
}

fn overwrite_value(f: &mut Rng, t: &Target) -> u64 {
    let v = t.val;
    let lim = VEC_DECODE_LIMIT as u64;
    match t.class {
        Class::Discr0 | Class::NestedDiscr => match f.below(8) {
            0 => v.wrapping_add(1),
            1 => v.wrapping_sub(1),
            2 | 3 => f.below(14),
            4 => 255,
            5 => 1 << 32,
            6 => u64::MAX,
            _ => v | (1 << 56),
        },
        Class::Count | Class::WitnessLen | Class::LenLike | Class::SmallU64 => match f.below(16) {
            0 => 1 << 32,
            1 => 1 << 63,
            2 => lim - 1,
            3 => lim,
            4 => lim + 1,
            5 => v.wrapping_add(1),
            6 => v.wrapping_sub(1),
            7 => v.wrapping_add(8),
            8 => v.wrapping_mul(2),
            9 => 0,
            10 => u64::MAX,
            11 => (1u64 << 32).wrapping_add(v),
            12 => f.below(64),
            13 => 1u64 << f.below(64),
            14 => v.wrapping_add(7) & !7,
            _ => f.below(14),
        },
        Class::PolicyBits => {
            let bits = match f.below(9) {
                0 => 0,
                1 => 0x3f,
                2 => 0x7f,
                3 => 1 << 6,
                4 => 1 << 31,
                5 => 0xffff_ffff,
                6 => f.below(64),
                7 => (v & 0xffff_ffff) ^ (1 << f.below(8)),
                _ => (v & 0xffff_ffff) | (1 << (6 + f.below(26))),
            };
            // one in four also dirties the four padding bytes in front of the u32
            if f.chance(1, 4) { bits | (f.below(1 << 32) << 32) } else { bits }
        }
        Class::U16 => match f.below(7) {
            0 => 0,
            1 => 1,
            2 => (v & 0xffff).wrapping_add(1) & 0xffff,
            3 => 0xffff,
            4 => 0x1_0000 | (v & 0xffff),
            5 => f.below(16),
            _ => f.below(1 << 16),
        },
        Class::U32 => match f.below(5) {
            0 => 0,
            1 => (v & 0xffff_ffff).wrapping_add(1) & 0xffff_ffff,
            2 => 0xffff_ffff,
            3 => (1 << 32) | (v & 0xffff_ffff),
            _ => f.below(1 << 32),
        },
        Class::U8 => f.below(512),
        Class::Other => f.word_biased(),
    }
}

fn junk(f: &mut Rng, m: &Made) -> Vec<u8> {
    match f.below(5) {
        0 => vec![0u8; 8 * (1 + f.usize_below(4))],
        1 => { let n = 1 + f.usize_below(7); f.bytes(n) }
        2 => {
            // looks like the start of another record of the same type
            let n = (8 + f.usize_below(56)).min(m.bytes.len());
            m.bytes[..n].to_vec()
        }
        3 => { let n = 8 * (1 + f.usize_below(6)); f.bytes(n) }
        _ => { let n = 1 + f.usize_below(40); f.bytes(n) }
    }
}

pub struct Swarm {
    pub enabled: Vec<FaultKind>,
    /// A record of a faulty run is faulted with probability num/8.
    pub rate_num: u64,
}

impl Swarm {
    pub fn draw(f: &mut Rng) -> Swarm {
        let mut enabled: Vec<FaultKind> = ALL_KINDS.iter().copied().filter(|_| f.bool()).collect();
        if enabled.is_empty() {
            enabled.push(*f.pick(&ALL_KINDS));
        }
        Swarm { enabled, rate_num: *f.pick(&[1u64, 4, 8]) }
    }
}

/// Number of (read, skip, peek) calls a clean decode of this record makes.
pub type CallCounts = (u32, u32, u32);

/// Builds the record for `m`, faulted according to the swarm (or clean when `swarm` is None).
pub fn record(f: &mut Rng, m: &Made, all: &[Made], swarm: Option<&Swarm>, calls: CallCounts) -> Record {
    let mut r = Record {
        what: m.what.clone(),
        source: m.source,
        decoder: m.source,
        strict: m.strict,
        hex: hex::encode(&m.bytes),
        write_fail_at: None,
        concat: None,
        medium: Vec::new(),
        read: None,
    };
    let Some(sw) = swarm else { return r };
    if !f.chance(sw.rate_num, 8) {
        return r;
    }
    let nfaults = 1 + f.weighted(&[6, 3, 1]);
    let mut medium_left = 3;
    for _ in 0..nfaults {
        match *f.pick(&sw.enabled) {
            FaultKind::TornWrite => {
                let (at, _) = cut_pos(f, m);
                r.write_fail_at = Some(at as u32);
            }
            FaultKind::Truncate if medium_left > 0 => {
                let (at, class) = cut_pos(f, m);
                r.medium.push(Fault::Truncate { at: at as u32, class: class.into() });
                medium_left -= 1;
            }
            FaultKind::BitFlip if medium_left > 0 && !m.bytes.is_empty() => {
                let n = 1 + f.usize_below(3);
                let mut bits = Vec::new();
                for _ in 0..n {
                    let aimed: Vec<&Target> = m.targets.iter().filter(|t| t.class != Class::Other).collect();
                    if f.bool() && !aimed.is_empty() {
                        let t = aimed[f.usize_below(aimed.len())];
                        let byte = t.off + 7 - f.usize_below(2);
                        bits.push((byte * 8 + f.usize_below(8)) as u32);
                    } else {
                        bits.push(f.below(m.bytes.len() as u64 * 8) as u32);
                    }
                }
                r.medium.push(Fault::BitFlip { bits });
                medium_left -= 1;
            }
            FaultKind::Overwrite if medium_left > 0 => {
                if let Some(t) = pick_target(f, m) {
                    let val = overwrite_value(f, t);
                    r.medium.push(Fault::Overwrite { off: t.off as u32, val, class: t.class.name().into() });
                    medium_left -= 1;
                }
            }
            FaultKind::ZeroBlock if medium_left > 0 && m.bytes.len() >= 8 => {
                let off = 8 * f.usize_below(m.bytes.len() / 8);
                let len = 8 * *f.pick(&[1usize, 1, 2, 4, 8, 16]);
                r.medium.push(Fault::ZeroBlock { off: off as u32, len: len as u32 });
                medium_left -= 1;
            }
            FaultKind::Concat => {
                let partners: Vec<&Made> = all.iter().filter(|o| o.source == m.source && o.strict && o.bytes.len() <= 2048).collect();
                if !partners.is_empty() {
                    let p = partners[f.usize_below(partners.len())];
                    r.concat = Some(Concat { hex: hex::encode(&p.bytes), strict: true });
                }
            }
            FaultKind::Trailing if medium_left > 0 => {
                r.medium.push(Fault::Trailing { hex: hex::encode(junk(f, m)) });
                medium_left -= 1;
            }
            FaultKind::Eof => {
                let (at, _) = cut_pos(f, m);
                r.read = Some(ReadFault::Eof { at: at as u32 });
            }
            FaultKind::FailCall => {
                let (nr, ns, np) = calls;
                let (op, n) = match f.below(5) {
                    0 | 1 => (Op::Read, nr),
                    2 => (Op::Skip, ns),
                    3 if np > 0 => (Op::Peek, np),
                    _ => (Op::Any, nr + ns + np),
                };
                // one in ten lies beyond the last call and never fires
                let k = if f.chance(1, 10) { n + f.below(4) as u32 } else { f.below(n.max(1) as u64) as u32 };
                r.read = Some(ReadFault::FailCall { op, k });
            }
            FaultKind::WrongDecoder => {
                let others: Vec<Kind> = [Kind::Tx, Kind::Input, Kind::Output, Kind::Receipt, Kind::Policies, Kind::UtxoId]
                    .into_iter()
                    .filter(|k| *k != m.source)
                    .collect();
                // mostly the four decoders the property names
                r.decoder = if f.chance(7, 8) { others[f.usize_below(others.len().min(3))] } else { *f.pick(&others) };
            }
            _ => {}
        }
    }
    r
}
