//! Grammar-directed program generator with a tunable share of raw random words.
//!
//! Every item has a *safe* form (valid operands, owned memory, existing contracts, small
//! amounts) and a *wild* form (boundary operands, foreign memory, absent contracts, huge
//! amounts); `Mix.wild` is the per-run percentage of wild items, so most runs make real
//! progress through long programs and a minority dies at interesting places.
//!
//! Register conventions of generated code:
//!   0x10 TAB   table base (script: script-data pointer; contract: call parameter b)
//!   0x11 HEAP  pointer to a heap buffer of HEAP_BUF bytes
//!   0x12 STK   pointer to a stack buffer of STK_BUF bytes
//!   0x13..0x16 scratch A,B,C,D; 0x17..0x1f ALU noise; 0x20 loop counter; 0x21 link register

use super::asm::*;
use super::world::*;
use crate::kernel::Rng;
use fuel_asm::Opcode as O;

macro_rules! emit {
    ($s:expr, $w:expr) => {{
        let w = $w;
        $s.out.push(w);
    }};
}

pub const TAB: u8 = 0x10;
pub const HEAP: u8 = 0x11;
pub const STK: u8 = 0x12;
pub const A: u8 = 0x13;
pub const B: u8 = 0x14;
pub const C: u8 = 0x15;
pub const D: u8 = 0x16;
pub const CNT: u8 = 0x20;
pub const LINK: u8 = 0x21;
pub const HEAP_BUF: u32 = 512;
pub const STK_BUF: u32 = 256;

/// Per-run mix weights (swarm testing: each run draws its own).
#[derive(Debug, Clone)]
pub struct Mix {
    pub alu: u32,
    pub mem: u32,
    pub stack: u32,
    pub jump: u32,
    pub storage: u32,
    pub call: u32,
    pub transfer: u32,
    pub code: u32,
    pub log: u32,
    pub meta: u32,
    pub crypto: u32,
    pub raw: u32,
    pub fail: u32,
    pub wide: u32,
    /// Percentage of items generated in their wild form.
    pub wild: u32,
    pub unsafe_math: bool,
}

impl Mix {
    pub fn draw(g: &mut Rng, prop: &str) -> Mix {
        let lvl = |g: &mut Rng| *g.pick(&[0u32, 1, 2, 4, 8]);
        let mut m = Mix {
            alu: 1 + lvl(g),
            mem: lvl(g),
            stack: lvl(g) / 2,
            jump: lvl(g),
            storage: lvl(g),
            call: lvl(g),
            transfer: lvl(g),
            code: lvl(g) / 2,
            log: lvl(g) / 2,
            meta: lvl(g) / 2,
            crypto: lvl(g) / 4,
            raw: *g.pick(&[0u32, 0, 0, 0, 0, 0, 1, 2]),
            fail: *g.pick(&[0u32, 0, 0, 1, 1, 2]),
            wide: lvl(g) / 4,
            wild: *g.pick(&[0u32, 0, 0, 1, 2, 5, 20]),
            unsafe_math: !g.chance(1, 12),
        };
        // emphasis knobs
        match prop {
            "C24" => {
                m.mem += 6;
                m.stack += 3;
                m.call += 3;
                m.code += 2;
                m.wide += 1;
                m.wild = m.wild.max(3);
            }
            "C25" => m.jump += 8,
            "C26" => {
                m.call += 3;
                m.storage += 3;
                m.code += 2;
            }
            "C27" => {
                m.transfer += 8;
                m.call += 4;
            }
            "C28" => {
                m.fail += 1;
                m.call += 3;
                m.log += 2;
            }
            "C29" => {
                m.raw += 4;
                m.wild = m.wild.max(8);
                m.crypto += 2;
                m.wide += 1;
                m.storage += 3;
                m.call += 2;
            }
            "C30" => {
                m.call += 4;
                m.code += 5;
                m.transfer += 4;
                m.wild = m.wild.max(5);
            }
            "C33" => {
                m.storage += 10;
                m.call += 3;
            }
            "C34" => {
                m.call += 8;
                m.stack += 2;
                m.mem += 2;
            }
            _ => {}
        }
        m
    }
}

pub struct PGen<'a> {
    pub g: &'a mut Rng,
    pub out: Vec<u32>,
    pub is_script: bool,
    pub mix: &'a Mix,
    /// Contract slots [0, n_contracts) hold deployed contracts that are transaction inputs.
    pub n_contracts: usize,
    /// Index of the contract this program belongs to (contracts call only higher indices in
    /// safe mode, so call graphs are acyclic).
    pub self_index: Option<usize>,
    pub n_blobs: usize,
    /// Output indices of variable outputs (scripts).
    pub variable_outputs: Vec<u8>,
    pub noise: [u8; 9],
    /// Extra bytes of the stack buffer so that $sp is not always 8-aligned at calls.
    pub stk_pad: u32,
}

impl<'a> PGen<'a> {
    pub fn new(g: &'a mut Rng, is_script: bool, mix: &'a Mix, n_contracts: usize) -> Self {
        PGen {
            g,
            out: Vec::new(),
            is_script,
            mix,
            n_contracts,
            self_index: None,
            n_blobs: 0,
            variable_outputs: Vec::new(),
            noise: [0x17, 0x18, 0x19, 0x1a, 0x1b, 0x1c, 0x1d, 0x1e, 0x1f],
            stk_pad: 0,
        }
    }

    fn wild(&mut self) -> bool {
        self.mix.wild > 0 && self.g.below(100) < self.mix.wild as u64
    }

    fn nreg(&mut self) -> u8 {
        *self.g.pick(&self.noise)
    }

    /// Source register: noise, well-known, or any.
    fn sreg(&mut self) -> u8 {
        match self.g.below(10) {
            0 => ZERO,
            1 => ONE,
            2 => *self.g.pick(&[SP, SSP, HP, FP, PC, IS, CGAS, GGAS, BAL, RET, RETL, OF, ERR, FLAG]),
            3 => *self.g.pick(&[TAB, HEAP, STK, A, B, C, D]),
            _ => self.nreg(),
        }
    }

    /// movi + optional shifts to build an interesting constant.
    fn load_const(&mut self, r: u8, v: u64) {
        if v < (1 << 18) {
            emit!(self, ri18(O::MOVI, r, v as u32));
        } else if v == u64::MAX {
            emit!(self, r2(O::NOT, r, ZERO));
        } else {
            let mut started = false;
            for shift in (0..6).rev() {
                let part = ((v >> (shift * 12)) & 0xfff) as u32;
                if !started {
                    if part == 0 && shift > 0 {
                        continue;
                    }
                    emit!(self, ri18(O::MOVI, r, part));
                    started = true;
                } else {
                    emit!(self, ri12(O::SLLI, r, r, 12));
                    if part != 0 {
                        emit!(self, ri12(O::ORI, r, r, part));
                    }
                }
            }
        }
    }

    fn biased_small(&mut self) -> u64 {
        match self.g.below(8) {
            0 => 0,
            1 => 1,
            2 => 7,
            3 => 8,
            4 => 32,
            5 => self.g.below(64),
            6 => self.g.below(600),
            _ => self.g.below(1 << 12),
        }
    }

    /// Boundary-sized operand: around 2^64, 2^63, 2^32 and the end of VM memory.
    fn huge(&mut self) -> u64 {
        match self.g.below(9) {
            0 | 1 => u64::MAX - self.g.below(9),
            2 => 1u64 << 63,
            3 => (1u64 << 32) - 1 + self.g.below(3),
            4 => (1u64 << 26) - self.g.below(9),
            5 => (1u64 << 26) + self.g.below(9),
            // sizes a host could be asked to allocate
            6 => 1u64 << 40,
            7 => 1u64 << 34,
            _ => 1u64 << 62,
        }
    }

    /// Length / offset operand of a wild item: mostly small (capped), one in six boundary-sized.
    fn wild_len(&mut self, cap: u64) -> u64 {
        if self.g.below(6) == 0 { self.huge() } else { self.biased_small().min(cap) }
    }

    pub fn preamble(&mut self) {
        if self.is_script {
            emit!(self, ri12(O::GTF, TAB, ZERO, fuel_asm::GTFArgs::ScriptData as u32));
        } else {
            // parameter b of the call frame (word 74 from $fp)
            emit!(self, ri12(O::LW, TAB, FP, 74));
        }
        emit!(self, ri18(O::MOVI, A, HEAP_BUF));
        emit!(self, r1(O::ALOC, A));
        emit!(self, r2(O::MOVE, HEAP, HP));
        self.stk_pad = *self.g.pick(&[0u32, 0, 0, 0, 1, 3, 4, 5, 7]);
        emit!(self, r2(O::MOVE, STK, SP));
        emit!(self, i24(O::CFEI, STK_BUF + self.stk_pad));
        if self.mix.unsafe_math {
            emit!(self, ri18(O::MOVI, A, 3));
            emit!(self, r1(O::FLAG, A));
        }
    }

    fn addr_of_contract(&mut self, r: u8, i: usize) {
        emit!(self, ri12(O::ADDI, r, TAB, OFF_CONTRACTS + (i as u32 % NC as u32) * 32));
    }
    fn addr_of_asset(&mut self, r: u8, i: usize) {
        emit!(self, ri12(O::ADDI, r, TAB, OFF_ASSETS + (i as u32 % NA as u32) * 32));
    }
    fn addr_of_key(&mut self, r: u8, i: usize) {
        emit!(self, ri12(O::ADDI, r, TAB, OFF_KEYS + (i as u32 % NK as u32) * 32));
    }
    fn addr_of_addr(&mut self, r: u8, i: usize) {
        emit!(self, ri12(O::ADDI, r, TAB, OFF_ADDRS + (i as u32 % 2) * 32));
    }

    /// An existing input contract (safe) or any slot, including absent ones (wild).
    fn pick_contract(&mut self, wild: bool) -> usize {
        if wild || self.n_contracts == 0 {
            self.g.usize_below(NC)
        } else {
            self.g.usize_below(self.n_contracts)
        }
    }

    fn alu(&mut self) {
        let wild = self.wild();
        let d = if wild && self.g.chance(1, 4) { *self.g.pick(&[ZERO, ONE, PC, SP, HP, FP, IS, CGAS, FLAG]) } else { self.nreg() };
        let (x, y) = (self.sreg(), self.sreg());
        let imm = self.g.below(1 << 12) as u32;
        let w = match self.g.below(30) {
            0 => r3(O::ADD, d, x, y),
            1 => r3(O::SUB, d, x, y),
            2 => r3(O::MUL, d, x, y),
            3 => r3(O::DIV, d, x, y),
            4 => r3(O::AND, d, x, y),
            5 => r3(O::OR, d, x, y),
            6 => r3(O::XOR, d, x, y),
            7 => ri12(O::ADDI, d, x, imm),
            8 => ri12(O::MULI, d, x, imm),
            9 => ri18(O::MOVI, d, self.g.below(1 << 18) as u32),
            10 => r2(O::NOT, d, x),
            11 => r3(O::SLL, d, x, y),
            12 => r3(O::SRL, d, x, y),
            13 => r3(O::EXP, d, x, y),
            14 => r3(O::EQ, d, x, y),
            15 => r3(O::LT, d, x, y),
            16 => r3(O::GT, d, x, y),
            17 => r3(O::MOD, d, x, y),
            18 => r3(O::MLOG, d, x, y),
            19 => r3(O::MROO, d, x, y),
            20 => r2(O::MOVE, d, x),
            21 => ri12(O::SUBI, d, x, imm),
            22 => ri12(O::DIVI, d, x, imm),
            23 => ri12(O::MODI, d, x, imm),
            24 => ri12(O::XORI, d, x, imm),
            25 => ri12(O::SLLI, d, x, imm & 63),
            26 => r4(O::MLDV, d, x, y, self.sreg()),
            27 if wild => r4(O::NIOP, d, x, y, self.g.below(64) as u8),
            28 => ri12(O::EXPI, d, x, imm & 7),
            _ => r0_noop(),
        };
        emit!(self, w);
    }

    /// Address inside an owned buffer; `room` bytes are guaranteed to follow it.
    fn owned_addr(&mut self, r: u8, room: u32) -> u8 {
        let base = if self.g.bool() { HEAP } else { STK };
        let max = STK_BUF.saturating_sub(room).max(1);
        let off = match self.g.below(3) {
            0 => 0,
            1 => (self.g.below(max as u64 / 8 + 1) * 8) as u32,
            _ => self.g.below(max as u64) as u32,
        }
        .min(max - 1);
        emit!(self, ri12(O::ADDI, r, base, off));
        base
    }

    /// Foreign, unallocated or out-of-range address.
    fn foreign_addr(&mut self, r: u8) {
        match self.g.below(13) {
            // just beyond the own heap buffer: the caller's heap (or unallocated memory in a script)
            10 | 11 => emit!(self, ri12(O::ADDI, r, HEAP, HEAP_BUF + (self.g.below(40) * 8) as u32)),
            // the last bytes of the own heap buffer, so that a longer write spills into the caller's
            12 => emit!(self, ri12(O::ADDI, r, HEAP, HEAP_BUF - 32 + self.g.below(32) as u32)),
            0 => emit!(self, ri12(O::ADDI, r, TAB, self.g.below(TAB_LEN as u64) as u32)), // tx bytes
            1 => emit!(self, ri12(O::ADDI, r, IS, self.g.below(64) as u32)),               // code
            2 => emit!(self, ri12(O::ADDI, r, ZERO, self.g.below(400) as u32)),            // tx id / balances area
            3 => emit!(self, ri12(O::ADDI, r, SP, self.g.below(64) as u32)),               // just above $sp
            4 => emit!(self, ri12(O::SUBI, r, HP, 1 + self.g.below(64) as u32)),           // just below $hp
            5 => {
                let v = (1u64 << 26) - self.g.below(40);
                self.load_const(r, v)
            }
            6 => {
                let v = self.g.word_biased();
                self.load_const(r, v)
            }
            7 => emit!(self, ri12(O::SUBI, r, FP, self.g.below(64) as u32)), // caller's frame
            8 => emit!(self, ri12(O::ADDI, r, STK, STK_BUF - self.g.below(9) as u32)), // straddling $sp
            // a few bytes below $ssp, so that a write starts outside and ends inside the stack frame
            9 if self.g.bool() => emit!(self, ri12(O::SUBI, r, SSP, 1 + self.g.below(16) as u32)),
            _ => emit!(self, ri12(O::ADDI, r, SSP, 0)),
        }
    }

    fn mem(&mut self) {
        let wild = self.wild();
        if wild {
            self.foreign_addr(A);
        } else {
            self.owned_addr(A, 80);
        }
        let v = self.sreg();
        let d = self.nreg();
        let imm = if wild { self.g.below(1 << 12) as u32 } else { self.g.below(8) as u32 };
        match self.g.below(16) {
            0 => emit!(self, ri12(O::SW, A, v, imm)),
            1 => emit!(self, ri12(O::SB, A, v, imm)),
            2 => emit!(self, ri12(O::LW, d, A, imm)),
            3 => emit!(self, ri12(O::LB, d, A, imm)),
            4 => {
                // copy between the two owned buffers (never overlapping in safe form)
                let n = if wild { self.wild_len(1 << 12) } else { self.g.below(64) };
                emit!(self, ri12(O::ADDI, A, HEAP, self.g.below(64) as u32));
                if wild && self.g.bool() {
                    emit!(self, ri12(O::ADDI, B, HEAP, self.g.below(96) as u32));
                } else {
                    emit!(self, ri12(O::ADDI, B, STK, self.g.below(64) as u32));
                }
                self.load_const(C, n);
                if self.g.bool() {
                    emit!(self, r3(O::MCP, A, B, C));
                } else {
                    emit!(self, r3(O::MCP, B, A, C));
                }
            }
            5 => {
                emit!(self, ri12(O::ADDI, B, STK, self.g.below(64) as u32));
                emit!(self, ri12(O::ADDI, A, HEAP, self.g.below(64) as u32));
                let n = if wild { self.g.below(600) } else { self.g.below(64) } as u32;
                emit!(self, ri12(O::MCPI, A, B, n));
            }
            6 => {
                let n = if wild { self.wild_len(1 << 12) } else { self.g.below(64) };
                self.load_const(C, n);
                emit!(self, r2(O::MCL, A, C));
            }
            7 => emit!(self, ri18(O::MCLI, A, if wild { self.g.below(5000) } else { self.g.below(64) } as u32)),
            8 => {
                self.owned_addr(B, 80);
                let n = if wild { self.wild_len(1 << 12) } else { self.g.below(64) };
                self.load_const(C, n);
                emit!(self, r4(O::MEQ, d, A, B, C));
            }
            9 => emit!(self, ri12(O::SHW, A, v, imm & 15)),
            10 => emit!(self, ri12(O::SQW, A, v, imm & 15)),
            11 => emit!(self, ri12(O::LHW, d, A, imm & 15)),
            12 => emit!(self, ri12(O::LQW, d, A, imm & 15)),
            13 if wild => {
                // overlapping copy inside the heap buffer
                let off = self.g.below(64) as u32;
                emit!(self, ri12(O::ADDI, B, HEAP, off));
                emit!(self, ri12(O::MCPI, HEAP, B, self.g.below(128) as u32));
            }
            14 => {
                // allocate more heap and write through the fresh $hp
                let n = if wild { *self.g.pick(&[0u64, 1, 8, 64, 1000, 5000, 70_000]) } else { *self.g.pick(&[8u64, 16, 64, 1000, 20_000]) };
                self.load_const(C, n);
                emit!(self, r1(O::ALOC, C));
                if n >= 8 {
                    // observe the fresh allocation (must read as zero even on a reused instance):
                    // log all of it, or load its last word, before writing into it
                    match self.g.below(3) {
                        0 => emit!(self, r4(O::LOGD, ZERO, ZERO, HP, C)),
                        1 => {
                            let w = ((n / 8) - 1).min(4095) as u32;
                            emit!(self, ri12(O::LW, d, HP, w));
                            emit!(self, r4(O::LOG, d, ZERO, ZERO, ZERO));
                        }
                        _ => {}
                    }
                    emit!(self, ri12(O::SW, HP, v, 0));
                }
            }
            _ => emit!(self, ri12(O::SW, A, v, 0)),
        }
    }

    fn stack(&mut self) {
        let wild = self.wild();
        if !wild {
            // matched pairs keep $sp where the buffers expect it
            match self.g.below(3) {
                0 => {
                    let n = (self.g.below(25) * 8) as u32;
                    emit!(self, i24(O::CFEI, n));
                    if n >= 8 {
                        emit!(self, ri12(O::SUBI, A, SP, 8));
                        emit!(self, ri12(O::SW, A, self.sreg(), 0));
                    }
                    emit!(self, i24(O::CFSI, n));
                }
                1 => {
                    let mask = self.g.below(1 << 24) as u32;
                    emit!(self, i24(O::PSHL, mask));
                    self.alu();
                    emit!(self, i24(O::POPL, mask));
                }
                _ => {
                    let mask = self.g.below(1 << 24) as u32;
                    emit!(self, i24(O::PSHH, mask));
                    self.alu();
                    emit!(self, i24(O::POPH, mask));
                }
            }
            return;
        }
        match self.g.below(8) {
            0 => emit!(self, i24(O::CFEI, self.g.below(200) as u32)),
            1 => emit!(self, i24(O::CFSI, self.g.below(400) as u32)),
            2 => {
                let n = self.wild_len(1 << 12);
                self.load_const(C, n);
                emit!(self, r1(O::CFE, C));
            }
            3 => {
                let n = self.wild_len(1 << 12);
                self.load_const(C, n);
                emit!(self, r1(O::CFS, C));
            }
            4 => emit!(self, i24(O::PSHL, self.g.below(1 << 24) as u32)),
            5 => emit!(self, i24(O::POPL, self.g.below(1 << 24) as u32)),
            6 => emit!(self, i24(O::PSHH, self.g.below(1 << 24) as u32)),
            _ => emit!(self, i24(O::POPH, self.g.below(1 << 24) as u32)),
        }
    }

    fn jump(&mut self, depth: u32) {
        let wild = self.wild();
        let k = if wild { self.g.range(7, 10) } else { self.g.below(7) };
        match k {
            0 | 1 => {
                // forward skip over k instructions
                let k = self.g.range(0, 3) as u32;
                let c = self.sreg();
                let w = match self.g.below(4) {
                    0 => ri18(O::JMPF, ZERO, k),
                    1 => ri12(O::JNZF, c, ZERO, k),
                    2 => r4(O::JNEF, c, ZERO, ZERO, k as u8),
                    _ => ri12(O::JNZF, ONE, ZERO, k),
                };
                emit!(self, w);
                for _ in 0..k {
                    self.alu();
                }
            }
            2 | 3 | 4 => {
                // bounded loop
                if depth >= 2 {
                    return self.alu();
                }
                let n = self.g.range(1, 6);
                emit!(self, ri18(O::MOVI, CNT, n as u32));
                let start = self.out.len();
                let body = self.g.range(1, 4);
                for _ in 0..body {
                    self.item(depth + 1);
                }
                emit!(self, ri12(O::SUBI, CNT, CNT, 1));
                let here = self.out.len();
                let back = (here - start) as u32;
                if back >= 1 && back - 1 < (1 << 12) {
                    match self.g.below(3) {
                        0 => emit!(self, ri12(O::JNZB, CNT, ZERO, back - 1)),
                        1 => emit!(self, ri18(O::JNZI, CNT, start as u32)),
                        _ => emit!(self, r4(O::JNEB, CNT, ZERO, ZERO, (back - 1).min(63) as u8)),
                    }
                }
            }
            5 => {
                // jump-and-link subroutine: skip over a block, then call it
                let k = self.g.range(1, 3) as u32;
                emit!(self, ri18(O::JMPF, ZERO, k + 1));
                let block = self.out.len();
                for _ in 0..k {
                    self.alu();
                }
                emit!(self, ri12(O::JAL, ZERO, LINK, 0));
                self.load_const(A, (block as u64) * 4);
                emit!(self, r3(O::ADD, A, A, IS));
                emit!(self, ri12(O::JAL, LINK, A, 0));
            }
            6 => {
                // absolute jump forward by index
                let target = self.out.len() as u32 + 1 + self.g.below(3) as u32;
                if self.g.bool() {
                    emit!(self, i24(O::JI, target));
                } else {
                    let (x, y) = (self.sreg(), self.sreg());
                    emit!(self, ri12(O::JNEI, x, y, target));
                }
            }
            7 | 8 => {
                // register jumps with boundary-biased operands (mostly panic or land far away)
                let v = match self.g.below(8) {
                    0 => self.g.below(64),
                    1 => (1u64 << 24) - self.g.below(4),
                    2 => (1u64 << 26) / 4 - self.g.below(4),
                    3 => 1u64 << 62,
                    4 => u64::MAX,
                    // byte addresses around the end of memory (JAL takes bytes, unaligned allowed)
                    5 => (1u64 << 26) - self.g.below(10),
                    6 => u64::MAX - self.g.below(40),
                    _ => self.out.len() as u64 + 1,
                };
                self.load_const(A, v);
                let w = match self.g.below(7) {
                    0 => r1(O::JMP, A),
                    1 => r3(O::JNE, A, ZERO, ONE),
                    2 => ri18(O::JMPF, A, 0),
                    3 => ri18(O::JMPB, A, 0),
                    4 => ri12(O::JNZB, ONE, A, self.g.below(8) as u32),
                    5 => ri12(O::JAL, ZERO, A, self.g.below(3) as u32),
                    _ => ri12(O::JAL, LINK, A, self.g.below(8) as u32),
                };
                emit!(self, w);
            }
            9 => {
                // targets at the borders of the executable region: $ssp, $ssp-4, $is-4, $sp, $hp
                let base = *self.g.pick(&[SSP, SSP, SSP, IS, SP, HP]);
                match self.g.below(3) {
                    0 => emit!(self, ri12(O::JAL, ZERO, base, 0)),
                    1 => {
                        emit!(self, ri12(O::SUBI, A, base, 4));
                        emit!(self, ri12(O::JAL, LINK, A, 0));
                    }
                    _ => {
                        // same target through an $is-relative register jump
                        emit!(self, r3(O::SUB, A, base, IS));
                        emit!(self, ri12(O::DIVI, A, A, 4));
                        emit!(self, r1(O::JMP, A));
                    }
                }
            }
            _ => {
                // jump-and-link into a reserved link register
                if self.g.bool() {
                    emit!(self, ri12(O::JAL, *self.g.pick(&[ONE, SP, PC, 0x22]), PC, 1));
                } else {
                    // link register == target register: the target is the fresh link value
                    let r = *self.g.pick(&[LINK, A, 0x22]);
                    emit!(self, ri12(O::JAL, r, r, self.g.below(3) as u32));
                }
            }
        }
    }

    fn storage(&mut self) {
        let wild = self.wild();
        let k = self.g.usize_below(NK);
        self.addr_of_key(A, k);
        let d = self.nreg();
        let st = self.nreg();
        // destination of storage reads: the own heap buffer, or (wild) memory the frame does not own
        let dst = if wild && self.g.bool() {
            self.foreign_addr(D);
            D
        } else {
            HEAP
        };
        // scratch area of the heap buffer: [0,128) values, [128,176) call struct, [192,…) misc
        match self.g.below(16) {
            0 => emit!(self, r4(O::SRW, d, st, A, if wild { self.g.below(9) } else { self.g.below(4) } as u8)),
            1 | 15 => {
                let n = *self.g.pick(&[1u64, 1, 2, 3]);
                self.load_const(C, if wild { n * 3 } else { n });
                emit!(self, r4(O::SRWQ, dst, st, A, C));
            }
            2 => {
                let v = self.sreg();
                emit!(self, r3(O::SWW, A, st, v));
            }
            3 => {
                let n = *self.g.pick(&[1u64, 1, 2, 3]);
                self.load_const(C, if wild { n * 3 } else { n });
                emit!(self, r4(O::SWWQ, A, st, HEAP, C));
            }
            4 => {
                let n = *self.g.pick(&[1u64, 1, 2, 4]);
                self.load_const(C, n);
                emit!(self, r3(O::SCWQ, A, st, C));
            }
            5 => {
                let n = *self.g.pick(&[0u64, 1, 2, 3, 9]);
                self.load_const(C, n);
                emit!(self, r2(O::SCLR, A, C));
            }
            6 => {
                let (off, len) = if wild { (self.wild_len(40), self.wild_len(120)) } else { (self.g.below(8), self.g.below(24)) };
                self.load_const(B, off);
                self.load_const(C, len);
                emit!(self, r4(O::SRDD, dst, A, B, C));
            }
            7 => {
                let off = if wild { self.g.below(40) } else { self.g.below(8) };
                self.load_const(B, off);
                emit!(self, r4(O::SRDI, dst, A, B, if wild { self.g.below(64) } else { self.g.below(24) } as u8));
            }
            8 => {
                let len = *self.g.pick(&[0u64, 8, 31, 32, 33, 100]);
                self.load_const(C, len);
                emit!(self, r3(O::SWRD, A, HEAP, C));
            }
            9 => emit!(self, ri12(O::SWRI, A, HEAP, *self.g.pick(&[0u32, 8, 31, 32, 33, 120]))),
            10 => {
                let (off, len) = if wild { (self.wild_len(40), self.wild_len(64)) } else { (self.g.below(16), self.g.below(16)) };
                self.load_const(B, off);
                self.load_const(C, len);
                emit!(self, r4(O::SUPD, A, HEAP, B, C));
            }
            11 => {
                let off = if wild { self.g.below(40) } else { self.g.below(16) };
                self.load_const(B, off);
                emit!(self, r4(O::SUPI, A, HEAP, B, self.g.below(16) as u8));
            }
            12 => emit!(self, r2(O::SPLD, d, A)),
            13 if self.g.bool() => {
                // two dynamic reads back to back with no ALU instruction in between: whatever the
                // first one left in $err / $of is still there when the second one runs
                let k2 = self.g.usize_below(NK);
                self.addr_of_key(B, k2);
                emit!(self, ri12(O::ADDI, D, HEAP, 64));
                let d2 = self.nreg();
                for (key, buf, dd) in [(A, HEAP, d), (B, D, d2)] {
                    match self.g.below(3) {
                        0 => emit!(self, r4(O::SRDI, buf, key, ZERO, self.g.below(24) as u8)),
                        1 => emit!(self, r4(O::SRDD, buf, key, ZERO, ONE)),
                        _ => emit!(self, r2(O::SPLD, dd, key)),
                    }
                }
            }
            13 | 14 if self.g.bool() => {
                // a slot whose length is not a multiple of 8, then a word read at, before and after
                // its last (partial) word
                let len = *self.g.pick(&[1u32, 9, 12, 20, 31, 33, 47]);
                emit!(self, ri12(O::SWRI, A, HEAP, len));
                let at = (len / 8 + 2).saturating_sub(self.g.below(3) as u32).min(63);
                emit!(self, r4(O::SRW, d, st, A, at as u8));
            }
            13 => {
                // vary the bytes that get written
                emit!(self, ri12(O::SW, HEAP, self.sreg(), self.g.below(8) as u32));
            }
            _ => {
                // key at the 2^256-1 boundary, built in the heap buffer
                emit!(self, ri12(O::ADDI, B, HEAP, 192));
                emit!(self, r2(O::NOT, C, ZERO));
                for w in 0..4 {
                    emit!(self, ri12(O::SW, B, C, w));
                }
                if self.g.bool() {
                    emit!(self, ri12(O::SB, B, ZERO, 31));
                }
                let n = *self.g.pick(&[1u64, 2, 3]);
                self.load_const(C, n);
                match self.g.below(4) {
                    0 => emit!(self, r2(O::SCLR, B, C)),
                    1 => emit!(self, r4(O::SWWQ, B, st, HEAP, C)),
                    2 => emit!(self, r4(O::SRWQ, HEAP, st, B, C)),
                    _ => emit!(self, r3(O::SCWQ, B, st, C)),
                }
            }
        }
    }

    fn call(&mut self) {
        let wild = self.wild();
        let self_call = !self.is_script && self.self_index.is_some() && self.g.chance(1, 10);
        let i = if self_call {
            self.self_index.unwrap_or(0)
        } else if wild {
            self.g.usize_below(NC)
        } else {
            // acyclic: scripts call anything, contract i calls only higher indices
            let lo = self.self_index.map(|s| s + 1).unwrap_or(0);
            if lo >= self.n_contracts {
                return self.alu();
            }
            lo + self.g.usize_below(self.n_contracts - lo)
        };
        // copy the call struct to the heap buffer and patch b := TAB
        emit!(self, ri12(O::ADDI, A, TAB, OFF_CALLS + (i as u32 % NC as u32) * 48));
        emit!(self, ri12(O::ADDI, D, HEAP, 128));
        emit!(self, ri12(O::MCPI, D, A, 48));
        emit!(self, ri12(O::SW, D, TAB, 5));
        // coins
        let amount = if wild {
            match self.g.below(4) {
                0 => self.g.below(100_000),
                1 => self.g.word_biased(),
                _ => self.g.below(100),
            }
        } else {
            match self.g.below(4) {
                0 => self.g.range(1, 20),
                _ => 0,
            }
        };
        self.load_const(B, amount);
        let a = if wild { self.g.usize_below(NA) } else { 0 };
        self.addr_of_asset(C, a);
        // gas: all, a drawn amount, or tiny (a self-call gets little, so the recursion stays shallow)
        let gas_reg = match if self_call { 4 } else { self.g.below(if wild { 6 } else { 3 }) } {
            0 | 1 => CGAS,
            2 => {
                let v = self.g.range(2_000, 60_000);
                self.load_const(A, v);
                A
            }
            3 => {
                let v = self.g.below(60);
                self.load_const(A, v);
                A
            }
            4 => {
                let v = self.g.below(3000);
                self.load_const(A, v);
                A
            }
            _ => {
                let v = self.g.word_biased();
                self.load_const(A, v);
                A
            }
        };
        // one call in four is made with a live $of or $err (set by the instruction right before
        // it: any ALU instruction in between would clear them), or with a changed $flag
        match self.g.below(8) {
            0 => {
                let n = self.nreg();
                emit!(self, r2(O::NOT, n, ZERO));
                emit!(self, r3(O::MUL, n, n, n)); // $of != 0 when wrapping is on, else a panic
            }
            1 => {
                let n = self.nreg();
                emit!(self, r3(O::DIV, n, ONE, ZERO)); // $err = 1 when unsafe math is on, else a panic
            }
            2 if self.mix.unsafe_math => {
                let n = self.nreg();
                emit!(self, ri18(O::MOVI, n, 1 + self.g.below(3) as u32));
                emit!(self, r1(O::FLAG, n));
            }
            _ => {}
        }
        emit!(self, r4(O::CALL, D, B, C, gas_reg));
    }

    fn transfer(&mut self) {
        let wild = self.wild();
        let amount = if wild {
            match self.g.below(5) {
                0 => 0,
                1 => self.g.below(100_000),
                2 => self.g.word_biased(),
                _ => self.g.below(100),
            }
        } else {
            self.g.range(1, 9)
        };
        self.load_const(B, amount);
        let a = if wild { self.g.usize_below(NA) } else { 0 };
        self.addr_of_asset(C, a);
        let choice = self.g.below(9);
        match choice {
            0 | 1 => {
                let i = self.pick_contract(wild);
                self.addr_of_contract(A, i);
                emit!(self, r3(O::TR, A, B, C));
            }
            2 | 3 if wild || (self.is_script && !self.variable_outputs.is_empty()) => {
                let i = self.g.usize_below(2);
                self.addr_of_addr(A, i);
                let out_idx = if wild || self.variable_outputs.is_empty() { self.g.below(8) } else { *self.g.pick(&self.variable_outputs) as u64 };
                self.load_const(D, out_idx);
                emit!(self, r4(O::TRO, A, D, B, C));
            }
            4 | 5 if wild || !self.is_script => {
                // mint then burn part of it (sub id = a key slot)
                let k = self.g.usize_below(NK);
                self.addr_of_key(A, k);
                emit!(self, r2(O::MINT, B, A));
                if self.g.bool() {
                    let burn = if wild { self.g.below(20) } else { self.g.range(1, amount.max(1)) };
                    self.load_const(B, burn);
                    emit!(self, r2(O::BURN, B, A));
                }
            }
            6 => {
                let i = self.g.usize_below(2);
                self.addr_of_addr(A, i);
                let len = if wild { self.g.below(600) } else { self.g.below(40) };
                self.load_const(D, len);
                emit!(self, r4(O::SMO, A, HEAP, D, B));
            }
            _ => {
                let i = self.pick_contract(wild);
                self.addr_of_contract(A, i);
                let d = self.nreg();
                emit!(self, r3(O::BAL, d, C, A));
            }
        }
    }

    fn code(&mut self) {
        let wild = self.wild();
        let i = self.pick_contract(wild);
        self.addr_of_contract(A, i);
        let d = self.nreg();
        let blob = if wild || self.n_blobs == 0 { self.g.below(2) } else { self.g.below(self.n_blobs.min(2) as u64) } as u32;
        match self.g.below(8) {
            0 => emit!(self, r2(O::CSIZ, d, A)),
            1 => {
                if wild && self.g.bool() {
                    self.foreign_addr(B);
                } else {
                    emit!(self, ri12(O::ADDI, B, HEAP, 192));
                }
                emit!(self, r2(O::CROO, B, A));
            }
            2 => {
                let (off, len) = if wild { (self.wild_len(300), self.wild_len(400)) } else { (self.g.below(64), self.g.below(200)) };
                self.load_const(C, off);
                self.load_const(D, len);
                if wild && self.g.bool() {
                    self.foreign_addr(B);
                } else {
                    emit!(self, ri12(O::ADDI, B, HEAP, 256));
                }
                emit!(self, r4(O::CCP, B, A, C, D));
            }
            3 | 4 => {
                // LDC needs $sp == $ssp: drop the stack buffer, load, re-create the buffer
                if !wild || self.g.bool() {
                    emit!(self, i24(O::CFSI, STK_BUF + self.stk_pad));
                }
                let (off, len) = if wild && self.g.below(3) == 0 { (self.wild_len(64), self.wild_len(48)) } else { (self.g.below(16) * 4, self.g.below(12) * 4) };
                self.load_const(C, off);
                self.load_const(D, len);
                let mode = if self.n_blobs == 0 && !wild { 0 } else { self.g.below(3) as u8 };
                let src = match mode {
                    0 => A,
                    1 => {
                        emit!(self, ri12(O::ADDI, B, TAB, OFF_MISC + blob * 32));
                        B
                    }
                    _ => {
                        emit!(self, ri12(O::ADDI, B, HEAP, 0));
                        B
                    }
                };
                emit!(self, r4(O::LDC, src, C, D, mode));
                emit!(self, r2(O::MOVE, STK, SP));
                emit!(self, i24(O::CFEI, STK_BUF + self.stk_pad));
            }
            5 if self.n_blobs > 0 || wild => {
                emit!(self, ri12(O::ADDI, B, TAB, OFF_MISC + blob * 32));
                emit!(self, r2(O::BSIZ, d, B));
            }
            6 if self.n_blobs > 0 || wild => {
                emit!(self, ri12(O::ADDI, B, TAB, OFF_MISC + blob * 32));
                let (off, len) = if wild { (self.wild_len(300), self.wild_len(300)) } else { (self.g.below(8), self.g.below(100)) };
                self.load_const(C, off);
                self.load_const(D, len);
                if wild && self.g.bool() {
                    // destination the frame does not (fully) own: the zero-filled tail counts too
                    if self.g.bool() {
                        self.foreign_addr(A);
                    } else {
                        // starts in the last bytes of the own heap buffer and runs 24..120 bytes
                        // past its end (in a callee: into the caller's heap), reading from an
                        // offset around the end of the blob so that most of it is zero fill
                        emit!(self, ri12(O::ADDI, A, HEAP, HEAP_BUF - 8 * (1 + self.g.below(3) as u32)));
                        let l = 32 + 8 * self.g.below(12);
                        self.load_const(D, l);
                    }
                    emit!(self, r4(O::BLDD, A, B, C, D));
                } else {
                    emit!(self, r4(O::BLDD, HEAP, B, C, D));
                }
            }
            _ => {
                emit!(self, ri12(O::ADDI, B, HEAP, 192));
                emit!(self, r1(O::CB, B));
            }
        }
    }

    fn log(&mut self) {
        if self.g.bool() {
            let (a, b, c, d) = (self.sreg(), self.sreg(), self.sreg(), self.sreg());
            emit!(self, r4(O::LOG, a, b, c, d));
        } else {
            let wild = self.wild();
            if wild {
                self.foreign_addr(A);
            } else {
                self.owned_addr(A, 200);
            }
            let n = if wild { self.wild_len(1 << 12) } else { self.g.below(48) };
            self.load_const(C, n);
            let (a, b) = (self.sreg(), self.sreg());
            emit!(self, r4(O::LOGD, a, b, A, C));
        }
    }

    fn meta(&mut self) {
        let wild = self.wild();
        let d = self.nreg();
        match self.g.below(8) {
            0 => {
                let sel = if wild { self.g.range(0, 10) } else if self.is_script { self.g.range(4, 8) } else { *self.g.pick(&[1u64, 2, 4, 5, 6, 7, 8]) };
                emit!(self, ri18(O::GM, d, sel as u32));
            }
            1 if wild => {
                let idx = self.sreg();
                emit!(self, ri12(O::GTF, d, idx, self.g.below(0x500) as u32));
            }
            2 if self.g.bool() => {
                // look at an output of the own transaction while it runs: its amount through GTF,
                // and the same word through a plain load from the transaction's bytes in memory
                emit!(self, ri18(O::MOVI, C, self.g.below(4) as u32));
                emit!(self, ri12(O::GTF, d, C, 0x302));
                emit!(self, ri12(O::GTF, B, C, 0x301));
                let d2 = self.nreg();
                emit!(self, ri12(O::LW, d2, B, 4));
                emit!(self, r4(O::LOG, d, d2, ZERO, ZERO));
            }
            1 | 2 => {
                // selectors that exist for scripts with index 0
                let sel = *self.g.pick(&[0x001u32, 0x002, 0x003, 0x004, 0x005, 0x006, 0x007, 0x009, 0x00A]);
                emit!(self, ri12(O::GTF, d, ZERO, sel));
            }
            3 => emit!(self, r1(O::BHEI, d)),
            4 => {
                let h = if wild { self.sreg() } else { ZERO };
                emit!(self, r2(O::TIME, d, h));
            }
            5 => {
                let h = self.sreg();
                emit!(self, ri12(O::ADDI, B, HEAP, 192));
                emit!(self, r2(O::BHSH, B, h));
            }
            6 if wild => {
                let v = self.g.below(6);
                self.load_const(C, v);
                emit!(self, r1(O::FLAG, C));
            }
            _ => {
                let (a, b, c, dd) = (self.sreg(), self.sreg(), self.nreg(), self.sreg());
                emit!(self, r4(O::ECAL, a, b, c, dd));
            }
        }
    }

    fn crypto(&mut self) {
        let wild = self.wild();
        self.owned_addr(A, 200);
        let n = if wild { self.wild_len(400) } else { self.g.below(64) };
        self.load_const(C, n);
        if wild && self.g.bool() {
            self.foreign_addr(B);
        } else {
            emit!(self, ri12(O::ADDI, B, HEAP, 192));
        }
        match self.g.below(if wild { 9 } else { 3 }) {
            2 | 6 | 7 => {
                // alt_bn128 point operations on points of the heap buffer: curve 0, operation
                // add (0) or mul (1). Half of the time the operands are made valid first: the
                // generator G1 = (1, 2) twice (add) or G1 and a small scalar (mul); otherwise
                // whatever the buffer holds (all-zero = the point at infinity).
                emit!(self, ri12(O::ADDI, D, HEAP, 320));
                if self.g.bool() {
                    emit!(self, ri18(O::MCLI, D, 128));
                    emit!(self, ri12(O::SB, D, ONE, 31));
                    emit!(self, ri18(O::MOVI, C, 2));
                    emit!(self, ri12(O::SB, D, C, 63));
                    emit!(self, ri12(O::SB, D, if self.g.bool() { ONE } else { C }, 95));
                    emit!(self, ri12(O::SB, D, C, 127));
                }
                emit!(self, ri18(O::MOVI, C, self.g.below(2) as u32));
                emit!(self, r4(O::ECOP, B, ZERO, C, D));
            }
            8 => {
                // pairing check over 0..2 (all-zero = infinity) elements, or a boundary-sized count
                let n = if self.g.bool() { self.wild_len(3) } else { self.g.below(3) };
                self.load_const(C, n);
                emit!(self, ri12(O::ADDI, D, HEAP, 320));
                let dd = self.nreg();
                emit!(self, r4(O::EPAR, dd, ZERO, C, D));
            }
            0 => emit!(self, r3(O::S256, B, A, C)),
            1 => emit!(self, r3(O::K256, B, A, C)),
            3 => emit!(self, r3(O::ECK1, B, A, STK)),
            5 => emit!(self, r3(O::ECR1, B, A, STK)),
            4 => emit!(self, r4(O::ED19, B, A, STK, C)),
            _ => emit!(self, r3(O::S256, A, HEAP, C)),
        }
    }

    fn wide(&mut self) {
        let wild = self.wild();
        let op = *self.g.pick(&[
            O::WDCM, O::WQCM, O::WDOP, O::WQOP, O::WDML, O::WQML, O::WDDV, O::WQDV, O::WDMD, O::WQMD, O::WDAM, O::WQAM, O::WDMM, O::WQMM,
        ]);
        emit!(self, ri12(O::ADDI, A, HEAP, 256));
        emit!(self, ri12(O::ADDI, B, HEAP, 288));
        emit!(self, ri12(O::ADDI, C, STK, 32));
        if matches!(op, O::WDMD | O::WQMD | O::WDAM | O::WQAM | O::WDMM | O::WQMM) {
            // three operands by reference; the third (divisor / modulus) is made non-zero most of the time
            emit!(self, ri12(O::ADDI, D, STK, 64));
            if self.g.below(4) != 0 {
                let v = self.sreg();
                emit!(self, ri12(O::SB, D, ONE, 31));
                emit!(self, ri12(O::SW, D, v, 1));
            }
            let dst = if wild && self.g.below(4) == 0 { self.foreign_addr(A); A } else { A };
            emit!(self, r4(op, dst, B, C, D));
            return;
        }
        let d = if matches!(op, O::WDCM | O::WQCM) { self.nreg() } else { A };
        emit!(self, r4(op, d, B, C, if wild { self.g.below(64) as u8 } else { 0 }));
    }

    fn fail(&mut self) {
        match self.g.below(6) {
            0 => {
                let v = self.sreg();
                emit!(self, r1(O::RVRT, v));
            }
            1 => emit!(self, ri12(O::SW, ZERO, ONE, 0)), // ownership violation
            2 => emit!(self, 0xFFFF_FFFF),               // invalid opcode
            3 => {
                let v = self.sreg();
                emit!(self, r1(O::RET, v));
            }
            4 => {
                let n = self.g.below(64);
                self.load_const(C, n);
                emit!(self, r2(O::RETD, HEAP, C));
            }
            _ => {
                // division by zero with safe math
                emit!(self, r1(O::FLAG, ZERO));
                emit!(self, r3(O::DIV, self.noise[0], ONE, ZERO));
            }
        }
    }

    fn raw(&mut self) {
        let w = match self.g.below(4) {
            0 => self.g.next_u32(),
            1 => {
                // valid opcode byte, random operands
                let ops = [0x10u8, 0x1a, 0x24, 0x26, 0x27, 0x28, 0x2d, 0x32, 0x33, 0x34, 0x36, 0x3a, 0x3c, 0x3d, 0x47, 0x4a, 0x50, 0x5d, 0x5f, 0x60, 0x61, 0x71, 0x72, 0x73, 0x74, 0x75, 0x90, 0x91, 0x92, 0x95, 0x97, 0x99, 0xa0, 0xb0, 0xba, 0xbb, 0xc0, 0xc3];
                ((*self.g.pick(&ops) as u32) << 24) | (self.g.next_u32() & 0xff_ffff)
            }
            2 => ((self.g.below(0xd0) as u32) << 24) | (self.g.next_u32() & 0xff_ffff),
            _ => {
                let op = self.g.below(0xc8) as u32;
                (op << 24) | ((self.g.below(64) as u32) << 18) | ((self.g.below(64) as u32) << 12) | ((self.g.below(64) as u32) << 6)
            }
        };
        emit!(self, w);
    }

    pub fn item(&mut self, depth: u32) {
        let m = self.mix;
        let storage_w = if self.is_script { if m.wild > 0 { m.storage / 8 } else { 0 } } else { m.storage };
        let w = [m.alu, m.mem, m.stack, m.jump, storage_w, m.call, m.transfer, m.code, m.log, m.meta, m.crypto, m.raw, 0, m.wide];
        match self.g.weighted(&w) {
            0 => self.alu(),
            1 => self.mem(),
            2 => self.stack(),
            3 => self.jump(depth),
            4 => self.storage(),
            5 => self.call(),
            6 => self.transfer(),
            7 => self.code(),
            8 => self.log(),
            9 => self.meta(),
            10 => self.crypto(),
            11 => self.raw(),
            13 => self.wide(),
            _ => self.alu(),
        }
    }

    /// Receipt flood: `logs` LOG receipts in a tight loop before the ordinary items (C28: the
    /// 65 535-receipt limit and the two reserved slots).
    pub fn flood_program(mut self, logs: u64, n: usize, call_first: bool) -> Vec<u32> {
        self.preamble();
        self.load_const(CNT, logs);
        emit!(self, r4(O::LOG, CNT, ZERO, ZERO, ZERO));
        emit!(self, ri12(O::SUBI, CNT, CNT, 1));
        emit!(self, ri12(O::JNZB, CNT, ZERO, 1));
        if call_first {
            self.call();
        }
        for _ in 0..n {
            self.item(0);
        }
        emit!(self, r1(O::RET, ONE));
        self.out
    }

    /// Whole program: preamble, `n` items with failures spliced at seeded positions, epilogue.
    pub fn program(mut self, n: usize) -> Vec<u32> {
        self.preamble();
        let fail_den = 150u64;
        for _ in 0..n {
            if self.mix.fail > 0 && self.g.chance(self.mix.fail as u64, fail_den) {
                self.fail();
            }
            self.item(0);
        }
        // epilogue
        match self.g.below(8) {
            0 | 1 => {
                let n = self.g.below(48);
                self.load_const(C, n);
                emit!(self, r2(O::RETD, HEAP, C));
            }
            2 if self.mix.fail > 0 => emit!(self, r1(O::RVRT, ONE)),
            _ => emit!(self, r1(O::RET, ONE)),
        }
        self.out
    }
}

fn r0_noop() -> u32 {
    (O::NOOP as u32) << 24
}

/// Purely random instruction words (C29).
pub fn random_program(g: &mut Rng, n: usize) -> Vec<u32> {
    (0..n)
        .map(|_| match g.below(3) {
            0 => g.next_u32(),
            _ => ((g.below(0xc8) as u32) << 24) | (g.next_u32() & 0xff_ffff),
        })
        .collect()
}
