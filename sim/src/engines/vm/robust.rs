//! C29 — no input makes the VM crash, report an internal bug or run forever.
//! Host panics are caught by the kernel (`host-panic`); this module checks the rest.

use super::exec::*;
use super::world::*;
use crate::kernel::RunCtx;

pub struct Robust<'a> {
    pub default_schedule: bool,
    pub pokes: &'a [(u8, u64)],
    pub violation: Option<(String, String, String)>,
    pub opcodes_seen: std::collections::BTreeSet<u8>,
    pub executed: u64,
}

impl<'a> StepHook for Robust<'a> {
    fn before(&mut self, vm: &mut Vm, pre: &Pre) {
        if pre.step == 0 {
            for (r, v) in self.pokes {
                let r = *r as usize;
                if (16..64).contains(&r) {
                    vm.registers_mut()[r] = *v;
                }
            }
        }
    }

    fn after(&mut self, vm: &mut Vm, pre: &Pre, res: &StepResult) -> bool {
        self.executed += 1;
        if let Some(w) = pre.word {
            self.opcodes_seen.insert((w >> 24) as u8);
        }
        if let StepResult::Error { state, bug: true, .. } = res {
            self.violation = Some(("internal-bug".into(), "internal-bug".into(), format!("step {}: execution returned {state}", pre.step)));
            return false;
        }
        if matches!(res, StepResult::Continue) && vm.registers()[..] == pre.regs[..] {
            // nothing moved — not $pc, not the gas: the same instruction runs again forever
            self.violation = Some((
                "no-progress".into(),
                "no-progress".into(),
                format!("step {}: instruction {:#010x} completed and left every register (including $pc, $cgas, $ggas) unchanged: execution can never terminate", pre.step, pre.word.unwrap_or(0)),
            ));
            return false;
        }
        if self.default_schedule && matches!(res, StepResult::Continue) {
            let g0 = pre.regs[9];
            let g1 = vm.registers()[9];
            if g1 >= g0 {
                self.violation = Some((
                    "instruction-consumed-no-gas".into(),
                    "instruction-consumed-no-gas".into(),
                    format!("step {}: instruction {:#010x} executed under the default schedule but $ggas went {g0} -> {g1}", pre.step, pre.word.unwrap_or(0)),
                ));
                return false;
            }
        }
        true
    }
}

/// Observe one transaction under single-stepping with optional storage fault.
pub fn check_tx(world: &World, sc: &Scenario, i: usize, spec: &ScriptSpec, storage: super::storage::SimStorage, held: &mut Option<Vm>, ctx: &mut RunCtx) -> (bool, super::storage::SimStorage) {
    let ready = match prepare(world, sc.height, sc.gas_price, i, spec) {
        Ok(r) => r,
        Err(_) => return (false, storage),
    };
    let snapshot = storage.clone();
    let mut vm = match held.take() {
        Some(mut v) => {
            *v.as_mut() = storage;
            ctx.stats.inc("probe.tx_on_reused_interpreter");
            v
        }
        None => new_vm(world, sc.gas_price, storage, Default::default()),
    };
    let mut fault_armed = false;
    for (t, at) in &sc.plan.observer_faults {
        if *t as usize == i {
            vm.as_ref().fail_after(*at as u64);
            fault_armed = true;
        }
    }
    let before = vm.as_ref().errors_fired();
    let refused_before = vm.as_ref().rec.borrow().range_refused;
    let mut hook = Robust {
        default_schedule: sc.gas == GasSched::Default,
        pokes: &spec.reg_pokes,
        violation: None,
        opcodes_seen: Default::default(),
        executed: 0,
    };
    let mut plain = sc.plan.plain.contains(&(i as u8));
    if plain {
        // An uninterrupted transact cannot be stopped from inside the process. A single-stepped
        // dry run on a scratch interpreter over a copy of the storage goes first: if it shows a
        // violation (an instruction that makes no progress or consumes no gas would spin
        // forever) that is the verdict; if it hits the step cap the transaction is executed
        // single-stepped like the others.
        let mut dry_vm = new_vm(world, sc.gas_price, snapshot.clone(), Default::default());
        dry_vm.as_ref().clear_faults();
        let dry_ready = prepare(world, sc.height, sc.gas_price, i, spec);
        let mut dry_hook = Robust { default_schedule: hook.default_schedule, pokes: &[], violation: None, opcodes_seen: Default::default(), executed: 0 };
        if let Ok(r) = dry_ready {
            let dry = run_stepped(&mut dry_vm, r, &mut dry_hook, sc.plan.step_cap as u64);
            if let Some((inv, sig, detail)) = dry_hook.violation.take() {
                ctx.violate(&inv, &sig, format!("tx {i}: {detail}"));
                return (true, snapshot);
            }
            if dry.truncated {
                plain = false;
            }
        } else {
            plain = false;
        }
    }
    let o = if plain {
        ctx.stats.inc("probe.tx_uninterrupted");
        run_plain(&mut vm, ready)
    } else {
        run_stepped(&mut vm, ready, &mut hook, sc.plan.step_cap as u64)
    };
    let fired = vm.as_ref().errors_fired() > before;
    // the simulated disk's own refusal of an oversized slot range is an injected I/O error too
    let refused = vm.as_ref().rec.borrow().range_refused > refused_before;
    if refused {
        ctx.stats.inc("fault.storage_range_refused");
    }
    ctx.stats.add("time.instructions", o.steps);
    if fired {
        ctx.stats.inc("fault.storage_io_error");
    }
    if let Some((inv, sig, detail)) = hook.violation.take() {
        ctx.violate(&inv, &sig, format!("tx {i}: {detail}"));
        return (true, snapshot);
    }
    if o.bug {
        ctx.violate("internal-bug", "internal-bug", format!("tx {i}: execution returned {}", o.state));
        return (true, snapshot);
    }
    // A transaction rejected by the initialisation checks before any instruction ran (validity
    // error such as a balance overflow of inputs, or a missing input contract) is a rejected
    // transaction, not an execution; it is counted, not alarmed (DESIGN §6 C29).
    let rejected_at_init = o.is_err && o.steps == 0 && (o.state.starts_with("Err:CheckError(") || o.state == "Err:Panic(InputContractDoesNotExist)");
    if rejected_at_init {
        ctx.stats.inc("probe.rejected_at_init");
    }
    if o.is_err && !o.storage_error && !rejected_at_init {
        // The property allows a program state or a storage error only.
        ctx.violate("unexpected-error", &format!("unexpected-error:{}", o.state.split('(').next().unwrap_or("")), format!("tx {i}: execution ended with {} (neither a program state nor a storage error)", o.state));
        return (true, snapshot);
    }
    if o.storage_error && !((fault_armed && fired) || refused) {
        ctx.violate("storage-error-without-fault", "storage-error-without-fault", format!("tx {i}: storage error reported although no fault was injected"));
        return (true, snapshot);
    }
    if o.truncated {
        ctx.stats.inc("probe.step_cap_hit");
    }
    ctx.event("robust-tx", o.steps, crate::kernel::rng::fnv1a(o.state.as_bytes()));
    if (hook.executed >= 50 && hook.opcodes_seen.len() >= 10) || (fired && o.receipts.iter().any(|r| matches!(r, fuel_tx::Receipt::Call { .. }))) {
        ctx.nontrivial = true;
    }
    if o.truncated {
        // follow the reference for the state of later transactions
        let mut vm2 = new_vm(world, sc.gas_price, snapshot.clone(), Default::default());
        let o2 = run_plain(&mut vm2, prepare(world, sc.height, sc.gas_price, i, spec).unwrap());
        if o2.bug {
            ctx.violate("internal-bug", "internal-bug", format!("tx {i}: execution returned {}", o2.state));
            return (true, snapshot);
        }
        settle(&mut vm2, &snapshot, &o2);
        return (false, take_storage(&mut vm2));
    }
    settle(&mut vm, &snapshot, &o);
    let st = take_storage(&mut vm);
    if sc.plan.reuse_vm {
        *held = Some(vm);
    }
    (false, st)
}
