//! C30 — execution touches only the state of contracts listed as inputs. The recording storage
//! seam attributes every table access to the instruction being executed.

use super::exec::Vm;
use super::observer::*;
use super::storage::{Method, Table};
use crate::kernel::Stats;
use fuel_asm::Opcode;
use fuel_types::ContractId;
use std::collections::BTreeSet;

pub struct AccessMonitor {
    pub inputs: BTreeSet<ContractId>,
    /// Contracts that exist in storage but are not inputs (for the non-triviality rule).
    pub deployed: BTreeSet<ContractId>,
    pub foreign_ops: BTreeSet<u8>,
    /// Signatures listed as known findings: an access with such a signature is reported only
    /// when the step has no other offending access (a known one must not mask a new one).
    pub known: BTreeSet<String>,
}

impl Monitor for AccessMonitor {
    fn after(&mut self, vm: &mut Vm, info: &StepInfo, stats: &mut Stats) -> Option<Viol> {
        let opname = info.op.map(|o| format!("{o:?}")).unwrap_or_else(|| "?".into());
        // which contract id does the instruction address (for the reach probe)
        let mut first_known: Option<Viol> = None;
        for a in &info.log {
            if !matches!(a.table, Table::RawCode | Table::State | Table::Assets) {
                continue;
            }
            let Some(c) = a.contract else { continue };
            if self.inputs.contains(&c) {
                continue;
            }
            if self.deployed.contains(&c) {
                if let Some(o) = info.op {
                    self.foreign_ops.insert(o as u8);
                }
            }
            stats.inc_dyn(format!("probe.call_not_in_inputs.{opname}"));
            let sig = format!("non-input-access:{opname}:{:?}:{:?}", a.table, a.method);
            let v: Viol = (
                "non-input-contract-access".into(),
                sig.clone(),
                format!(
                    "step {}: {opname} performed {:?}::{:?} on contract {} which is not among the transaction's contract inputs",
                    info.pre.step,
                    a.table,
                    a.method,
                    hex::encode(c.as_ref())
                ),
            );
            if self.known.contains(&sig) {
                first_known.get_or_insert(v);
                continue;
            }
            return Some(v);
        }
        if first_known.is_some() {
            return first_known;
        }
        // the contract whose context is active is always an input
        if !info.finished && !info.errored {
            let fp = info.post[6];
            if fp != 0 {
                if let Ok(b) = vm.memory().read(fp, 32usize) {
                    let mut k = [0u8; 32];
                    k.copy_from_slice(b);
                    let id = ContractId::new(k);
                    if !self.inputs.contains(&id) {
                        return Some((
                            "active-contract-not-input".into(),
                            "active-contract-not-input".into(),
                            format!("step {}: after {opname} the active context is contract {} which is not an input", info.pre.step, hex::encode(k)),
                        ));
                    }
                }
            }
        }
        let _ = (Method::Get, Opcode::NOOP);
        None
    }
}
