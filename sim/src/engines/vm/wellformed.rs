//! C28 — execution outcomes and receipts are well formed.

use super::exec::*;
use super::replicas::RefTx;
use super::world::*;
use crate::kernel::RunCtx;
use crate::models::rfc6962;
use fuel_tx::field::{Outputs, ReceiptsRoot};
use fuel_tx::{Chargeable, Input, Output, Receipt, ScriptExecutionResult};
use fuel_types::canonical::{Deserialize as _, Serialize as _};
use fuel_types::AssetId;
use fuel_vm::checked_transaction::IntoChecked;
use fuel_vm::interpreter::{InterpreterParams, MemoryInstance};
use fuel_vm::memory_client::MemoryClient;
use std::collections::BTreeMap;

/// Receipt grammar + root + outputs of one completed transaction.
pub fn check_tx(world: &World, sc: &Scenario, i: usize, spec: &ScriptSpec, o: &Outcome, ctx: &mut RunCtx) -> bool {
    if o.is_err {
        // an execution that did not complete (storage error) owes no ScriptResult
        return false;
    }
    let n = o.receipts.len();
    if n > 65_535 {
        return ctx.violate("receipts-limit", "receipts-limit", format!("tx {i}: {n} receipts produced"));
    }
    let results: Vec<usize> = o.receipts.iter().enumerate().filter(|(_, r)| matches!(r, Receipt::ScriptResult { .. })).map(|(k, _)| k).collect();
    if results.len() != 1 || results[0] != n - 1 {
        return ctx.violate(
            "script-result-receipt",
            "script-result-receipt:count-or-position",
            format!("tx {i}: expected exactly one ScriptResult as the last of {n} receipts, found at positions {results:?}"),
        );
    }
    let (result, gas_used) = match &o.receipts[n - 1] {
        Receipt::ScriptResult { result, gas_used } => (*result, *gas_used),
        _ => return false,
    };
    let prev = if n >= 2 { Some(&o.receipts[n - 2]) } else { None };
    let prev_is_panic = matches!(prev, Some(Receipt::Panic { .. }));
    let prev_is_revert = matches!(prev, Some(Receipt::Revert { .. }));
    let is_panic = result == ScriptExecutionResult::Panic;
    if prev_is_panic != is_panic {
        return ctx.violate(
            "script-result-receipt",
            "script-result-receipt:panic-receipt",
            format!("tx {i}: result {result:?} but the receipt before ScriptResult is {:?}", prev.map(|r| format!("{r:?}").chars().take(60).collect::<String>())),
        );
    }
    let returned = o.state.starts_with("Return");
    if returned != (result == ScriptExecutionResult::Success) {
        return ctx.violate("script-result-receipt", "script-result-receipt:success", format!("tx {i}: program state {} but ScriptResult is {result:?}", o.state));
    }
    if (result == ScriptExecutionResult::Revert) != prev_is_revert {
        return ctx.violate("script-result-receipt", "script-result-receipt:revert", format!("tx {i}: ScriptResult {result:?} but the preceding receipt is {}a Revert", if prev_is_revert { "" } else { "not " }));
    }
    if matches!(result, ScriptExecutionResult::GenericFailure(_)) {
        return ctx.violate("script-result-receipt", "script-result-receipt:generic", format!("tx {i}: ScriptResult carries the unspecified result {result:?}"));
    }
    let panics = o.receipts.iter().filter(|r| matches!(r, Receipt::Panic { .. })).count();
    if panics > 1 || (panics == 1 && !is_panic) {
        return ctx.violate("script-result-receipt", "script-result-receipt:stray-panic", format!("tx {i}: {panics} Panic receipts with result {result:?}"));
    }

    // receipts root of the output transaction
    let tx = match fuel_tx::Script::from_bytes(&o.tx_bytes) {
        Ok(t) => t,
        Err(e) => return ctx.violate("output-tx", "output-tx:undecodable", format!("tx {i}: output transaction does not decode: {e:?}")),
    };
    let leaves: Vec<Vec<u8>> = o.receipts.iter().map(|r| r.to_bytes()).collect();
    let want = rfc6962::mth(&leaves);
    if tx.receipts_root().as_ref() != want {
        return ctx.violate(
            "receipts-root",
            "receipts-root",
            format!("tx {i}: receipts_root {} != RFC 6962 root {} of the {n} encoded receipts", hex::encode(tx.receipts_root().as_ref()), hex::encode(want)),
        );
    }

    // outputs after revert / panic
    if result != ScriptExecutionResult::Success {
        if is_panic && n >= 2 {
            ctx.stats.inc("probe.tx_panicked");
        }
        let orig = world.script_tx(i, spec);
        // initial free balance per asset: spendable (non message-data) inputs − coin outputs − max fee (base)
        let mut free: BTreeMap<AssetId, u128> = BTreeMap::new();
        for inp in fuel_tx::field::Inputs::inputs(&orig).iter() {
            match inp {
                Input::CoinSigned(c) => *free.entry(c.asset_id).or_default() += c.amount as u128,
                Input::MessageCoinSigned(m) => *free.entry(base_asset()).or_default() += m.amount as u128,
                _ => {}
            }
        }
        for out in orig.outputs() {
            if let Output::Coin { amount, asset_id, .. } = out {
                let e = free.entry(*asset_id).or_default();
                *e = e.saturating_sub(*amount as u128);
            }
        }
        let params = &world.params;
        let min_gas = orig.min_gas(params.gas_costs(), params.fee_params()) as u128;
        let factor = params.fee_params().gas_price_factor() as u128;
        let fee = ((min_gas + gas_used as u128) * sc.gas_price as u128).div_ceil(factor.max(1)) + spec.tip as u128;
        let base_left = free.get(&base_asset()).copied().unwrap_or(0);
        for (k, out) in tx.outputs().iter().enumerate() {
            match out {
                Output::Variable { to, amount, asset_id } => {
                    // The implementation zeroes the amount only; a stale recipient / asset with
                    // amount 0 is counted, not alarmed (an amount-0 variable output is void).
                    if *to != Default::default() || *asset_id != AssetId::zeroed() {
                        ctx.stats.inc("probe.reverted_variable_output_keeps_recipient");
                    }
                    if *amount != 0 {
                        return ctx.violate("outputs-after-revert", "outputs-after-revert:variable", format!("tx {i}: result {result:?} but variable output {k} holds amount {amount}"));
                    }
                }
                Output::Change { amount, asset_id, .. } => {
                    let want = if *asset_id == base_asset() {
                        // inputs − coin outputs − fee actually charged  (= initial free balance + refund)
                        base_left.saturating_sub(fee)
                    } else {
                        free.get(asset_id).copied().unwrap_or(0)
                    };
                    if *amount as u128 != want {
                        return ctx.violate(
                            "outputs-after-revert",
                            "outputs-after-revert:change",
                            format!("tx {i}: result {result:?}: change output {k} holds {amount}, expected initial free balance{} = {want}", if *asset_id == base_asset() { " plus refund" } else { "" }),
                        );
                    }
                }
                _ => {}
            }
        }
    }
    false
}

/// The real in-memory client must leave storage exactly as it was after a reverted or panicked
/// transaction, and agree with the simulator's embedder on the receipts.
pub fn check_memory_client(world: &World, sc: &Scenario, reference: &[RefTx], ctx: &mut RunCtx) -> bool {
    let params = InterpreterParams::new(sc.gas_price, &world.params);
    let mut client: MemoryClient<MemoryInstance, SimEcal> = MemoryClient::new(MemoryInstance::new(), world.genesis.clone(), params);
    for (i, spec) in sc.txs.iter().enumerate() {
        let Some(r) = &reference[i].outcome else { continue };
        if r.is_err {
            continue;
        }
        let tx = world.script_tx(i, spec);
        let Ok(checked) = tx.into_checked_basic(sc.height.into(), &world.params) else { continue };
        let before = format!("{:?}", AsRef::<fuel_vm::storage::MemoryStorage>::as_ref(&client));
        let receipts = client.transact(checked).to_vec();
        let after = format!("{:?}", AsRef::<fuel_vm::storage::MemoryStorage>::as_ref(&client));
        if receipts != r.receipts {
            return ctx.violate("memory-client", "memory-client:receipts-differ", format!("tx {i}: MemoryClient produced different receipts than the reference replica ({} vs {})", receipts.len(), r.receipts.len()));
        }
        let reverted = receipts.iter().any(|x| matches!(x, Receipt::Revert { .. } | Receipt::Panic { .. }));
        if reverted {
            ctx.stats.inc("probe.memory_client_revert");
            if before != after {
                return ctx.violate("storage-after-revert", "storage-after-revert:memory-client", format!("tx {i}: the in-memory client's storage changed although the transaction reverted/panicked"));
            }
        }
    }
    false
}
