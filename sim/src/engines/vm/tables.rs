//! C35 — bytecode upload, blob, deployment and upgrade state evolve as specified: histories of
//! Create / Blob / Upload / Upgrade transactions against a small table model, with failed or
//! aborted transactions leaving the five tables unchanged.

use super::exec::{classify_err, SimEcal};
use super::storage::{SimIoError, SimStorage, Table};
use crate::kernel::*;
use fuel_tx::{
    policies::Policies, BlobIdExt, ConsensusParameters, Contract, Input, Output, StorageSlot, Transaction, TxPointer, UpgradePurpose,
    UploadSubsection, UtxoId, Witness,
};
use fuel_types::{Address, AssetId, BlobId, Bytes32, Salt};
use fuel_vm::checked_transaction::IntoChecked;
use fuel_vm::error::InterpreterError;
use fuel_vm::interpreter::{Interpreter, InterpreterParams, MemoryInstance};
use fuel_vm::storage::{MemoryStorage, UploadedBytecode};
use serde::{Deserialize, Serialize};
use std::collections::BTreeMap;

#[derive(Debug, Clone, Serialize, Deserialize, PartialEq)]
pub enum TOp {
    /// Deploy contract `c` of the pool.
    Create { c: u8 },
    Blob { b: u8 },
    /// Upload subsection `idx` of bytecode `u`.
    Upload { u: u8, idx: u8 },
    /// Upgrade consensus parameters to variant `v`.
    UpgradeParams { v: u8 },
    /// Upgrade the state transition function to bytecode `u` (255 = unknown root).
    UpgradeStf { u: u8 },
    /// Block boundary: the chain's current versions move to the latest installed ones.
    NextBlock,
    /// A script's storage write, applied directly: slot `k` of deployed contract `c` becomes
    /// `[v; 32]` (the live state of a contract moves away from its initial slots).
    Poke { c: u8, k: u8, v: u8 },
}

#[derive(Debug, Clone, Serialize, Deserialize, PartialEq)]
pub struct TStep {
    pub op: TOp,
    /// Execute through the dedicated entry point (deploy/blob/upload/upgrade) or `transact`.
    pub generic_path: bool,
    /// Storage fault at the k-th storage call of this transaction (configuration B only).
    pub fault_at: Option<u8>,
}

#[derive(Debug, Clone, Serialize, Deserialize, PartialEq)]
pub struct Scenario {
    /// (code length, tag, salt, number of slots)
    pub contracts: Vec<(u16, u8, u8, u8)>,
    /// (length, tag)
    pub blobs: Vec<(u16, u8)>,
    /// (length, tag, subsection size)
    pub bytecodes: Vec<(u16, u8, u16)>,
    pub steps: Vec<TStep>,
    /// Configuration B: the embedder rolls back storage after a failed transaction.
    pub embedder_rollback: bool,
}

fn bytes_of(len: u16, tag: u8, salt: u64) -> Vec<u8> {
    Rng::new(salt ^ ((tag as u64) << 8)).bytes(len as usize)
}

#[derive(Clone, Default, PartialEq, Debug)]
struct Model {
    contracts: BTreeMap<[u8; 32], (Vec<u8>, Vec<([u8; 32], [u8; 32])>)>,
    blobs: BTreeMap<[u8; 32], Vec<u8>>,
    uploaded: BTreeMap<[u8; 32], (Vec<u8>, u16, bool)>,
    cp_versions: BTreeMap<u32, u64>,
    stf_versions: BTreeMap<u32, [u8; 32]>,
    cur_cp: u32,
    cur_stf: u32,
}

impl Model {
    fn expected_shadow(&self) -> BTreeMap<(Table, Vec<u8>), Vec<u8>> {
        let mut m = BTreeMap::new();
        let one = |v: &[u8]| {
            let mut x = vec![1u8];
            x.extend_from_slice(v);
            x
        };
        for (id, (code, slots)) in &self.contracts {
            m.insert((Table::RawCode, id.to_vec()), one(code));
            for (k, v) in slots {
                let mut kk = id.to_vec();
                kk.extend_from_slice(k);
                m.insert((Table::State, kk), one(v));
            }
        }
        for (id, data) in &self.blobs {
            m.insert((Table::Blob, id.to_vec()), one(data));
        }
        for (root, (bytes, n, complete)) in &self.uploaded {
            let v = if *complete {
                UploadedBytecode::Completed(bytes.clone())
            } else {
                UploadedBytecode::Uncompleted { bytecode: bytes.clone(), uploaded_subsections_number: *n }
            };
            m.insert((Table::Uploaded, root.to_vec()), one(format!("{v:?}").as_bytes()));
        }
        for (v, h) in &self.cp_versions {
            m.insert((Table::Meta, format!("cp:{v}").into_bytes()), one(&h.to_be_bytes()));
        }
        for (v, r) in &self.stf_versions {
            m.insert((Table::Meta, format!("stb:{v}").into_bytes()), one(r));
        }
        m
    }
}

fn params_variant(v: u8) -> ConsensusParameters {
    let mut p = ConsensusParameters::standard();
    p.set_block_gas_limit(30_000_000 + v as u64);
    p
}

pub struct Tables;

type Vm<Tx> = Interpreter<MemoryInstance, SimStorage, Tx, SimEcal>;

fn coin(owner: Address, n: usize) -> Input {
    let mut txid = [0u8; 32];
    txid[0] = n as u8;
    txid[1] = (n >> 8) as u8;
    txid[31] = 7;
    Input::coin_signed(UtxoId::new(Bytes32::new(txid), 0), owner, 1_000_000, AssetId::BASE, TxPointer::default(), 0)
}

enum Verdict {
    Ok,
    Panic(String),
    Storage,
    Other(String),
}

fn verdict<T>(r: Result<T, InterpreterError<SimIoError>>) -> Verdict {
    match r {
        Ok(_) => Verdict::Ok,
        Err(InterpreterError::Panic(p)) => Verdict::Panic(format!("{p:?}")),
        Err(InterpreterError::Storage(_)) => Verdict::Storage,
        Err(e) => Verdict::Other(classify_err(&e).0),
    }
}

impl Engine for Tables {
    type Scenario = Scenario;

    fn generate(_prop: &str, rng: &mut Rng, tier: Tier) -> Scenario {
        let mut g = rng.fork("gen");
        let mut f = rng.fork("fault");
        let faulty = g.below(3) != 0;
        let embedder_rollback = g.bool();
        let nc = g.range(1, 3) as usize;
        let contracts = (0..nc).map(|i| (*g.pick(&[0u16, 4, 40, 200]), i as u8, g.below(3) as u8, g.below(3) as u8)).collect();
        let nb = g.range(1, 3) as usize;
        let blobs = (0..nb).map(|i| (*g.pick(&[0u16, 1, 33, 300]), i as u8)).collect();
        let nu = g.range(1, 3) as usize;
        let bytecodes: Vec<(u16, u8, u16)> = (0..nu)
            .map(|i| {
                let len = *g.pick(&[1u16, 64, 200, 1000]);
                let parts = g.range(1, 5) as u16;
                (len, i as u8, (len / parts).max(1))
            })
            .collect();
        let nsteps = g.range(3, if tier == Tier::Thorough { 40 } else { 24 }) as usize;
        let mut steps = Vec::new();
        // per-root next index so that in-order uploads are common but not universal
        let mut next_idx = vec![0u8; nu];
        for _ in 0..nsteps {
            let op = match g.weighted(&[3, 3, 8, 3, 3, 2, 2]) {
                0 => TOp::Create { c: g.below(nc as u64) as u8 },
                1 => TOp::Blob { b: g.below(nb as u64) as u8 },
                2 => {
                    let u = g.below(nu as u64) as usize;
                    let (len, _, size) = bytecodes[u];
                    let parts = ((len as u32 + size as u32 - 1) / size as u32).max(1) as u8;
                    let idx = match g.below(6) {
                        0 => g.below(parts as u64) as u8, // out of order / duplicate
                        1 => next_idx[u].saturating_sub(1),
                        _ => {
                            let i = next_idx[u];
                            if i < parts {
                                next_idx[u] += 1;
                            }
                            i.min(parts - 1)
                        }
                    };
                    TOp::Upload { u: u as u8, idx }
                }
                3 => TOp::UpgradeParams { v: g.below(4) as u8 },
                4 => TOp::UpgradeStf { u: if g.chance(1, 6) { 255 } else { g.below(nu as u64) as u8 } },
                5 => TOp::NextBlock,
                _ => TOp::Poke { c: g.below(nc as u64) as u8, k: g.below(4) as u8, v: g.below(256) as u8 },
            };
            let fault_at = if faulty && embedder_rollback && f.chance(1, 5) { Some(f.below(6) as u8) } else { None };
            steps.push(TStep { op, generic_path: g.bool(), fault_at });
        }
        Scenario { contracts, blobs, bytecodes, steps, embedder_rollback }
    }

    fn run(_prop: &str, sc: &Scenario, ctx: &mut RunCtx) {
        if sc.contracts.is_empty() || sc.blobs.is_empty() || sc.bytecodes.is_empty() {
            return;
        }
        let params = ConsensusParameters::standard();
        let privileged = *params.privileged_address();
        let owner = Address::new([0x0A; 32]);
        let mut storage = SimStorage::new(MemoryStorage::new(1u32.into(), Default::default()));
        let mut model = Model::default();
        let iparams = InterpreterParams::new(0, &params);
        let policies = Policies::new().with_max_fee(0);
        let (mut rejected_kinds, mut completed_uploads, mut interleaved) = (std::collections::BTreeSet::new(), 0u32, false);
        let mut last_upload_root: Option<[u8; 32]> = None;

        for (n, step) in sc.steps.iter().enumerate() {
            // ---- predict ------------------------------------------------------------------
            let mut next = model.clone();
            let expect: Result<(), &'static str>;
            // ---- build the transaction and the prediction ----------------------------------
            enum Built {
                Create(fuel_tx::Create),
                Blob(fuel_tx::Blob),
                Upload(fuel_tx::Upload),
                Upgrade(fuel_tx::Upgrade),
                None,
            }
            let built = match &step.op {
                TOp::Create { c } => {
                    let (len, tag, salt, nslots) = sc.contracts[*c as usize % sc.contracts.len()];
                    let code = bytes_of(len, tag, 0xC0DE);
                    let salt = Salt::new([salt; 32]);
                    let mut slots: Vec<StorageSlot> = (0..nslots)
                        .map(|k| StorageSlot::new(Bytes32::new([k + 1; 32]), Bytes32::new([tag ^ 0x55; 32])))
                        .collect();
                    slots.sort();
                    let root = Contract::root_from_code(&code);
                    let state_root = Contract::initial_state_root(slots.iter());
                    let id = Contract::id(&salt, &root, &state_root);
                    let idb: [u8; 32] = id.into();
                    if model.contracts.contains_key(&idb) {
                        expect = Err("ContractIdAlreadyDeployed");
                    } else {
                        expect = Ok(());
                        next.contracts.insert(idb, (code.clone(), slots.iter().map(|s| ((*s.key()).into(), (*s.value()).into())).collect()));
                    }
                    Built::Create(Transaction::create(
                        0,
                        policies,
                        salt,
                        slots,
                        vec![coin(owner, n)],
                        vec![Output::contract_created(id, state_root)],
                        vec![Witness::from(code)],
                    ))
                }
                TOp::Blob { b } => {
                    let (len, tag) = sc.blobs[*b as usize % sc.blobs.len()];
                    let data = bytes_of(len, tag, 0xB10B);
                    let id: [u8; 32] = BlobId::compute(&data).into();
                    if model.blobs.contains_key(&id) {
                        expect = Err("BlobIdAlreadyUploaded");
                    } else {
                        expect = Ok(());
                        next.blobs.insert(id, data.clone());
                    }
                    Built::Blob(Transaction::blob_from_bytes(data, policies, vec![coin(owner, n)], vec![], vec![]))
                }
                TOp::Upload { u, idx } => {
                    let (len, tag, size) = sc.bytecodes[*u as usize % sc.bytecodes.len()];
                    let code = bytes_of(len, tag, 0x57F);
                    let subs = match UploadSubsection::split_bytecode(&code, size.max(1) as usize) {
                        Ok(s) if !s.is_empty() => s,
                        _ => continue,
                    };
                    let sub = subs[*idx as usize % subs.len()].clone();
                    let root: [u8; 32] = sub.root.into();
                    let (bytes, have, complete) = model.uploaded.get(&root).cloned().unwrap_or((vec![], 0, false));
                    if complete {
                        expect = Err("BytecodeAlreadyUploaded");
                    } else if sub.subsection_index != have {
                        expect = Err("ThePartIsNotSequentiallyConnected");
                    } else {
                        expect = Ok(());
                        let mut b = bytes;
                        b.extend_from_slice(&sub.subsection);
                        let done = have + 1 == sub.subsections_number;
                        if done {
                            // complete exactly when the last subsection arrives, holding the concatenation
                            if b != code {
                                ctx.violate("model-self-check", "model-self-check", "concatenation of subsections differs from the bytecode".into());
                                return;
                            }
                        }
                        next.uploaded.insert(root, (b, have + 1, done));
                    }
                    if let Some(l) = last_upload_root {
                        if l != root {
                            interleaved = true;
                        }
                    }
                    last_upload_root = Some(root);
                    Built::Upload(Transaction::upload_from_subsection(sub, policies, vec![coin(owner, n)], vec![], vec![]))
                }
                TOp::UpgradeParams { v } => {
                    let newp = params_variant(*v);
                    let h = rng::fnv1a(format!("{newp:?}").as_bytes());
                    let nextv = model.cur_cp.saturating_add(1);
                    if model.cp_versions.contains_key(&nextv) {
                        expect = Err("OverridingConsensusParameters");
                    } else {
                        expect = Ok(());
                        next.cp_versions.insert(nextv, h);
                    }
                    match Transaction::upgrade_consensus_parameters(&newp, policies, vec![coin(privileged, n)], vec![], vec![]) {
                        Ok(t) => Built::Upgrade(t),
                        Err(_) => Built::None,
                    }
                }
                TOp::UpgradeStf { u } => {
                    let root: [u8; 32] = if *u == 255 {
                        [0x77; 32]
                    } else {
                        let (len, tag, size) = sc.bytecodes[*u as usize % sc.bytecodes.len()];
                        let code = bytes_of(len, tag, 0x57F);
                        match UploadSubsection::split_bytecode(&code, size.max(1) as usize) {
                            Ok(s) if !s.is_empty() => s[0].root.into(),
                            _ => continue,
                        }
                    };
                    let complete = model.uploaded.get(&root).map(|x| x.2).unwrap_or(false);
                    let nextv = model.cur_stf.saturating_add(1);
                    if !complete {
                        expect = Err("UnknownStateTransactionBytecodeRoot");
                    } else if model.stf_versions.contains_key(&nextv) {
                        expect = Err("OverridingStateTransactionBytecode");
                    } else {
                        expect = Ok(());
                        next.stf_versions.insert(nextv, root);
                    }
                    Built::Upgrade(Transaction::upgrade(
                        UpgradePurpose::StateTransition { root: Bytes32::new(root) },
                        policies,
                        vec![coin(privileged, n)],
                        vec![],
                        vec![Witness::default()],
                    ))
                }
                TOp::Poke { c, k, v } => {
                    let (len, tag, salt, nslots) = sc.contracts[*c as usize % sc.contracts.len()];
                    let code = bytes_of(len, tag, 0xC0DE);
                    let mut slots: Vec<StorageSlot> = (0..nslots)
                        .map(|k| StorageSlot::new(Bytes32::new([k + 1; 32]), Bytes32::new([tag ^ 0x55; 32])))
                        .collect();
                    slots.sort();
                    let id = Contract::id(&Salt::new([salt; 32]), &Contract::root_from_code(&code), &Contract::initial_state_root(slots.iter()));
                    let idb: [u8; 32] = id.into();
                    if let Some((_, live)) = model.contracts.get_mut(&idb) {
                        let key = [*k + 1; 32];
                        let val = [*v; 32];
                        if fuel_vm::storage::InterpreterStorage::contract_state_insert(&mut storage, &id, &Bytes32::new(key), &val).is_ok() {
                            match live.iter_mut().find(|(kk, _)| *kk == key) {
                                Some(e) => e.1 = val,
                                None => live.push((key, val)),
                            }
                            storage.inner.commit();
                            ctx.stats.inc("probe.live_contract_state_changed");
                        }
                    }
                    continue;
                }
                TOp::NextBlock => {
                    model.cur_cp = model.cp_versions.keys().max().copied().unwrap_or(0).max(model.cur_cp);
                    model.cur_stf = model.stf_versions.keys().max().copied().unwrap_or(0).max(model.cur_stf);
                    storage.inner.set_consensus_parameters_version(model.cur_cp);
                    storage.inner.set_state_transition_version(model.cur_stf);
                    storage.inner.commit();
                    ctx.stats.inc("time.blocks");
                    continue;
                }
            };

            // ---- execute -------------------------------------------------------------------
            let snapshot = storage.clone();
            let before_calls = storage.errors_fired();
            let armed = sc.embedder_rollback && step.fault_at.is_some();
            let mut attempt = 0;
            let v = loop {
                attempt += 1;
                if armed && attempt == 1 {
                    storage.fail_after(step.fault_at.unwrap_or(0) as u64);
                }
                macro_rules! exec {
                    ($tx:expr, $ty:ty, $method:ident) => {{
                        match $tx.clone().into_checked_basic(1u32.into(), &params) {
                            Err(e) => {
                                ctx.stats.inc("probe.tx_rejected_at_check");
                                ctx.note(|| format!("step {n}: rejected at check: {e:?}"));
                                storage.clear_faults();
                                None
                            }
                            Ok(checked) => {
                                let ready = match checked.into_ready(0, params.gas_costs(), params.fee_params(), None) {
                                    Ok(r) => r,
                                    Err(_) => {
                                        storage.clear_faults();
                                        break Verdict::Other("not-ready".into());
                                    }
                                };
                                if step.generic_path {
                                    let mut vm: Vm<$ty> = Interpreter::with_storage(MemoryInstance::new(), std::mem::replace(&mut storage, SimStorage::new(MemoryStorage::default())), iparams.clone());
                                    let r = vm.transact(ready).map(|_| ());
                                    storage = std::mem::replace(vm.as_mut(), SimStorage::new(MemoryStorage::default()));
                                    Some(verdict(r))
                                } else {
                                    let mut vm: Vm<fuel_tx::Script> = Interpreter::with_storage(MemoryInstance::new(), std::mem::replace(&mut storage, SimStorage::new(MemoryStorage::default())), iparams.clone());
                                    let r = vm.$method(ready).map(|_| ());
                                    storage = std::mem::replace(vm.as_mut(), SimStorage::new(MemoryStorage::default()));
                                    Some(verdict(r))
                                }
                            }
                        }
                    }};
                }
                let r = match &built {
                    Built::Create(t) => exec!(t, fuel_tx::Create, deploy),
                    Built::Blob(t) => exec!(t, fuel_tx::Blob, blob),
                    Built::Upload(t) => exec!(t, fuel_tx::Upload, upload),
                    Built::Upgrade(t) => exec!(t, fuel_tx::Upgrade, upgrade),
                    Built::None => None,
                };
                storage.clear_faults();
                let Some(v) = r else { break Verdict::Other("rejected".into()) };
                let fired = storage.errors_fired() > before_calls;
                if attempt == 1 && armed && fired {
                    ctx.stats.inc("fault.storage_io_error");
                    if !matches!(v, Verdict::Storage) {
                        // a storage failure may only surface as a storage error
                        if let Verdict::Ok = v {
                            ctx.violate("storage-error-swallowed", "storage-error-swallowed", format!("step {n}: {:?} returned Ok although a storage call failed", step.op));
                            return;
                        }
                    }
                    // embedder: roll back, retry once faults stopped
                    let calls = storage.rec.borrow().clone();
                    storage = snapshot.clone();
                    storage.rec.borrow_mut().calls = calls.calls;
                    storage.rec.borrow_mut().errors_fired = calls.errors_fired;
                    continue;
                }
                break v;
            };
            ctx.stats.inc("time.transactions");
            if matches!(v, Verdict::Other(ref s) if s == "rejected") {
                continue;
            }

            // ---- judge ---------------------------------------------------------------------
            let opname = format!("{:?}", step.op).split(|c| c == ' ' || c == '{').next().unwrap_or("").to_string();
            match (&expect, &v) {
                (Ok(()), Verdict::Ok) => {
                    model = next;
                    storage.inner.commit();
                    if let TOp::Upload { .. } = step.op {
                        if model.uploaded.values().filter(|x| x.2).count() as u32 > completed_uploads {
                            completed_uploads += 1;
                            ctx.stats.inc("probe.upload_completed");
                        }
                    }
                }
                (Err(reason), Verdict::Panic(p)) if p == reason => {
                    rejected_kinds.insert(opname.clone());
                    ctx.stats.inc_dyn(format!("probe.rejected.{reason}"));
                    if sc.embedder_rollback {
                        let calls = storage.rec.borrow().clone();
                        storage = snapshot.clone();
                        storage.rec.borrow_mut().calls = calls.calls;
                        storage.rec.borrow_mut().errors_fired = calls.errors_fired;
                    }
                }
                (e, got) => {
                    let gs = match got {
                        Verdict::Ok => "Ok".to_string(),
                        Verdict::Panic(p) => format!("Panic({p})"),
                        Verdict::Storage => "Storage error".to_string(),
                        Verdict::Other(s) => s.clone(),
                    };
                    ctx.violate("table-verdict", &format!("table-verdict:{opname}"), format!("step {n}: {:?} returned {gs}, the table model expects {e:?}", step.op));
                    return;
                }
            }
            ctx.event("step", n as u64, expect.is_ok() as u64);
            // tables must equal the model: after success, and after failure WITHOUT any rollback
            let want = model.expected_shadow();
            if storage.shadow != want {
                let diff = storage
                    .shadow
                    .iter()
                    .find(|(k, v)| want.get(*k) != Some(*v))
                    .map(|(k, _)| format!("{:?}/{}", k.0, String::from_utf8_lossy(&k.1).chars().filter(|c| c.is_ascii_graphic()).take(12).collect::<String>()))
                    .or_else(|| want.keys().find(|k| !storage.shadow.contains_key(*k)).map(|k| format!("missing {:?}", k.0)))
                    .unwrap_or_default();
                let failed = expect.is_err();
                ctx.violate(
                    if failed { "failed-tx-changed-tables" } else { "tables-differ-from-model" },
                    &format!("{}:{opname}", if failed { "failed-tx-changed-tables" } else { "tables-differ-from-model" }),
                    format!("step {n}: after {:?} ({}) the tables differ from the model at {diff} (embedder rollback: {})", step.op, if failed { "rejected" } else { "accepted" }, sc.embedder_rollback),
                );
                return;
            }
        }
        if completed_uploads >= 1 && rejected_kinds.len() >= 2 {
            ctx.nontrivial = true;
        }
        if interleaved && completed_uploads >= 2 {
            ctx.stats.inc("probe.upload_interleaved_complete");
        }
    }

    fn shrink(_prop: &str, sc: &Scenario) -> Vec<Scenario> {
        let mut out = Vec::new();
        let n = sc.steps.len();
        if n > 1 {
            let mut a = sc.clone();
            a.steps.truncate(n / 2);
            out.push(a);
        }
        for i in (0..n).rev() {
            let mut a = sc.clone();
            a.steps.remove(i);
            out.push(a);
        }
        for i in 0..n {
            if sc.steps[i].fault_at.is_some() {
                let mut a = sc.clone();
                a.steps[i].fault_at = None;
                out.push(a);
            }
            if sc.steps[i].generic_path {
                let mut a = sc.clone();
                a.steps[i].generic_path = false;
                out.push(a);
            }
        }
        if sc.embedder_rollback {
            let mut a = sc.clone();
            a.embedder_rollback = false;
            out.push(a);
        }
        out
    }
}

fn describe(_prop: &str) -> EngineDescription {
    EngineDescription {
        rule: "Histories (3–24 steps quick, ≤ 40 thorough) over pools of 1–3 contracts, blobs and bytecodes (split into 1–5 subsections with the real UploadSubsection::split_bytecode): Create, Blob, Upload (in order, out of order, duplicate, interleaved between roots, after completion), Upgrade of consensus parameters and of the state-transition bytecode (complete / incomplete / unknown roots, same next version twice), block boundaries that advance the current versions; executed through Interpreter::{deploy, blob, upload, upgrade} and through the generic transact path. A table model predicts accept / panic reason and the post-tables; after EVERY transaction the five tables (shadow of all storage writes) must equal the model — without any embedder rollback in configuration A, with storage-transaction discipline plus injected storage errors and retry in configuration B. Non-trivial: ≥ 1 upload completed and rejected transactions of ≥ 2 kinds.".into(),
        real_components: vec![
            "fuel_vm Interpreter::{deploy, blob, upload, upgrade, transact} (deploy_inner, blob_inner, upload_inner, upgrade_inner)".into(),
            "checked-transaction pipeline (into_checked_basic, into_ready) incl. upload Merkle proof and upgrade checksum validation".into(),
            "fuel_tx UploadSubsection::split_bytecode, Contract::{root_from_code, initial_state_root, id}, BlobId::compute".into(),
            "MemoryStorage behind the SimStorage wrapper".into(),
        ],
        stub_components: vec!["SimStorage wrapper (shadow of all table writes, failing k-th call)".into(), "table model".into(), "embedder (configuration B: rollback after failure)".into()],
        assumptions: vec!["The chain's current versions change only at block boundaries (embedder), as MemoryStorage models it.".into()],
        distinct_state_measure: "distinct event digests over (step, accepted?)".into(),
        simulated_time_keys: vec!["transactions".into(), "blocks".into()],
    }
}

pub static TABLES: EngineDef = EngineDef {
    name: "vm-tables",
    props: &["C35"],
    generate: gen_erased::<Tables>,
    run: run_erased::<Tables>,
    shrink: shrink_erased::<Tables>,
    summarize: summarize_erased::<Tables>,
    describe,
    runs: |_| (150_000, 4_000_000),
};
