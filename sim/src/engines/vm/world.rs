//! Scenario data of the `vm` engine (a chain history executed by replicas) and the
//! deterministic construction of consensus parameters, genesis state and transactions from it.

use super::storage::SimStorage;
use crate::kernel::Rng;
use fuel_tx::{
    field::Witnesses as _, ConsensusParameters, Contract, GasCosts, Input, Output, policies::Policies, Script,
    StorageSlot, Transaction, TxPointer, UtxoId, Witness,
};
use fuel_tx::BlobIdExt;
use fuel_types::{Address, AssetId, BlobId, Bytes32, ContractId, Nonce, Salt};
use fuel_vm::storage::{
    BlobData, ContractsAssetsStorage, InterpreterStorage, MemoryStorage,
};
use fuel_storage::StorageMutate;
use serde::{Deserialize, Serialize};

// ---- table layout in script data ---------------------------------------------------------

pub const NC: usize = 6; // contract id slots
pub const NA: usize = 3; // asset id slots
/// Input-contract index naming a contract that does not exist.
pub const ABSENT_INPUT: u8 = 254;
pub const NK: usize = 8; // storage key slots
pub const OFF_CONTRACTS: u32 = 0;
pub const OFF_ASSETS: u32 = OFF_CONTRACTS + (NC as u32) * 32; // 192
pub const OFF_KEYS: u32 = OFF_ASSETS + (NA as u32) * 32; // 288
pub const OFF_ADDRS: u32 = OFF_KEYS + (NK as u32) * 32; // 544
pub const OFF_CALLS: u32 = OFF_ADDRS + 2 * 32; // 608
pub const OFF_MISC: u32 = OFF_CALLS + (NC as u32) * 48; // 896
pub const TAB_LEN: u32 = OFF_MISC + 2 * 32; // 960

#[derive(Debug, Clone, Serialize, Deserialize, PartialEq)]
pub enum GasSched {
    Default,
    Unit,
    /// Every field a different prime-ish value so that any cost mix-up is visible.
    Randomized { seed: u64 },
    /// A seeded subset of the fixed (non-dependent, non-control-flow) costs is zero.
    SparseZero { seed: u64 },
}

#[derive(Debug, Clone, Serialize, Deserialize, PartialEq)]
pub struct ContractSpec {
    /// Instruction words.
    pub code: Vec<u32>,
    pub salt: u8,
    /// (key slot index of the table, 32-byte value tag)
    pub slots: Vec<(u8, u8)>,
    /// (asset index, amount)
    pub balances: Vec<(u8, u64)>,
    /// Deployed at genesis (true) or only listed in the table as an absent id (false).
    pub deployed: bool,
}

#[derive(Debug, Clone, Serialize, Deserialize, PartialEq)]
pub enum OutSpec {
    Change { asset: u8 },
    Variable,
    Coin { asset: u8, amount: u64 },
}

#[derive(Debug, Clone, Serialize, Deserialize, PartialEq)]
pub struct ScriptSpec {
    pub script: Vec<u32>,
    /// Extra bytes appended after the table in script data.
    pub data_tail: Vec<u8>,
    pub gas_limit: u64,
    pub max_fee: u64,
    pub tip: u64,
    /// (asset index, amount)
    pub coins: Vec<(u8, u64)>,
    /// (amount, data length) — message inputs (data length 0 = message coin).
    pub messages: Vec<(u64, u8)>,
    /// Indices into `Scenario.contracts` listed as contract inputs.
    pub input_contracts: Vec<u8>,
    pub outputs: Vec<OutSpec>,
    /// Initial register / memory pokes (C29): (register, value)
    pub reg_pokes: Vec<(u8, u64)>,
    /// The second coin input belongs to another owner, so the transaction has no unique owner.
    #[serde(default)]
    pub two_owners: bool,
}

#[derive(Debug, Clone, Serialize, Deserialize, PartialEq)]
pub struct Scenario {
    pub gas: GasSched,
    pub gas_price: u64,
    pub height: u32,
    pub contracts: Vec<ContractSpec>,
    /// Genesis blobs (byte length, tag).
    pub blobs: Vec<(u16, u8)>,
    /// Storage key pool (hex 32 bytes), NK entries.
    pub keys: Vec<String>,
    pub txs: Vec<ScriptSpec>,
    pub plan: super::plan::Plan,
    /// The chain's base asset id is not the all-zero id (as on the real network).
    #[serde(default)]
    pub base_nonzero: bool,
}

thread_local! {
    /// Base asset id of the world being simulated (set by `World::build`; a run is single-threaded).
    static BASE_ASSET: std::cell::Cell<[u8; 32]> = const { std::cell::Cell::new([0u8; 32]) };
}

/// The base asset of the current world.
pub fn base_asset() -> AssetId {
    AssetId::new(BASE_ASSET.with(|b| b.get()))
}

// ---- derived world -------------------------------------------------------------------------

pub fn asset(i: u8) -> AssetId {
    if i == 0 {
        base_asset()
    } else if i == 2 && base_asset() != AssetId::zeroed() {
        // on a chain whose base asset is not the all-zero id, the all-zero id is an ordinary asset
        AssetId::zeroed()
    } else {
        AssetId::new([i; 32])
    }
}

pub fn unhex32(s: &str) -> [u8; 32] {
    let mut h = [0u8; 32];
    if let Ok(b) = hex::decode(s) {
        let n = b.len().min(32);
        h[..n].copy_from_slice(&b[..n]);
    }
    h
}

pub fn code_bytes(code: &[u32]) -> Vec<u8> {
    code.iter().flat_map(|w| w.to_be_bytes()).collect()
}

pub fn blob_bytes(len: u16, tag: u8) -> Vec<u8> {
    Rng::new(0xB10B_0000 ^ tag as u64).bytes(len as usize)
}

pub struct World {
    pub params: ConsensusParameters,
    pub contract_ids: Vec<ContractId>,
    pub blob_ids: Vec<BlobId>,
    pub keys: Vec<[u8; 32]>,
    pub genesis: MemoryStorage,
}

fn slot_value(tag: u8) -> [u8; 32] {
    let mut v = [0u8; 32];
    let b = Rng::new(0x5107_0000 ^ tag as u64).bytes(32);
    v.copy_from_slice(&b);
    v
}

pub fn contract_id_of(spec: &ContractSpec, keys: &[[u8; 32]]) -> ContractId {
    let code = code_bytes(&spec.code);
    let salt = Salt::new([spec.salt; 32]);
    let slots = slots_of(spec, keys);
    let root = Contract::root_from_code(&code);
    let state_root = Contract::initial_state_root(slots.iter());
    Contract::id(&salt, &root, &state_root)
}

pub fn slots_of(spec: &ContractSpec, keys: &[[u8; 32]]) -> Vec<StorageSlot> {
    let mut slots: Vec<StorageSlot> = Vec::new();
    for (k, t) in &spec.slots {
        if keys.is_empty() {
            break;
        }
        let key = keys[*k as usize % keys.len()];
        if slots.iter().any(|s| s.key().as_ref() == key) {
            continue;
        }
        slots.push(StorageSlot::new(Bytes32::new(key), Bytes32::new(slot_value(*t))));
    }
    slots.sort();
    slots
}

pub fn gas_costs(g: &GasSched) -> GasCosts {
    match g {
        GasSched::Default => GasCosts::default(),
        GasSched::Unit => GasCosts::unit(),
        GasSched::Randomized { seed } => mutate_costs(*seed, false),
        GasSched::SparseZero { seed } => mutate_costs(*seed, true),
    }
}

/// Costs that must stay ≥ 1 so that every cycle of an execution consumes gas.
const NEVER_ZERO: &[&str] = &[
    "ji", "jmp", "jne", "jnei", "jnzi", "jmpf", "jmpb", "jnzf", "jnzb", "jnef", "jneb", "jal", "call", "ret_contract",
    "retd_contract", "rvrt_contract",
];

fn mutate_costs(seed: u64, sparse_zero: bool) -> GasCosts {
    use fuel_tx::consensus_parameters::gas::GasCostsValues;
    let mut r = Rng::new(seed ^ 0x6A5C);
    let base = GasCostsValues::default();
    let mut v = serde_json::to_value(&base).expect("gas costs serialize");
    fn walk(v: &mut serde_json::Value, r: &mut Rng, sparse_zero: bool, name: &str, counter: &mut u64) {
        match v {
            serde_json::Value::Object(o) => {
                let is_dependent = o.contains_key("base");
                if is_dependent {
                    if sparse_zero {
                        return;
                    }
                    for (k, x) in o.iter_mut() {
                        if let serde_json::Value::Number(_) = x {
                            *counter += 1;
                            let val = match k.as_str() {
                                "base" => 3 + (*counter * 7) % 97,
                                "units_per_gas" => 1 + r.below(9),
                                _ => 1 + r.below(5),
                            };
                            *x = serde_json::Value::from(val);
                        }
                    }
                    return;
                }
                let keys: Vec<String> = o.keys().cloned().collect();
                for k in keys {
                    if let Some(x) = o.get_mut(&k) {
                        walk(x, r, sparse_zero, &k, counter);
                    }
                }
            }
            serde_json::Value::Number(_) => {
                *counter += 1;
                if sparse_zero {
                    if !NEVER_ZERO.contains(&name) && name != "new_storage_per_byte" && r.chance(1, 3) {
                        *v = serde_json::Value::from(0u64);
                    }
                } else {
                    // distinct small values: 2 + index*3 (+ jitter) stays below a few hundred
                    *v = serde_json::Value::from(2 + *counter * 3 + r.below(3));
                }
            }
            _ => {}
        }
    }
    let mut counter = 0;
    walk(&mut v, &mut r, sparse_zero, "", &mut counter);
    match serde_json::from_value::<GasCostsValues>(v) {
        Ok(vals) => GasCosts::new(vals),
        Err(_) => GasCosts::default(),
    }
}

impl World {
    pub fn build(sc: &Scenario) -> World {
        let mut params = ConsensusParameters::standard();
        params.set_gas_costs(gas_costs(&sc.gas));
        let base = if sc.base_nonzero { [0xB5u8; 32] } else { [0u8; 32] };
        BASE_ASSET.with(|b| b.set(base));
        params.set_base_asset_id(AssetId::new(base));
        let keys: Vec<[u8; 32]> = sc.keys.iter().map(|k| unhex32(k)).collect();
        let mut st = MemoryStorage::new(sc.height.into(), ContractId::new([0xCB; 32]));
        let mut contract_ids = Vec::new();
        for spec in &sc.contracts {
            let id = contract_id_of(spec, &keys);
            contract_ids.push(id);
            if spec.deployed {
                let code = code_bytes(&spec.code);
                let slots = slots_of(spec, &keys);
                st.deploy_contract_with_id(&slots, &code, &id).unwrap();
                for (a, amt) in &spec.balances {
                    st.contract_asset_id_balance_insert(&id, &asset(*a % NA as u8), *amt).unwrap();
                }
            }
        }
        let mut blob_ids = Vec::new();
        for (len, tag) in &sc.blobs {
            let data = blob_bytes(*len, *tag);
            let id = BlobId::compute(&data);
            StorageMutate::<BlobData>::insert(&mut st, &id, &data).unwrap();
            blob_ids.push(id);
        }
        st.commit();
        st.persist();
        World { params, contract_ids, blob_ids, keys, genesis: st }
    }

    pub fn storage(&self) -> SimStorage {
        SimStorage::new(self.genesis.clone())
    }

    /// The table placed at the start of every script's data.
    pub fn table(&self) -> Vec<u8> {
        let mut t = vec![0u8; TAB_LEN as usize];
        for i in 0..NC {
            let id = self.contract_ids.get(i).copied().unwrap_or(ContractId::new([0xEE; 32]));
            let o = OFF_CONTRACTS as usize + i * 32;
            t[o..o + 32].copy_from_slice(id.as_ref());
            // call struct: to, a, b (b patched at run time by the program)
            let c = OFF_CALLS as usize + i * 48;
            t[c..c + 32].copy_from_slice(id.as_ref());
            t[c + 32..c + 40].copy_from_slice(&(i as u64 + 1).to_be_bytes());
        }
        for i in 0..NA {
            let o = OFF_ASSETS as usize + i * 32;
            t[o..o + 32].copy_from_slice(asset(i as u8).as_ref());
        }
        for i in 0..NK {
            let o = OFF_KEYS as usize + i * 32;
            let k = self.keys.get(i).copied().unwrap_or([i as u8; 32]);
            t[o..o + 32].copy_from_slice(&k);
        }
        for i in 0..2 {
            let o = OFF_ADDRS as usize + i * 32;
            t[o..o + 32].copy_from_slice(&[0xA0 + i as u8; 32]);
        }
        for i in 0..2 {
            let o = OFF_MISC as usize + i * 32;
            let id = self.blob_ids.get(i).copied().unwrap_or(BlobId::new([0xBB; 32]));
            t[o..o + 32].copy_from_slice(id.as_ref());
        }
        t
    }

    pub fn input_contract_ids(&self, spec: &ScriptSpec) -> Vec<ContractId> {
        let mut v = Vec::new();
        for i in &spec.input_contracts {
            if let Some(id) = self.contract_ids.get(*i as usize) {
                if !v.contains(id) {
                    v.push(*id);
                }
            } else if *i == ABSENT_INPUT {
                // an input contract that was never deployed: the VM refuses the transaction
                let id = ContractId::new([0xEE; 32]);
                if !v.contains(&id) {
                    v.push(id);
                }
            }
        }
        v
    }

    /// Build the script transaction of a spec (deterministic; no signatures are needed
    /// because the replicas use the basic checks — signature checking is C20's business).
    pub fn script_tx(&self, idx: usize, spec: &ScriptSpec) -> Script {
        let mut inputs = Vec::new();
        let mut outputs = Vec::new();
        let owner = Address::new([0x0A; 32]);
        for (j, (a, amount)) in spec.coins.iter().enumerate() {
            let mut txid = [0u8; 32];
            txid[0] = idx as u8;
            txid[1] = j as u8;
            txid[31] = 1;
            inputs.push(Input::coin_signed(
                UtxoId::new(Bytes32::new(txid), j as u16),
                if spec.two_owners && j == 1 { Address::new([0x0B; 32]) } else { owner },
                *amount,
                asset(*a % NA as u8),
                TxPointer::default(),
                0,
            ));
        }
        for (j, (amount, dlen)) in spec.messages.iter().enumerate() {
            let mut nonce = [0u8; 32];
            nonce[0] = idx as u8;
            nonce[1] = j as u8;
            nonce[31] = 2;
            let sender = Address::new([0x5E; 32]);
            if *dlen == 0 {
                inputs.push(Input::message_coin_signed(sender, owner, *amount, Nonce::new(nonce), 0));
            } else {
                let data = Rng::new(0xDA7A ^ j as u64).bytes(*dlen as usize);
                inputs.push(Input::message_data_signed(sender, owner, *amount, Nonce::new(nonce), 0, data));
            }
        }
        for (j, id) in self.input_contract_ids(spec).into_iter().enumerate() {
            let mut txid = [0u8; 32];
            txid[0] = idx as u8;
            txid[1] = j as u8;
            txid[31] = 3;
            let input_index = inputs.len() as u16;
            inputs.push(Input::contract(
                UtxoId::new(Bytes32::new(txid), 0),
                Bytes32::zeroed(),
                Bytes32::zeroed(),
                TxPointer::default(),
                id,
            ));
            outputs.push(Output::contract(input_index, Bytes32::zeroed(), Bytes32::zeroed()));
        }
        for o in &spec.outputs {
            match o {
                OutSpec::Change { asset: a } => outputs.push(Output::change(owner, 0, asset(*a % NA as u8))),
                OutSpec::Variable => outputs.push(Output::variable(Address::zeroed(), 0, AssetId::zeroed())),
                OutSpec::Coin { asset: a, amount } => {
                    outputs.push(Output::coin(Address::new([0xC0; 32]), *amount, asset(*a % NA as u8)))
                }
            }
        }
        let mut data = self.table();
        data.extend_from_slice(&spec.data_tail);
        let policies = Policies::new().with_max_fee(spec.max_fee).with_tip(spec.tip);
        let mut tx = Transaction::script(
            spec.gas_limit,
            code_bytes(&spec.script),
            data,
            policies,
            inputs,
            outputs,
            vec![Witness::default()],
        );
        let _ = tx.witnesses_mut();
        tx
    }
}
