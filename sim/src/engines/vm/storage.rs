//! SimStorage — the simulator's layer behind the `InterpreterStorage` seam: the repository's
//! real `MemoryStorage` wrapped by a layer that (i) records every table access, (ii) fails the
//! k-th call with a `SimIoError`, (iii) supports snapshot / rollback (= crash) by cloning.

use fuel_storage::{
    StorageInspect, StorageMutate, StorageRead, StorageReadError, StorageSize, StorageWrite,
};
use fuel_tx::{ConsensusParameters, Contract};
use fuel_types::{BlobId, BlockHeight, Bytes32, ContractId, Word};
use fuel_vm::error::{InterpreterError, RuntimeError};
use fuel_vm::storage::{
    BlobBytes, BlobData, ContractsAssetKey, ContractsAssets, ContractsAssetsStorage,
    ContractsRawCode, ContractsState, ContractsStateData, ContractsStateKey, InterpreterStorage,
    MemoryStorage, UploadedBytecode, UploadedBytecodes,
};
use std::borrow::Cow;
use std::cell::RefCell;

/// Largest slot range the simulated disk serves in one call.
pub const MAX_SIM_RANGE: usize = 256;

#[derive(Debug, Clone, PartialEq, Eq)]
pub struct SimIoError {
    pub call: u64,
}

impl From<SimIoError> for InterpreterError<SimIoError> {
    fn from(e: SimIoError) -> Self {
        InterpreterError::Storage(e)
    }
}

impl From<SimIoError> for RuntimeError<SimIoError> {
    fn from(e: SimIoError) -> Self {
        RuntimeError::Storage(e)
    }
}

#[derive(Debug, Clone, Copy, PartialEq, Eq, PartialOrd, Ord)]
pub enum Table {
    RawCode,
    State,
    Assets,
    Blob,
    Uploaded,
    Meta,
}

#[derive(Debug, Clone, Copy, PartialEq, Eq, PartialOrd, Ord)]
pub enum Method {
    Get,
    ContainsKey,
    SizeOfValue,
    ReadExact,
    ReadZerofill,
    ReadAlloc,
    Replace,
    Take,
    WriteBytes,
    ReplaceBytes,
    TakeBytes,
    RemoveRange,
    BlockHeight,
    Timestamp,
    BlockHash,
    Coinbase,
    Version,
    SetConsensusParameters,
    SetStateTransitionBytecode,
}

impl Method {
    pub fn is_write(&self) -> bool {
        matches!(
            self,
            Method::Replace
                | Method::Take
                | Method::WriteBytes
                | Method::ReplaceBytes
                | Method::TakeBytes
                | Method::RemoveRange
                | Method::SetConsensusParameters
                | Method::SetStateTransitionBytecode
        )
    }
}

#[derive(Debug, Clone, PartialEq, Eq)]
pub struct Access {
    pub table: Table,
    pub method: Method,
    /// Contract whose state is touched (contract tables only).
    pub contract: Option<ContractId>,
    /// Slot key / asset id / blob id / root.
    pub key: Option<[u8; 32]>,
    /// Written value (word for assets; bytes for state), when the call is a write.
    pub value: Option<Vec<u8>>,
    /// For reads: did the key exist; for writes: did a previous value exist.
    pub existed: Option<bool>,
    pub failed: bool,
}

#[derive(Debug, Clone, Default)]
pub struct Recorder {
    pub calls: u64,
    pub log_enabled: bool,
    pub log: Vec<Access>,
    /// Absolute ordinal of the call that fails (one-shot).
    pub fail_at: Option<u64>,
    /// From this ordinal on every call fails (crash) until cleared.
    pub crash_at: Option<u64>,
    pub errors_fired: u64,
    pub range_refused: u64,
    pub reads: u64,
    pub writes: u64,
}

#[derive(Debug, Clone)]
pub struct SimStorage {
    pub inner: MemoryStorage,
    pub rec: RefCell<Recorder>,
    /// Simulated chain clock override (block height jumps).
    pub height_override: Option<u32>,
    /// Shadow of every persistent-table write since genesis: (table, key) -> value.
    /// Order-independent basis of the storage digest compared between replicas.
    pub shadow: std::collections::BTreeMap<(Table, Vec<u8>), Vec<u8>>,
}

impl SimStorage {
    pub fn new(inner: MemoryStorage) -> Self {
        SimStorage { inner, rec: RefCell::new(Recorder::default()), height_override: None, shadow: Default::default() }
    }

    pub fn calls(&self) -> u64 {
        self.rec.borrow().calls
    }

    pub fn set_logging(&self, on: bool) {
        self.rec.borrow_mut().log_enabled = on;
    }

    pub fn drain_log(&self) -> Vec<Access> {
        std::mem::take(&mut self.rec.borrow_mut().log)
    }

    pub fn fail_after(&self, n: u64) {
        let mut r = self.rec.borrow_mut();
        r.fail_at = Some(r.calls + n);
    }

    pub fn crash_after(&self, n: u64) {
        let mut r = self.rec.borrow_mut();
        r.crash_at = Some(r.calls + n);
    }

    pub fn clear_faults(&self) {
        let mut r = self.rec.borrow_mut();
        r.fail_at = None;
        r.crash_at = None;
    }

    pub fn errors_fired(&self) -> u64 {
        self.rec.borrow().errors_fired
    }

    /// Digest of the persistent tables as changed since genesis (order-independent: computed
    /// from the final shadow map, not from the sequence of writes).
    pub fn dump(&self) -> String {
        let mut d = crate::kernel::Digest::new();
        for ((t, k), v) in &self.shadow {
            d.u64(*t as u64);
            d.bytes(k);
            d.bytes(v);
        }
        format!("{:016x}/{}", d.0, self.shadow.len())
    }

    /// Full Debug dump of the wrapped MemoryStorage (slow; diagnostics only).
    pub fn dump_full(&self) -> String {
        format!("{:?}", self.inner)
    }

    fn shadow_set(&mut self, t: Table, key: Vec<u8>, val: Option<&[u8]>) {
        match val {
            // a removed entry is recorded as removed (distinct from "never written")
            None => {
                self.shadow.insert((t, key), vec![0xde, 0xad]);
            }
            Some(v) => {
                let mut x = Vec::with_capacity(v.len() + 1);
                x.push(1);
                x.extend_from_slice(v);
                self.shadow.insert((t, key), x);
            }
        }
    }

    fn tick(
        &self,
        table: Table,
        method: Method,
        contract: Option<ContractId>,
        key: Option<[u8; 32]>,
        value: Option<&[u8]>,
    ) -> Result<usize, SimIoError> {
        let mut r = self.rec.borrow_mut();
        let c = r.calls;
        r.calls += 1;
        if method.is_write() {
            r.writes += 1;
        } else {
            r.reads += 1;
        }
        let mut failed = false;
        if let Some(at) = r.crash_at {
            if c >= at {
                failed = true;
            }
        }
        if r.fail_at == Some(c) {
            r.fail_at = None;
            failed = true;
        }
        if failed {
            r.errors_fired += 1;
        }
        let idx = r.log.len();
        if r.log_enabled {
            r.log.push(Access { table, method, contract, key, value: value.map(|v| v.to_vec()), existed: None, failed });
        }
        if failed { Err(SimIoError { call: c }) } else { Ok(idx) }
    }

    fn note_existed(&self, idx: usize, existed: bool) {
        let mut r = self.rec.borrow_mut();
        if r.log_enabled {
            if let Some(a) = r.log.get_mut(idx) {
                a.existed = Some(existed);
            }
        }
    }
}

fn k32<T: AsRef<[u8]>>(t: &T) -> Option<[u8; 32]> {
    let b = t.as_ref();
    if b.len() == 32 {
        let mut k = [0u8; 32];
        k.copy_from_slice(b);
        Some(k)
    } else {
        None
    }
}

// ---- ContractsRawCode -------------------------------------------------------------------

impl StorageInspect<ContractsRawCode> for SimStorage {
    type Error = SimIoError;
    fn get(&self, key: &ContractId) -> Result<Option<Cow<'_, Contract>>, SimIoError> {
        let i = self.tick(Table::RawCode, Method::Get, Some(*key), None, None)?;
        let r = StorageInspect::<ContractsRawCode>::get(&self.inner, key).unwrap();
        self.note_existed(i, r.is_some());
        Ok(r)
    }
    fn contains_key(&self, key: &ContractId) -> Result<bool, SimIoError> {
        let i = self.tick(Table::RawCode, Method::ContainsKey, Some(*key), None, None)?;
        let r = StorageInspect::<ContractsRawCode>::contains_key(&self.inner, key).unwrap();
        self.note_existed(i, r);
        Ok(r)
    }
}

impl StorageMutate<ContractsRawCode> for SimStorage {
    fn replace(&mut self, key: &ContractId, value: &[u8]) -> Result<Option<Contract>, SimIoError> {
        let i = self.tick(Table::RawCode, Method::Replace, Some(*key), None, Some(value))?;
        let r = StorageMutate::<ContractsRawCode>::replace(&mut self.inner, key, value).unwrap();
        self.shadow_set(Table::RawCode, key.as_ref().to_vec(), Some(value));
        self.note_existed(i, r.is_some());
        Ok(r)
    }
    fn take(&mut self, key: &ContractId) -> Result<Option<Contract>, SimIoError> {
        let i = self.tick(Table::RawCode, Method::Take, Some(*key), None, None)?;
        let r = StorageMutate::<ContractsRawCode>::take(&mut self.inner, key).unwrap();
        self.shadow_set(Table::RawCode, key.as_ref().to_vec(), None);
        self.note_existed(i, r.is_some());
        Ok(r)
    }
}

impl StorageWrite<ContractsRawCode> for SimStorage {
    fn write_bytes(&mut self, key: &ContractId, buf: &[u8]) -> Result<(), SimIoError> {
        self.tick(Table::RawCode, Method::WriteBytes, Some(*key), None, Some(buf))?;
        StorageWrite::<ContractsRawCode>::write_bytes(&mut self.inner, key, buf).unwrap();
        self.shadow_set(Table::RawCode, key.as_ref().to_vec(), Some(buf));
        Ok(())
    }
    fn replace_bytes(&mut self, key: &ContractId, buf: &[u8]) -> Result<Option<Vec<u8>>, SimIoError> {
        let i = self.tick(Table::RawCode, Method::ReplaceBytes, Some(*key), None, Some(buf))?;
        let r = StorageWrite::<ContractsRawCode>::replace_bytes(&mut self.inner, key, buf).unwrap();
        self.shadow_set(Table::RawCode, key.as_ref().to_vec(), Some(buf));
        self.note_existed(i, r.is_some());
        Ok(r)
    }
    fn take_bytes(&mut self, key: &ContractId) -> Result<Option<Vec<u8>>, SimIoError> {
        let i = self.tick(Table::RawCode, Method::TakeBytes, Some(*key), None, None)?;
        let r = StorageWrite::<ContractsRawCode>::take_bytes(&mut self.inner, key).unwrap();
        self.shadow_set(Table::RawCode, key.as_ref().to_vec(), None);
        self.note_existed(i, r.is_some());
        Ok(r)
    }
}

impl StorageSize<ContractsRawCode> for SimStorage {
    fn size_of_value(&self, key: &ContractId) -> Result<Option<usize>, SimIoError> {
        let i = self.tick(Table::RawCode, Method::SizeOfValue, Some(*key), None, None)?;
        let r = StorageSize::<ContractsRawCode>::size_of_value(&self.inner, key).unwrap();
        self.note_existed(i, r.is_some());
        Ok(r)
    }
}

impl StorageRead<ContractsRawCode> for SimStorage {
    fn read_exact(&self, key: &ContractId, offset: usize, buf: &mut [u8]) -> Result<Result<usize, StorageReadError>, SimIoError> {
        let i = self.tick(Table::RawCode, Method::ReadExact, Some(*key), None, None)?;
        let r = StorageRead::<ContractsRawCode>::read_exact(&self.inner, key, offset, buf).unwrap();
        self.note_existed(i, !matches!(r, Err(StorageReadError::KeyNotFound)));
        Ok(r)
    }
    fn read_zerofill(&self, key: &ContractId, offset: usize, buf: &mut [u8]) -> Result<Result<usize, StorageReadError>, SimIoError> {
        let i = self.tick(Table::RawCode, Method::ReadZerofill, Some(*key), None, None)?;
        let r = StorageRead::<ContractsRawCode>::read_zerofill(&self.inner, key, offset, buf).unwrap();
        self.note_existed(i, !matches!(r, Err(StorageReadError::KeyNotFound)));
        Ok(r)
    }
    fn read_alloc(&self, key: &ContractId) -> Result<Option<Vec<u8>>, SimIoError> {
        let i = self.tick(Table::RawCode, Method::ReadAlloc, Some(*key), None, None)?;
        let r = StorageRead::<ContractsRawCode>::read_alloc(&self.inner, key).unwrap();
        self.note_existed(i, r.is_some());
        Ok(r)
    }
}

// ---- ContractsState ---------------------------------------------------------------------

fn sk(key: &ContractsStateKey) -> (Option<ContractId>, Option<[u8; 32]>) {
    (Some(*key.contract_id()), k32(key.state_key()))
}

impl StorageInspect<ContractsState> for SimStorage {
    type Error = SimIoError;
    fn get(&self, key: &ContractsStateKey) -> Result<Option<Cow<'_, ContractsStateData>>, SimIoError> {
        let (c, k) = sk(key);
        let i = self.tick(Table::State, Method::Get, c, k, None)?;
        let r = StorageInspect::<ContractsState>::get(&self.inner, key).unwrap();
        self.note_existed(i, r.is_some());
        Ok(r)
    }
    fn contains_key(&self, key: &ContractsStateKey) -> Result<bool, SimIoError> {
        let (c, k) = sk(key);
        let i = self.tick(Table::State, Method::ContainsKey, c, k, None)?;
        let r = StorageInspect::<ContractsState>::contains_key(&self.inner, key).unwrap();
        self.note_existed(i, r);
        Ok(r)
    }
}

impl StorageMutate<ContractsState> for SimStorage {
    fn replace(&mut self, key: &ContractsStateKey, value: &[u8]) -> Result<Option<ContractsStateData>, SimIoError> {
        let (c, k) = sk(key);
        let i = self.tick(Table::State, Method::Replace, c, k, Some(value))?;
        let r = StorageMutate::<ContractsState>::replace(&mut self.inner, key, value).unwrap();
        self.shadow_set(Table::State, { let mut kk = Vec::with_capacity(64); kk.extend_from_slice(key.contract_id().as_ref()); kk.extend_from_slice(key.state_key().as_ref()); kk }, Some(value));
        self.note_existed(i, r.is_some());
        Ok(r)
    }
    fn take(&mut self, key: &ContractsStateKey) -> Result<Option<ContractsStateData>, SimIoError> {
        let (c, k) = sk(key);
        let i = self.tick(Table::State, Method::Take, c, k, None)?;
        let r = StorageMutate::<ContractsState>::take(&mut self.inner, key).unwrap();
        self.shadow_set(Table::State, { let mut kk = Vec::with_capacity(64); kk.extend_from_slice(key.contract_id().as_ref()); kk.extend_from_slice(key.state_key().as_ref()); kk }, None);
        self.note_existed(i, r.is_some());
        Ok(r)
    }
}

impl StorageWrite<ContractsState> for SimStorage {
    fn write_bytes(&mut self, key: &ContractsStateKey, buf: &[u8]) -> Result<(), SimIoError> {
        let (c, k) = sk(key);
        self.tick(Table::State, Method::WriteBytes, c, k, Some(buf))?;
        StorageWrite::<ContractsState>::write_bytes(&mut self.inner, key, buf).unwrap();
        self.shadow_set(Table::State, { let mut kk = Vec::with_capacity(64); kk.extend_from_slice(key.contract_id().as_ref()); kk.extend_from_slice(key.state_key().as_ref()); kk }, Some(buf));
        Ok(())
    }
    fn replace_bytes(&mut self, key: &ContractsStateKey, buf: &[u8]) -> Result<Option<Vec<u8>>, SimIoError> {
        let (c, k) = sk(key);
        let i = self.tick(Table::State, Method::ReplaceBytes, c, k, Some(buf))?;
        let r = StorageWrite::<ContractsState>::replace_bytes(&mut self.inner, key, buf).unwrap();
        self.shadow_set(Table::State, { let mut kk = Vec::with_capacity(64); kk.extend_from_slice(key.contract_id().as_ref()); kk.extend_from_slice(key.state_key().as_ref()); kk }, Some(buf));
        self.note_existed(i, r.is_some());
        Ok(r)
    }
    fn take_bytes(&mut self, key: &ContractsStateKey) -> Result<Option<Vec<u8>>, SimIoError> {
        let (c, k) = sk(key);
        let i = self.tick(Table::State, Method::TakeBytes, c, k, None)?;
        let r = StorageWrite::<ContractsState>::take_bytes(&mut self.inner, key).unwrap();
        self.shadow_set(Table::State, { let mut kk = Vec::with_capacity(64); kk.extend_from_slice(key.contract_id().as_ref()); kk.extend_from_slice(key.state_key().as_ref()); kk }, None);
        self.note_existed(i, r.is_some());
        Ok(r)
    }
}

impl StorageSize<ContractsState> for SimStorage {
    fn size_of_value(&self, key: &ContractsStateKey) -> Result<Option<usize>, SimIoError> {
        let (c, k) = sk(key);
        let i = self.tick(Table::State, Method::SizeOfValue, c, k, None)?;
        let r = StorageSize::<ContractsState>::size_of_value(&self.inner, key).unwrap();
        self.note_existed(i, r.is_some());
        Ok(r)
    }
}

impl StorageRead<ContractsState> for SimStorage {
    fn read_exact(&self, key: &ContractsStateKey, offset: usize, buf: &mut [u8]) -> Result<Result<usize, StorageReadError>, SimIoError> {
        let (c, k) = sk(key);
        let i = self.tick(Table::State, Method::ReadExact, c, k, None)?;
        let r = StorageRead::<ContractsState>::read_exact(&self.inner, key, offset, buf).unwrap();
        self.note_existed(i, !matches!(r, Err(StorageReadError::KeyNotFound)));
        Ok(r)
    }
    fn read_zerofill(&self, key: &ContractsStateKey, offset: usize, buf: &mut [u8]) -> Result<Result<usize, StorageReadError>, SimIoError> {
        let (c, k) = sk(key);
        let i = self.tick(Table::State, Method::ReadZerofill, c, k, None)?;
        let r = StorageRead::<ContractsState>::read_zerofill(&self.inner, key, offset, buf).unwrap();
        self.note_existed(i, !matches!(r, Err(StorageReadError::KeyNotFound)));
        Ok(r)
    }
    fn read_alloc(&self, key: &ContractsStateKey) -> Result<Option<Vec<u8>>, SimIoError> {
        let (c, k) = sk(key);
        let i = self.tick(Table::State, Method::ReadAlloc, c, k, None)?;
        let r = StorageRead::<ContractsState>::read_alloc(&self.inner, key).unwrap();
        self.note_existed(i, r.is_some());
        Ok(r)
    }
}

// ---- ContractsAssets --------------------------------------------------------------------

fn ak(key: &ContractsAssetKey) -> (Option<ContractId>, Option<[u8; 32]>) {
    (Some(*key.contract_id()), k32(key.asset_id()))
}

impl StorageInspect<ContractsAssets> for SimStorage {
    type Error = SimIoError;
    fn get(&self, key: &ContractsAssetKey) -> Result<Option<Cow<'_, Word>>, SimIoError> {
        let (c, k) = ak(key);
        let i = self.tick(Table::Assets, Method::Get, c, k, None)?;
        let r = StorageInspect::<ContractsAssets>::get(&self.inner, key).unwrap();
        self.note_existed(i, r.is_some());
        Ok(r)
    }
    fn contains_key(&self, key: &ContractsAssetKey) -> Result<bool, SimIoError> {
        let (c, k) = ak(key);
        let i = self.tick(Table::Assets, Method::ContainsKey, c, k, None)?;
        let r = StorageInspect::<ContractsAssets>::contains_key(&self.inner, key).unwrap();
        self.note_existed(i, r);
        Ok(r)
    }
}

impl StorageMutate<ContractsAssets> for SimStorage {
    fn replace(&mut self, key: &ContractsAssetKey, value: &Word) -> Result<Option<Word>, SimIoError> {
        let (c, k) = ak(key);
        let i = self.tick(Table::Assets, Method::Replace, c, k, Some(&value.to_be_bytes()))?;
        let r = StorageMutate::<ContractsAssets>::replace(&mut self.inner, key, value).unwrap();
        self.shadow_set(Table::Assets, { let mut kk = Vec::with_capacity(64); kk.extend_from_slice(key.contract_id().as_ref()); kk.extend_from_slice(key.asset_id().as_ref()); kk }, Some(&value.to_be_bytes()));
        self.note_existed(i, r.is_some());
        Ok(r)
    }
    fn take(&mut self, key: &ContractsAssetKey) -> Result<Option<Word>, SimIoError> {
        let (c, k) = ak(key);
        let i = self.tick(Table::Assets, Method::Take, c, k, None)?;
        let r = StorageMutate::<ContractsAssets>::take(&mut self.inner, key).unwrap();
        self.shadow_set(Table::Assets, { let mut kk = Vec::with_capacity(64); kk.extend_from_slice(key.contract_id().as_ref()); kk.extend_from_slice(key.asset_id().as_ref()); kk }, None);
        self.note_existed(i, r.is_some());
        Ok(r)
    }
}

impl ContractsAssetsStorage for SimStorage {}

// ---- BlobData ---------------------------------------------------------------------------

impl StorageInspect<BlobData> for SimStorage {
    type Error = SimIoError;
    fn get(&self, key: &BlobId) -> Result<Option<Cow<'_, BlobBytes>>, SimIoError> {
        let i = self.tick(Table::Blob, Method::Get, None, k32(key), None)?;
        let r = StorageInspect::<BlobData>::get(&self.inner, key).unwrap();
        self.note_existed(i, r.is_some());
        Ok(r)
    }
    fn contains_key(&self, key: &BlobId) -> Result<bool, SimIoError> {
        let i = self.tick(Table::Blob, Method::ContainsKey, None, k32(key), None)?;
        let r = StorageInspect::<BlobData>::contains_key(&self.inner, key).unwrap();
        self.note_existed(i, r);
        Ok(r)
    }
}

impl StorageMutate<BlobData> for SimStorage {
    fn replace(&mut self, key: &BlobId, value: &[u8]) -> Result<Option<BlobBytes>, SimIoError> {
        let i = self.tick(Table::Blob, Method::Replace, None, k32(key), Some(value))?;
        let r = StorageMutate::<BlobData>::replace(&mut self.inner, key, value).unwrap();
        self.shadow_set(Table::Blob, key.as_ref().to_vec(), Some(value));
        self.note_existed(i, r.is_some());
        Ok(r)
    }
    fn take(&mut self, key: &BlobId) -> Result<Option<BlobBytes>, SimIoError> {
        let i = self.tick(Table::Blob, Method::Take, None, k32(key), None)?;
        let r = StorageMutate::<BlobData>::take(&mut self.inner, key).unwrap();
        self.shadow_set(Table::Blob, key.as_ref().to_vec(), None);
        self.note_existed(i, r.is_some());
        Ok(r)
    }
}

impl StorageWrite<BlobData> for SimStorage {
    fn write_bytes(&mut self, key: &BlobId, buf: &[u8]) -> Result<(), SimIoError> {
        self.tick(Table::Blob, Method::WriteBytes, None, k32(key), Some(buf))?;
        StorageWrite::<BlobData>::write_bytes(&mut self.inner, key, buf).unwrap();
        self.shadow_set(Table::Blob, key.as_ref().to_vec(), Some(buf));
        Ok(())
    }
    fn replace_bytes(&mut self, key: &BlobId, buf: &[u8]) -> Result<Option<Vec<u8>>, SimIoError> {
        let i = self.tick(Table::Blob, Method::ReplaceBytes, None, k32(key), Some(buf))?;
        let r = StorageWrite::<BlobData>::replace_bytes(&mut self.inner, key, buf).unwrap();
        self.shadow_set(Table::Blob, key.as_ref().to_vec(), Some(buf));
        self.note_existed(i, r.is_some());
        Ok(r)
    }
    fn take_bytes(&mut self, key: &BlobId) -> Result<Option<Vec<u8>>, SimIoError> {
        let i = self.tick(Table::Blob, Method::TakeBytes, None, k32(key), None)?;
        let r = StorageWrite::<BlobData>::take_bytes(&mut self.inner, key).unwrap();
        self.shadow_set(Table::Blob, key.as_ref().to_vec(), None);
        self.note_existed(i, r.is_some());
        Ok(r)
    }
}

impl StorageSize<BlobData> for SimStorage {
    fn size_of_value(&self, key: &BlobId) -> Result<Option<usize>, SimIoError> {
        let i = self.tick(Table::Blob, Method::SizeOfValue, None, k32(key), None)?;
        let r = StorageSize::<BlobData>::size_of_value(&self.inner, key).unwrap();
        self.note_existed(i, r.is_some());
        Ok(r)
    }
}

impl StorageRead<BlobData> for SimStorage {
    fn read_exact(&self, key: &BlobId, offset: usize, buf: &mut [u8]) -> Result<Result<usize, StorageReadError>, SimIoError> {
        let i = self.tick(Table::Blob, Method::ReadExact, None, k32(key), None)?;
        let r = StorageRead::<BlobData>::read_exact(&self.inner, key, offset, buf).unwrap();
        self.note_existed(i, !matches!(r, Err(StorageReadError::KeyNotFound)));
        Ok(r)
    }
    fn read_zerofill(&self, key: &BlobId, offset: usize, buf: &mut [u8]) -> Result<Result<usize, StorageReadError>, SimIoError> {
        let i = self.tick(Table::Blob, Method::ReadZerofill, None, k32(key), None)?;
        let r = StorageRead::<BlobData>::read_zerofill(&self.inner, key, offset, buf).unwrap();
        self.note_existed(i, !matches!(r, Err(StorageReadError::KeyNotFound)));
        Ok(r)
    }
    fn read_alloc(&self, key: &BlobId) -> Result<Option<Vec<u8>>, SimIoError> {
        let i = self.tick(Table::Blob, Method::ReadAlloc, None, k32(key), None)?;
        let r = StorageRead::<BlobData>::read_alloc(&self.inner, key).unwrap();
        self.note_existed(i, r.is_some());
        Ok(r)
    }
}

// ---- UploadedBytecodes ------------------------------------------------------------------

impl StorageInspect<UploadedBytecodes> for SimStorage {
    type Error = SimIoError;
    fn get(&self, key: &Bytes32) -> Result<Option<Cow<'_, UploadedBytecode>>, SimIoError> {
        let i = self.tick(Table::Uploaded, Method::Get, None, k32(key), None)?;
        let r = StorageInspect::<UploadedBytecodes>::get(&self.inner, key).unwrap();
        self.note_existed(i, r.is_some());
        Ok(r)
    }
    fn contains_key(&self, key: &Bytes32) -> Result<bool, SimIoError> {
        let i = self.tick(Table::Uploaded, Method::ContainsKey, None, k32(key), None)?;
        let r = StorageInspect::<UploadedBytecodes>::contains_key(&self.inner, key).unwrap();
        self.note_existed(i, r);
        Ok(r)
    }
}

impl StorageMutate<UploadedBytecodes> for SimStorage {
    fn replace(&mut self, key: &Bytes32, value: &UploadedBytecode) -> Result<Option<UploadedBytecode>, SimIoError> {
        let i = self.tick(Table::Uploaded, Method::Replace, None, k32(key), None)?;
        let r = StorageMutate::<UploadedBytecodes>::replace(&mut self.inner, key, value).unwrap();
        self.shadow_set(Table::Uploaded, key.as_ref().to_vec(), Some(format!("{value:?}").as_bytes()));
        self.note_existed(i, r.is_some());
        Ok(r)
    }
    fn take(&mut self, key: &Bytes32) -> Result<Option<UploadedBytecode>, SimIoError> {
        let i = self.tick(Table::Uploaded, Method::Take, None, k32(key), None)?;
        let r = StorageMutate::<UploadedBytecodes>::take(&mut self.inner, key).unwrap();
        self.shadow_set(Table::Uploaded, key.as_ref().to_vec(), None);
        self.note_existed(i, r.is_some());
        Ok(r)
    }
}

// ---- InterpreterStorage -----------------------------------------------------------------

impl InterpreterStorage for SimStorage {
    type DataError = SimIoError;

    fn block_height(&self) -> Result<BlockHeight, SimIoError> {
        self.tick(Table::Meta, Method::BlockHeight, None, None, None)?;
        if let Some(h) = self.height_override {
            return Ok(h.into());
        }
        Ok(self.inner.block_height().unwrap())
    }
    fn consensus_parameters_version(&self) -> Result<u32, SimIoError> {
        self.tick(Table::Meta, Method::Version, None, None, None)?;
        Ok(self.inner.consensus_parameters_version().unwrap())
    }
    fn state_transition_version(&self) -> Result<u32, SimIoError> {
        self.tick(Table::Meta, Method::Version, None, None, None)?;
        Ok(self.inner.state_transition_version().unwrap())
    }
    fn timestamp(&self, height: BlockHeight) -> Result<Word, SimIoError> {
        self.tick(Table::Meta, Method::Timestamp, None, None, None)?;
        Ok(self.inner.timestamp(height).unwrap())
    }
    fn block_hash(&self, block_height: BlockHeight) -> Result<Bytes32, SimIoError> {
        self.tick(Table::Meta, Method::BlockHash, None, None, None)?;
        Ok(self.inner.block_hash(block_height).unwrap())
    }
    fn coinbase(&self) -> Result<ContractId, SimIoError> {
        self.tick(Table::Meta, Method::Coinbase, None, None, None)?;
        Ok(self.inner.coinbase().unwrap())
    }
    fn set_consensus_parameters(&mut self, version: u32, consensus_parameters: &ConsensusParameters) -> Result<Option<ConsensusParameters>, SimIoError> {
        self.tick(Table::Meta, Method::SetConsensusParameters, None, None, None)?;
        let h = crate::kernel::rng::fnv1a(format!("{consensus_parameters:?}").as_bytes());
        self.shadow_set(Table::Meta, format!("cp:{version}").into_bytes(), Some(&h.to_be_bytes()));
        Ok(self.inner.set_consensus_parameters(version, consensus_parameters).unwrap())
    }
    fn set_state_transition_bytecode(&mut self, version: u32, hash: &Bytes32) -> Result<Option<Bytes32>, SimIoError> {
        self.tick(Table::Meta, Method::SetStateTransitionBytecode, None, None, None)?;
        self.shadow_set(Table::Meta, format!("stb:{version}").into_bytes(), Some(hash.as_ref()));
        Ok(self.inner.set_state_transition_bytecode(version, hash).unwrap())
    }
    fn contract_state_remove_range(&mut self, contract: &ContractId, start_key: &Bytes32, range: usize) -> Result<(), SimIoError> {
        self.tick(Table::State, Method::RemoveRange, Some(*contract), k32(start_key), Some(&(range as u64).to_be_bytes()))?;
        if range > MAX_SIM_RANGE {
            // The simulated disk refuses absurd ranges with an I/O error (deterministic in the
            // arguments, so every replica sees the same refusal): under a schedule where range
            // clears are free a wild program would otherwise keep the host busy for minutes.
            let mut r = self.rec.borrow_mut();
            r.errors_fired += 1;
            r.range_refused += 1;
            return Err(SimIoError { call: r.calls.saturating_sub(1) });
        }
        self.inner.contract_state_remove_range(contract, start_key, range).unwrap();
        // shadow: the same U256 key walk as the specification (stops at the maximum key)
        let mut cur: [u8; 32] = **start_key;
        for i in 0..range {
            if i != 0 {
                let mut carry = true;
                for b in (0..32).rev() {
                    if carry {
                        let (v, c) = cur[b].overflowing_add(1);
                        cur[b] = v;
                        carry = c;
                    }
                }
                if carry {
                    break;
                }
            }
            let mut kk = Vec::with_capacity(64);
            kk.extend_from_slice(contract.as_ref());
            kk.extend_from_slice(&cur);
            self.shadow_set(Table::State, kk, None);
        }
        Ok(())
    }
}
