//! Replica-level oracles: C31 (determinism / independence of instance reuse) and C32
//! (debugger transparency). The reference replica R0 uses a fresh interpreter and fresh memory
//! for every transaction, no debugger, no faults, plain commit / revert.

use super::exec::*;
use super::plan::Replica;
use super::storage::SimStorage;
use super::world::*;
use crate::kernel::rng::fnv1a;
use crate::kernel::RunCtx;
use fuel_types::canonical::Serialize as _;
use fuel_vm::interpreter::MemoryInstance;
use fuel_vm::state::Breakpoint;

pub struct RefTx {
    pub prep: Prep,
    pub outcome: Option<Outcome>,
    /// Storage dump after the embedder settled the transaction.
    pub dump: String,
    /// Digest of the contract state and balances as the wrapped `MemoryStorage` itself holds
    /// them after the transaction was settled (comparable with a real `MemoryClient`).
    pub tables: u64,
}

/// Contract slots and the balances of every (generated contract, asset slot) pair, read from a
/// plain `MemoryStorage`.
pub fn tables_digest(st: &fuel_vm::storage::MemoryStorage, world: &World) -> u64 {
    use fuel_vm::storage::ContractsAssetsStorage;
    let mut d = crate::kernel::Digest::new();
    for (k, v) in st.all_contract_state() {
        d.bytes(k.as_ref());
        d.bytes(v.as_ref().as_ref());
    }
    for c in &world.contract_ids {
        for a in 0..NA as u8 {
            let b = st.contract_asset_id_balance(c, &asset(a)).ok().flatten();
            d.u64(b.map(|x| x.wrapping_add(1)).unwrap_or(0));
        }
    }
    d.0
}

/// The real `MemoryClient` (one long-lived `Transactor`) runs the whole history, including the
/// transactions the VM refuses; after every transaction its storage must hold what the
/// reference's holds, and a completed transaction must produce the reference's receipts.
pub fn run_real_client(world: &World, sc: &Scenario, reference: &[RefTx], ctx: &mut RunCtx) -> bool {
    use fuel_tx::Receipt;
    use fuel_vm::checked_transaction::IntoChecked;
    use fuel_vm::interpreter::InterpreterParams;
    use fuel_vm::memory_client::MemoryClient;
    let params = InterpreterParams::new(sc.gas_price, &world.params);
    let mut client: MemoryClient<MemoryInstance, SimEcal> = MemoryClient::new(MemoryInstance::new(), world.genesis.clone(), params);
    let mut after_error = false;
    for (i, spec) in sc.txs.iter().enumerate() {
        let tx = world.script_tx(i, spec);
        let Ok(checked) = tx.into_checked_basic(sc.height.into(), &world.params) else { continue };
        if reference[i].outcome.is_none() {
            // not ready (fee / balance checks): the reference did not execute it either
            continue;
        }
        let receipts: Vec<Receipt> = client.transact(checked).to_vec();
        let got = tables_digest(AsRef::<fuel_vm::storage::MemoryStorage>::as_ref(&client), world);
        let r = reference[i].outcome.as_ref().expect("checked above");
        ctx.event("client-tx", i as u64, got);
        if after_error && !r.is_err {
            ctx.stats.inc("probe.client_tx_after_refused_tx");
        }
        if got != reference[i].tables {
            return ctx.violate(
                "replica-divergence",
                "replica-divergence:memory-client:storage",
                format!("tx {i}: after the long-lived MemoryClient executed the history, its contract state / balances differ from the reference replica's (fresh interpreter per transaction){}", if after_error { "; an earlier transaction of the history was refused by the VM" } else { "" }),
            );
        }
        if !r.is_err && receipts != r.receipts {
            return ctx.violate("replica-divergence", "replica-divergence:memory-client:receipts", format!("tx {i}: the long-lived MemoryClient produced {} receipts, the reference {}", receipts.len(), r.receipts.len()));
        }
        if r.is_err {
            after_error = true;
        }
    }
    false
}

pub fn poke_regs(vm: &mut Vm, spec: &ScriptSpec) {
    // (C29) pokes are applied by the callers before the first step only in stepped mode.
    let _ = (vm, spec);
}

/// R0: fresh interpreter + fresh memory per transaction.
pub fn run_reference(world: &World, sc: &Scenario, ctx: &mut RunCtx) -> Vec<RefTx> {
    let mut storage = world.storage();
    let mut out = Vec::new();
    for (i, spec) in sc.txs.iter().enumerate() {
        match prepare(world, sc.height, sc.gas_price, i, spec) {
            Err(p) => {
                ctx.stats.inc("probe.tx_rejected_at_check");
                ctx.event("tx-rejected", i as u64, 0);
                out.push(RefTx { prep: p, outcome: None, dump: storage.dump(), tables: tables_digest(&storage.inner, world) });
            }
            Ok(ready) => {
                let snapshot = storage.clone();
                let mut vm = new_vm(world, sc.gas_price, storage, MemoryInstance::new());
                let o = run_plain(&mut vm, ready);
                settle(&mut vm, &snapshot, &o);
                storage = take_storage(&mut vm);
                ctx.stats.inc("time.transactions");
                ctx.stats.add("time.storage_calls", 0);
                ctx.stats.add("time.receipts", o.receipts.len() as u64);
                let end = o
                    .receipts
                    .iter()
                    .find_map(|r| match r {
                        fuel_tx::Receipt::Panic { reason, .. } => Some(format!("probe.end.Panic.{:?}", reason.reason())),
                        fuel_tx::Receipt::Revert { .. } => Some("probe.end.Revert".to_string()),
                        _ => None,
                    })
                    .unwrap_or_else(|| if o.is_err { format!("probe.end.{}", o.state.split('(').next().unwrap_or("Err")) } else { "probe.end.Success".to_string() });
                ctx.stats.inc_dyn(end);
                ctx.note(|| {
                    let p = o.receipts.iter().find_map(|r| match r {
                        fuel_tx::Receipt::Panic { id, reason, pc, is, .. } => {
                            let idx = (pc.saturating_sub(*is)) / 4;
                            let slot = world.contract_ids.iter().position(|c| c == id);
                            let word = match slot {
                                Some(s) => sc.contracts.get(s).and_then(|c| c.code.get(idx as usize)).copied(),
                                None => spec.script.get(idx as usize).copied(),
                            };
                            Some(format!("panic {:?} in {} at instruction {idx} word {:08x?} (instr {:?})", reason.reason(), slot.map(|s| format!("contract {s}")).unwrap_or("script".into()), word, reason.instruction()))
                        }
                        _ => None,
                    });
                    format!("tx {i}: {} receipts={} {}", o.state, o.receipts.len(), p.unwrap_or_default())
                });
                ctx.event("tx", i as u64, fnv1a(o.state.as_bytes()));
                ctx.event("tx-receipts", o.receipts.len() as u64, fnv1a(&o.tx_bytes));
                let dump = storage.dump();
                let tables = tables_digest(&storage.inner, world);
                out.push(RefTx { prep: Prep::Ready, outcome: Some(o), dump, tables });
            }
        }
    }
    ctx.stats.add("time.storage_calls", storage.calls());
    out
}

fn receipts_bytes(o: &Outcome) -> Vec<Vec<u8>> {
    o.receipts.iter().map(|r| r.to_bytes()).collect()
}

/// Compare a replica's settled result with the reference's. Returns true when a violation was
/// reported and the run must stop.
pub fn compare(
    prop: &str,
    what: &str,
    tx: usize,
    reference: &RefTx,
    o: &Outcome,
    dump: &str,
    ctx: &mut RunCtx,
) -> bool {
    let Some(r) = &reference.outcome else { return false };
    let inv = if prop == "C32" { "debugger-changes-result" } else { "replica-divergence" };
    if r.state != o.state {
        return ctx.violate(inv, &format!("{inv}:{what}:state"), format!("tx {tx}: {what} replica ended with {} but the reference with {}", o.state, r.state));
    }
    // A transaction that ended in an error (rejected at initialisation, storage error) returns
    // no state transition: whatever `vm.receipts()` still holds then (e.g. the previous
    // transaction's receipts on a reused instance whose init failed early) is not a result.
    let errored = r.is_err || o.is_err;
    if !errored && (r.receipts != o.receipts || receipts_bytes(r) != receipts_bytes(o)) {
        let n = r.receipts.iter().zip(o.receipts.iter()).take_while(|(a, b)| a == b).count();
        return ctx.violate(
            inv,
            &format!("{inv}:{what}:receipts"),
            format!("tx {tx}: {what} replica's receipts differ from the reference at receipt {n}: {:?} vs {:?} ({} vs {} receipts)", o.receipts.get(n), r.receipts.get(n), o.receipts.len(), r.receipts.len()),
        );
    }
    if r.tx_bytes != o.tx_bytes {
        return ctx.violate(inv, &format!("{inv}:{what}:output-tx"), format!("tx {tx}: {what} replica's output transaction differs from the reference's"));
    }
    if reference.dump != dump {
        return ctx.violate(inv, &format!("{inv}:{what}:storage"), format!("tx {tx}: {what} replica's storage differs from the reference's after the transaction"));
    }
    false
}

struct NoHook;
impl StepHook for NoHook {}

/// Records every arrival (contract, pc-relative, registers) of a single-stepped run.
#[derive(Default)]
pub struct ArrivalTrace {
    pub arrivals: Vec<(Option<[u8; 32]>, u64, [u64; 64])>,
}

fn current_contract(vm: &Vm, regs: &[u64; 64]) -> Option<[u8; 32]> {
    let fp = regs[6];
    if fp == 0 {
        return None;
    }
    vm.memory().read(fp, 32usize).ok().map(|b| {
        let mut k = [0u8; 32];
        k.copy_from_slice(b);
        k
    })
}

impl StepHook for ArrivalTrace {
    fn before(&mut self, vm: &mut Vm, pre: &Pre) {
        let c = current_contract(vm, &pre.regs);
        let rel = pre.regs[3].saturating_sub(pre.regs[12]);
        self.arrivals.push((c, rel, pre.regs));
    }
}

/// Run with a set of breakpoints, resuming after every event; collects the events.
fn run_breakpoints(vm: &mut Vm, ready: fuel_vm::checked_transaction::Ready<fuel_tx::Script>, bps: &[Breakpoint], cap: u64) -> (Outcome, Vec<(Option<[u8; 32]>, u64, [u64; 64])>) {
    vm.set_single_stepping(false);
    vm.overwrite_breakpoints(bps);
    let mut events = Vec::new();
    let mut state = match vm.transact(ready) {
        Ok(st) => *st.state(),
        Err(e) => {
            let (s, storage, bug) = classify_err(&e);
            vm.clear_breakpoints();
            return (
                Outcome { state: s, is_err: true, storage_error: storage, bug, receipts: vm.receipts().to_vec(), tx_bytes: vec![], reverted: true, steps: 0, truncated: false },
                events,
            );
        }
    };
    let mut n = 0u64;
    loop {
        if !state.is_debug() {
            break;
        }
        let regs = regs_of(vm);
        let loc = match state {
            fuel_vm::state::ProgramState::RunProgram(fuel_vm::state::DebugEval::Breakpoint(b)) => {
                let c: [u8; 32] = (*b.contract()).into();
                (if c == [0u8; 32] { None } else { Some(c) }, b.pc())
            }
            _ => (None, u64::MAX),
        };
        events.push((loc.0, loc.1, regs));
        n += 1;
        if n > cap {
            // a tight loop on a breakpoint: stop observing, the result comparison is skipped
            vm.clear_breakpoints();
            let mut o = Outcome { state: format!("{state:?}"), is_err: false, storage_error: false, bug: false, receipts: vm.receipts().to_vec(), tx_bytes: vm.transaction().to_bytes(), reverted: false, steps: n, truncated: true };
            o.truncated = true;
            return (o, events);
        }
        match vm.resume() {
            Ok(s) => state = s,
            Err(e) => {
                let (s, storage, bug) = classify_err(&e);
                vm.clear_breakpoints();
                return (
                    Outcome { state: s, is_err: true, storage_error: storage, bug, receipts: vm.receipts().to_vec(), tx_bytes: vec![], reverted: true, steps: n, truncated: false },
                    events,
                );
            }
        }
    }
    vm.clear_breakpoints();
    let receipts = vm.receipts().to_vec();
    let reverted = receipts.iter().any(|r| matches!(r, fuel_tx::Receipt::Revert { .. } | fuel_tx::Receipt::Panic { .. }));
    (
        Outcome { state: format!("{state:?}"), is_err: false, storage_error: false, bug: false, receipts, tx_bytes: vm.transaction().to_bytes(), reverted, steps: n, truncated: false },
        events,
    )
}

pub fn run_replicas(prop: &str, world: &World, sc: &Scenario, reference: &[RefTx], ctx: &mut RunCtx) {
    // arrival traces per transaction, from the single-stepped replica (C32's yardstick)
    let mut traces: Vec<Option<ArrivalTrace>> = Vec::new();
    let mut stepped_complete: Vec<bool> = Vec::new();
    let cap = sc.plan.step_cap as u64;
    let (mut reused_txs, mut saw_panic_in_call, mut saw_big_heap) = (0u32, false, false);

    for (ri, rep) in sc.plan.replicas.iter().enumerate() {
        let mut storage: SimStorage = world.storage();
        let mut long_lived: Option<Vm> = None;
        let mut pooled: Option<MemoryInstance> = None;
        for (i, spec) in sc.txs.iter().enumerate() {
            let refx = &reference[i];
            if refx.outcome.is_none() {
                if matches!(rep, Replica::Stepped) {
                    traces.push(None);
                    stepped_complete.push(false);
                }
                continue;
            }
            let ready = match prepare(world, sc.height, sc.gas_price, i, spec) {
                Ok(r) => r,
                Err(_) => continue,
            };
            let snapshot = storage.clone();
            let what: &str;
            let outcome: Outcome;
            match rep {
                Replica::Reused => {
                    what = "reused-instance";
                    let mut vm = match long_lived.take() {
                        Some(mut vm) => {
                            *vm.as_mut() = storage;
                            vm
                        }
                        None => new_vm(world, sc.gas_price, storage, MemoryInstance::new()),
                    };
                    outcome = run_plain(&mut vm, ready);
                    settle(&mut vm, &snapshot, &outcome);
                    storage = take_storage(&mut vm);
                    reused_txs += 1;
                    if outcome.receipts.iter().any(|r| matches!(r, fuel_tx::Receipt::Panic { id, .. } if *id != fuel_types::ContractId::zeroed())) {
                        saw_panic_in_call = true;
                    }
                    if vm.memory().heap_raw().len() >= 16 * 1024 {
                        saw_big_heap = true;
                    }
                    long_lived = Some(vm);
                    ctx.stats.inc("fault.instance_reuse");
                }
                Replica::PooledMemory => {
                    what = "pooled-memory";
                    let mem = pooled.take().unwrap_or_default();
                    let dirty = !mem.stack_raw().is_empty() || !mem.heap_raw().is_empty();
                    if dirty {
                        ctx.stats.inc("fault.dirty_memory");
                    }
                    let mut vm = new_vm(world, sc.gas_price, storage, mem);
                    outcome = run_plain(&mut vm, ready);
                    settle(&mut vm, &snapshot, &outcome);
                    storage = take_storage(&mut vm);
                    pooled = Some(vm.memory().clone());
                }
                Replica::Stepped => {
                    what = "single-stepped";
                    let mut vm = new_vm(world, sc.gas_price, storage, MemoryInstance::new());
                    let mut tr = ArrivalTrace::default();
                    outcome = run_stepped(&mut vm, ready, &mut tr, cap);
                    ctx.stats.add("time.instructions", outcome.steps);
                    ctx.stats.inc("fault.debug_single_step");
                    stepped_complete.push(!outcome.truncated);
                    traces.push(Some(tr));
                    if outcome.truncated {
                        ctx.stats.inc("probe.step_cap_hit");
                        // cannot complete under observation: skip comparison, follow the reference
                        let mut vm2 = new_vm(world, sc.gas_price, snapshot.clone(), MemoryInstance::new());
                        let o2 = run_plain(&mut vm2, prepare(world, sc.height, sc.gas_price, i, spec).unwrap());
                        settle(&mut vm2, &snapshot, &o2);
                        storage = take_storage(&mut vm2);
                        continue;
                    }
                    settle(&mut vm, &snapshot, &outcome);
                    storage = take_storage(&mut vm);
                }
                Replica::Breakpoints { points, reused } => {
                    what = "breakpoints";
                    let bps: Vec<Breakpoint> = points
                        .iter()
                        .map(|(slot, idx)| {
                            if *slot == 255 {
                                Breakpoint::script(*idx as u64)
                            } else {
                                let id = world.contract_ids.get(*slot as usize).copied().unwrap_or_default();
                                Breakpoint::new(id, *idx as u64)
                            }
                        })
                        .collect();
                    let mut vm = match (reused, long_lived.take()) {
                        (true, Some(mut vm)) => {
                            *vm.as_mut() = storage;
                            vm
                        }
                        _ => new_vm(world, sc.gas_price, storage, MemoryInstance::new()),
                    };
                    let (o, events) = run_breakpoints(&mut vm, ready, &bps, cap);
                    outcome = o;
                    ctx.stats.add("fault.debug_breakpoint_events", events.len() as u64);
                    if outcome.truncated {
                        ctx.stats.inc("probe.step_cap_hit");
                        let mut vm2 = new_vm(world, sc.gas_price, snapshot.clone(), MemoryInstance::new());
                        let o2 = run_plain(&mut vm2, prepare(world, sc.height, sc.gas_price, i, spec).unwrap());
                        settle(&mut vm2, &snapshot, &o2);
                        storage = take_storage(&mut vm2);
                        if *reused {
                            long_lived = Some(vm);
                        }
                        continue;
                    }
                    // events embed, order-preserving and injectively, into the arrivals of the
                    // single-stepped trace at breakpoint locations, with the same registers
                    if let (Some(Some(tr)), Some(true)) = (traces.get(i), stepped_complete.get(i)) {
                        let mut ptr = 0usize;
                        let mut hits_per_loc: std::collections::BTreeMap<(Option<[u8; 32]>, u64), u32> = Default::default();
                        for (ei, ev) in events.iter().enumerate() {
                            let is_bp = bps.iter().any(|b| {
                                let c: [u8; 32] = (*b.contract()).into();
                                (if c == [0u8; 32] { None } else { Some(c) }) == ev.0 && b.pc() == ev.1
                            });
                            if !is_bp {
                                ctx.violate("debug-event", "debug-event:not-a-breakpoint", format!("tx {i}: debug event {ei} reported at pc {} which is not in the breakpoint set", ev.1));
                                return;
                            }
                            let found = tr.arrivals[ptr..].iter().position(|a| a.0 == ev.0 && a.1 == ev.1 && a.2 == ev.2);
                            match found {
                                Some(k) => ptr += k + 1,
                                None => {
                                    ctx.violate(
                                        "debug-event",
                                        "debug-event:no-matching-arrival",
                                        format!("tx {i}: debug event {ei} at pc {} does not match any (remaining) arrival of the observed trace with the same registers: reported twice, or after the instruction executed", ev.1),
                                    );
                                    return;
                                }
                            }
                            *hits_per_loc.entry((ev.0, ev.1)).or_insert(0) += 1;
                        }
                        let arrivals_at_bps = tr
                            .arrivals
                            .iter()
                            .filter(|a| {
                                bps.iter().any(|b| {
                                    let c: [u8; 32] = (*b.contract()).into();
                                    (if c == [0u8; 32] { None } else { Some(c) }) == a.0 && b.pc() == a.1
                                })
                            })
                            .count();
                        if arrivals_at_bps != events.len() {
                            ctx.stats.inc("probe.debug_arrival_not_reported");
                        }
                        if hits_per_loc.iter().any(|((c, _), n)| c.is_some() && *n >= 2) {
                            ctx.stats.inc("probe.debug_callee_bp_hit_twice");
                            ctx.nontrivial = true;
                        }
                        if !events.is_empty() {
                            ctx.nontrivial = true;
                        }
                    }
                    settle(&mut vm, &snapshot, &outcome);
                    storage = take_storage(&mut vm);
                    if *reused {
                        long_lived = Some(vm);
                    }
                }
                Replica::FaultRetry { tx, at_call, crash, reused } => {
                    what = "fault-retry";
                    let mut vm = match (reused, long_lived.take()) {
                        (true, Some(mut vm)) => {
                            *vm.as_mut() = storage;
                            vm
                        }
                        _ => new_vm(world, sc.gas_price, storage, MemoryInstance::new()),
                    };
                    if *tx as usize == i {
                        if *crash {
                            vm.as_ref().crash_after(*at_call as u64);
                        } else {
                            vm.as_ref().fail_after(*at_call as u64);
                        }
                        let before = vm.as_ref().errors_fired();
                        let o1 = run_plain(&mut vm, ready);
                        let fired = vm.as_ref().errors_fired() > before;
                        vm.as_ref().clear_faults();
                        if fired {
                            ctx.stats.inc(if *crash { "fault.storage_crash" } else { "fault.storage_io_error" });
                            // roll back to the last commit, restart, re-execute
                            let mut bad = o1.clone();
                            bad.is_err = true;
                            settle(&mut vm, &snapshot, &bad);
                            if !*reused {
                                let st = take_storage(&mut vm);
                                vm = new_vm(world, sc.gas_price, st, MemoryInstance::new());
                            }
                            let ready2 = prepare(world, sc.height, sc.gas_price, i, spec).unwrap();
                            outcome = run_plain(&mut vm, ready2);
                            ctx.stats.inc("probe.retry_after_rollback");
                        } else {
                            outcome = o1;
                        }
                    } else {
                        outcome = run_plain(&mut vm, ready);
                    }
                    settle(&mut vm, &snapshot, &outcome);
                    storage = take_storage(&mut vm);
                    if *reused {
                        long_lived = Some(vm);
                    }
                }
                Replica::AbandonDebug { tx, steps } => {
                    what = "abandoned-debug-session";
                    let mut vm = match long_lived.take() {
                        Some(mut vm) => {
                            *vm.as_mut() = storage;
                            vm
                        }
                        None => new_vm(world, sc.gas_price, storage, MemoryInstance::new()),
                    };
                    if *tx as usize == i {
                        let mut h = NoHook;
                        let o1 = run_stepped(&mut vm, ready, &mut h, *steps as u64);
                        if o1.truncated {
                            ctx.stats.inc("fault.debug_session_abandoned");
                        }
                        // whatever it did is rolled back; the same instance starts over
                        let mut bad = o1.clone();
                        bad.is_err = true;
                        settle(&mut vm, &snapshot, &bad);
                        let ready2 = prepare(world, sc.height, sc.gas_price, i, spec).unwrap();
                        outcome = run_plain(&mut vm, ready2);
                    } else {
                        outcome = run_plain(&mut vm, ready);
                    }
                    settle(&mut vm, &snapshot, &outcome);
                    storage = take_storage(&mut vm);
                    long_lived = Some(vm);
                }
            }
            let dump = storage.dump();
            ctx.event("replica-tx", ri as u64, fnv1a(outcome.state.as_bytes()));
            if compare(prop, what, i, refx, &outcome, &dump, ctx) {
                return;
            }
        }
    }
    if prop == "C31" && reused_txs >= 3 && saw_panic_in_call && saw_big_heap {
        ctx.nontrivial = true;
    }
    if prop == "C31" && reused_txs >= 2 {
        // weaker rule counted separately so that the strict one stays visible in the probes
        ctx.stats.inc("probe.reuse_ge_2_txs");
    }
}
