//! Drives the observer replica for the per-step properties.

use super::exec::*;
use super::mon_access::AccessMonitor;
use super::mon_flow::{FlowMonitor, FrameMonitor};
use super::mon_gas::GasMonitor;
use super::mon_kv::{KvMonitor, Kv};
use super::mon_ledger::{self, LedgerMonitor};
use fuel_vm::storage::ContractsAssetsStorage;
use super::mon_mem::MemMonitor;
use super::observer::*;
use super::world::*;
use crate::kernel::RunCtx;
use std::collections::BTreeSet;

pub fn run(prop: &str, world: &World, sc: &Scenario, ctx: &mut RunCtx) {
    let mut storage = world.storage();
    let known: BTreeSet<String> = ctx.known.findings.iter().filter(|e| e.status == "known" && e.property == prop).map(|e| e.signature.clone()).collect();
    // C33: key-value model of all contract storage, seeded from genesis, persistent across txs
    let mut kv_model: Kv = Kv::new();
    for (k, v) in world.genesis.all_contract_state() {
        kv_model.insert(((*k.contract_id()).into(), (*k.state_key()).into()), v.as_ref().to_vec());
    }
    let max_slot = world.params.script_params().max_storage_slot_length();
    // C27: all (contract, asset) balances known to the world: genesis spec ∪ every written key
    let balances_of = |st: &super::storage::SimStorage| -> std::collections::BTreeMap<([u8; 32], [u8; 32]), u64> {
        let mut keys: BTreeSet<([u8; 32], [u8; 32])> = BTreeSet::new();
        for (ci, c) in sc.contracts.iter().enumerate() {
            if let Some(id) = world.contract_ids.get(ci) {
                for (a, _) in &c.balances {
                    keys.insert(((*id).into(), asset(*a % NA as u8).into()));
                }
            }
        }
        for ((t, k), _) in st.shadow.iter() {
            if *t == super::storage::Table::Assets && k.len() == 64 {
                keys.insert((k[..32].try_into().unwrap(), k[32..].try_into().unwrap()));
            }
        }
        keys.into_iter()
            .filter_map(|(c, a)| {
                st.inner.contract_asset_id_balance(&fuel_types::ContractId::new(c), &fuel_types::AssetId::new(a)).ok().flatten().map(|v| ((c, a), v))
            })
            .collect()
    };
    // the interpreter instance kept between transactions when the plan says so
    let mut held: Option<super::exec::Vm> = None;
    for (i, spec) in sc.txs.iter().enumerate() {
        let ready = match prepare(world, sc.height, sc.gas_price, i, spec) {
            Ok(r) => r,
            Err(_) => {
                ctx.stats.inc("probe.tx_rejected_at_check");
                continue;
            }
        };
        let snapshot = storage.clone();
        let mut vm = match held.take() {
            Some(mut v) => {
                *v.as_mut() = storage;
                ctx.stats.inc("probe.tx_on_reused_interpreter");
                v
            }
            None => new_vm(world, sc.gas_price, storage, Default::default()),
        };
        let inputs: BTreeSet<_> = world.input_contract_ids(spec).into_iter().collect();
        let deployed: BTreeSet<_> = world.contract_ids.iter().copied().filter(|c| !inputs.contains(c)).collect();

        let mut access = AccessMonitor { inputs: inputs.clone(), deployed, foreign_ops: Default::default(), known: known.clone() };
        let mut flow = FlowMonitor::default();
        let mut frames = FrameMonitor::default();
        let mut mem = MemMonitor::default();
        let mut kv = KvMonitor::new(kv_model.clone(), max_slot);
        kv.evictions = sc.plan.evictions.iter().filter(|e| e.0 as usize == i).map(|e| (e.1, e.2)).collect();
        let prior_balances = if prop == "C27" { balances_of(vm.as_ref()) } else { Default::default() };
        let tx_assets: Vec<fuel_types::AssetId> = {
            let mut v: Vec<_> = spec.coins.iter().map(|c| asset(c.0 % NA as u8)).collect();
            v.push(super::world::base_asset());
            v.sort();
            v.dedup();
            v
        };
        let mut ledger = LedgerMonitor::new(prior_balances.clone(), tx_assets.clone());
        let mut gas = GasMonitor::new(world.params.gas_costs().clone());

        let (outcome, violation, known_hits) = {
            let mut obs = Observer::new(ctx.stats);
            obs.known = known.clone();
            obs.pokes = spec.reg_pokes.clone();
            match prop {
                "C30" => {
                    obs.want_log = true;
                    obs.monitors.push(&mut access);
                }
                "C25" => obs.monitors.push(&mut flow),
                "C34" => obs.monitors.push(&mut frames),
                "C24" => obs.monitors.push(&mut mem),
                "C26" => obs.monitors.push(&mut gas),
                "C27" => {
                    obs.want_log = true;
                    obs.monitors.push(&mut ledger);
                    obs.arm_fault = sc.plan.observer_faults.iter().find(|f| f.0 as usize == i).map(|f| f.1 as u64);
                }
                "C33" => {
                    obs.monitors.push(&mut kv);
                    obs.arm_fault = sc.plan.observer_faults.iter().find(|f| f.0 as usize == i).map(|f| f.1 as u64);
                }
                _ => {}
            }
            let o = run_stepped(&mut vm, ready, &mut obs, sc.plan.step_cap as u64);
            (o, obs.violation.take(), std::mem::take(&mut obs.known_hits))
        };
        vm.as_ref().set_logging(false);
        ctx.stats.add("time.instructions", outcome.steps);
        ctx.stats.inc("time.transactions");
        ctx.event("observed-tx", outcome.steps, crate::kernel::rng::fnv1a(outcome.state.as_bytes()));
        for (inv, sig, detail) in known_hits {
            ctx.violate(&inv, &sig, format!("tx {i}: {detail}"));
        }
        if let Some((inv, sig, detail)) = violation {
            if ctx.violate(&inv, &sig, format!("tx {i}: {detail}")) {
                return;
            }
        }
        match prop {
            "C30" => {
                if !access.foreign_ops.is_empty() {
                    ctx.nontrivial = true;
                }
                if !access.foreign_ops.is_empty() {
                    ctx.stats.inc("probe.foreign_contract_addressed");
                }
            }
            "C25" => {
                if flow.backward && flow.jal_roundtrip {
                    ctx.nontrivial = true;
                }
                if flow.beyond_ssp {
                    ctx.stats.inc("probe.run_with_jump_beyond_ssp");
                }
            }
            "C34" => {
                if frames.max_depth >= 2 && frames.retd_len {
                    ctx.nontrivial = true;
                }
                if frames.max_depth >= 3 && frames.recursive {
                    ctx.stats.inc("probe.depth3_recursive");
                }
            }
            "C24" => {
                if mem.refused_in_call || mem.callee_heap_write {
                    ctx.nontrivial = true;
                }
            }
            "C26" => {
                if gas.oog_in_multistage || gas.nested_return_with_unspent {
                    ctx.nontrivial = true;
                }
                if gas.oog_in_multistage && gas.nested_return_with_unspent {
                    ctx.stats.inc("probe.strict_c26_nontrivial");
                }
                if gas.hot_after_clear.get() {
                    ctx.stats.inc("probe.hot_read_of_cleared_slot");
                }
                // gas reported in the script result = gas limit − remaining global gas
                if !outcome.is_err && !outcome.truncated {
                    if let Some(fuel_tx::Receipt::ScriptResult { gas_used, .. }) = outcome.receipts.last() {
                        let remaining = vm.registers()[9];
                        if spec.gas_limit.checked_sub(remaining) != Some(*gas_used) {
                            if ctx.violate("script-result-gas", "script-result-gas", format!("tx {i}: ScriptResult.gas_used = {gas_used} but script gas limit {} − remaining $ggas {remaining} = {:?}", spec.gas_limit, spec.gas_limit.checked_sub(remaining))) {
                                return;
                            }
                        }
                    }
                }
            }
            "C27" => {
                if vm.as_ref().errors_fired() > 0 {
                    ctx.stats.inc("fault.storage_io_error");
                }
                if !outcome.truncated {
                    let free_end: std::collections::BTreeMap<[u8; 32], u64> =
                        tx_assets.iter().filter_map(|a| vm.verif_balances().balance(a).map(|v| ((*a).into(), v))).collect();
                    // final balances as the embedder leaves them (commit on success, restore otherwise)
                    let fin = if outcome.is_err || outcome.reverted { prior_balances.clone() } else { balances_of(vm.as_ref()) };
                    if let Some((inv, sig, detail)) = mon_ledger::check_conservation(world, sc, i, spec, &outcome, &prior_balances, &fin, &free_end) {
                        if ctx.violate(&inv, &sig, detail) {
                            return;
                        }
                    }
                    ctx.stats.inc("probe.conservation_checked");
                }
                let n_assets = tx_assets.len();
                if n_assets >= 2 && ledger.nested_contract_transfer && ledger.failure_after_movement {
                    ctx.stats.inc("probe.strict_c27_nontrivial");
                }
                if ledger.movements >= 2 {
                    ctx.nontrivial = true;
                }
            }
            "C33" => {
                if kv.legacy_read_of_dynamic || kv.range_clear_mixed_cache {
                    ctx.nontrivial = true;
                }
                if kv.legacy_read_of_dynamic {
                    ctx.stats.inc("probe.legacy_read_of_dynamic_slot");
                }
                if kv.range_clear_mixed_cache {
                    ctx.stats.inc("probe.range_clear_cached_and_uncached");
                }
                if !kv.evictions.is_empty() {
                    ctx.stats.add("fault.cache_evict", kv.evictions.len() as u64);
                }
                if vm.as_ref().errors_fired() > 0 {
                    ctx.stats.inc("fault.storage_io_error");
                }
                // committed on success, restored on revert / panic / error / truncation
                if !(outcome.is_err || outcome.reverted || outcome.truncated) {
                    kv_model = kv.kv.clone();
                }
            }
            _ => {}
        }
        if outcome.truncated {
            ctx.stats.inc("probe.step_cap_hit");
            let mut vm2 = new_vm(world, sc.gas_price, snapshot.clone(), Default::default());
            let o2 = run_plain(&mut vm2, prepare(world, sc.height, sc.gas_price, i, spec).unwrap());
            settle(&mut vm2, &snapshot, &o2);
            if prop == "C33" && !(o2.is_err || o2.reverted) {
                kv_model = super::mon_kv::table_of(&vm2);
            }
            storage = take_storage(&mut vm2);
        } else {
            settle(&mut vm, &snapshot, &outcome);
            storage = take_storage(&mut vm);
            if sc.plan.reuse_vm {
                held = Some(vm);
            }
        }
    }
}
