//! Raw instruction word encoding (bit packing only; no range panics) and decoding helpers.

use fuel_asm::Opcode;

pub const ZERO: u8 = 0x00;
pub const ONE: u8 = 0x01;
pub const OF: u8 = 0x02;
pub const PC: u8 = 0x03;
pub const SSP: u8 = 0x04;
pub const SP: u8 = 0x05;
pub const FP: u8 = 0x06;
pub const HP: u8 = 0x07;
pub const ERR: u8 = 0x08;
pub const GGAS: u8 = 0x09;
pub const CGAS: u8 = 0x0a;
pub const BAL: u8 = 0x0b;
pub const IS: u8 = 0x0c;
pub const RET: u8 = 0x0d;
pub const RETL: u8 = 0x0e;
pub const FLAG: u8 = 0x0f;

#[inline]
pub fn r4(op: Opcode, a: u8, b: u8, c: u8, d: u8) -> u32 {
    ((op as u32) << 24) | ((a as u32 & 63) << 18) | ((b as u32 & 63) << 12) | ((c as u32 & 63) << 6) | (d as u32 & 63)
}
#[inline]
pub fn r3(op: Opcode, a: u8, b: u8, c: u8) -> u32 {
    r4(op, a, b, c, 0)
}
#[inline]
pub fn r2(op: Opcode, a: u8, b: u8) -> u32 {
    r4(op, a, b, 0, 0)
}
#[inline]
pub fn r1(op: Opcode, a: u8) -> u32 {
    r4(op, a, 0, 0, 0)
}
#[inline]
pub fn ri12(op: Opcode, a: u8, b: u8, imm: u32) -> u32 {
    ((op as u32) << 24) | ((a as u32 & 63) << 18) | ((b as u32 & 63) << 12) | (imm & 0xfff)
}
#[inline]
pub fn ri18(op: Opcode, a: u8, imm: u32) -> u32 {
    ((op as u32) << 24) | ((a as u32 & 63) << 18) | (imm & 0x3ffff)
}
#[inline]
pub fn i24(op: Opcode, imm: u32) -> u32 {
    ((op as u32) << 24) | (imm & 0xff_ffff)
}

#[derive(Debug, Clone, Copy)]
pub struct Dec {
    pub op: u8,
    pub a: u8,
    pub b: u8,
    pub c: u8,
    pub d: u8,
    pub imm12: u32,
    pub imm18: u32,
    pub imm24: u32,
}

pub fn dec(w: u32) -> Dec {
    Dec {
        op: (w >> 24) as u8,
        a: ((w >> 18) & 63) as u8,
        b: ((w >> 12) & 63) as u8,
        c: ((w >> 6) & 63) as u8,
        d: (w & 63) as u8,
        imm12: w & 0xfff,
        imm18: w & 0x3ffff,
        imm24: w & 0xff_ffff,
    }
}

pub fn opcode_of(w: u32) -> Option<Opcode> {
    Opcode::try_from((w >> 24) as u8).ok()
}

/// Is the word a valid instruction for the real decoder?
pub fn valid(w: u32) -> bool {
    fuel_asm::Instruction::try_from(w.to_be_bytes()).is_ok()
}
