//! Observer replica: single-steps a transaction (the debugger is the event loop) and lets a set
//! of monitors inspect the pre- and post-state of every instruction.

use super::asm::{dec, Dec};
use super::exec::*;
use super::storage::Access;
use crate::kernel::Stats;
use fuel_asm::{Opcode, PanicReason};
use fuel_tx::Receipt;

pub type Viol = (String, String, String);

pub struct StepInfo<'a> {
    pub pre: &'a Pre,
    pub op: Option<Opcode>,
    pub d: Dec,
    pub post: [u64; 64],
    pub res: &'a StepResult,
    pub new_receipts: &'a [Receipt],
    /// Panic raised in this step: (reason, pc recorded in the Panic receipt).
    pub panic: Option<(PanicReason, u64)>,
    /// The panic belongs to this instruction (not to the fetch of the next one).
    pub own_panic: bool,
    /// The instruction completed but fetching the next one panicked in the same resume().
    pub next_fetch_panic: bool,
    pub finished: bool,
    pub errored: bool,
    pub log: Vec<Access>,
}

impl StepInfo<'_> {
    pub fn reg_pre(&self, r: u8) -> u64 {
        self.pre.regs[r as usize & 63]
    }
    pub fn reg_post(&self, r: u8) -> u64 {
        self.post[r as usize & 63]
    }
    /// The instruction ran to completion (no panic of its own, no error).
    pub fn completed(&self) -> bool {
        !self.own_panic && !self.errored
    }
}

pub trait Monitor {
    fn before(&mut self, _vm: &mut Vm, _pre: &Pre) {}
    fn after(&mut self, vm: &mut Vm, info: &StepInfo, stats: &mut Stats) -> Option<Viol>;
}

pub struct Observer<'a> {
    pub monitors: Vec<&'a mut dyn Monitor>,
    pub stats: &'a mut Stats,
    pub violation: Option<Viol>,
    /// Storage fault armed at the first step.
    pub arm_fault: Option<u64>,
    pub pokes: Vec<(u8, u64)>,
    pub want_log: bool,
    /// Signatures listed as known findings: recorded and observation continues.
    pub known: std::collections::BTreeSet<String>,
    pub known_hits: Vec<Viol>,
}

impl<'a> Observer<'a> {
    pub fn new(stats: &'a mut Stats) -> Self {
        Observer { monitors: Vec::new(), stats, violation: None, arm_fault: None, pokes: Vec::new(), want_log: false, known: Default::default(), known_hits: Vec::new() }
    }
}

impl StepHook for Observer<'_> {
    fn before(&mut self, vm: &mut Vm, pre: &Pre) {
        if pre.step == 0 {
            for (r, v) in &self.pokes {
                let r = *r as usize;
                if (16..64).contains(&r) {
                    vm.registers_mut()[r] = *v;
                }
            }
            if let Some(n) = self.arm_fault.take() {
                vm.as_ref().fail_after(n);
            }
        }
        if self.want_log {
            vm.as_ref().set_logging(true);
            let _ = vm.as_ref().drain_log();
        }
        for m in self.monitors.iter_mut() {
            m.before(vm, pre);
        }
    }

    fn after(&mut self, vm: &mut Vm, pre: &Pre, res: &StepResult) -> bool {
        let post = regs_of(vm);
        let receipts = vm.receipts();
        let new_receipts: Vec<Receipt> = receipts[pre.receipts_len.min(receipts.len())..].to_vec();
        let panic = new_receipts.iter().find_map(|r| match r {
            Receipt::Panic { reason, pc, .. } => Some((*reason.reason(), *pc)),
            _ => None,
        });
        let finished = matches!(res, StepResult::Finished { .. });
        let errored = matches!(res, StepResult::Error { .. });
        let own_panic = matches!(panic, Some((_, pc)) if pc == pre.regs[3]);
        let next_fetch_panic = panic.is_some() && !own_panic;
        let word = pre.word.unwrap_or(0);
        let log = if self.want_log { vm.as_ref().drain_log() } else { Vec::new() };
        let info = StepInfo {
            pre,
            // a word the real decoder rejects (reserved bits set, unknown opcode) is no instruction
            op: if super::asm::valid(word) { Opcode::try_from((word >> 24) as u8).ok() } else { None },
            d: dec(word),
            post,
            res,
            new_receipts: &new_receipts,
            panic,
            own_panic,
            next_fetch_panic,
            finished,
            errored,
            log,
        };
        if let Some(op) = info.op {
            let outcome = if errored {
                "error".to_string()
            } else if own_panic {
                format!("{:?}", panic.map(|p| p.0).unwrap_or(PanicReason::UnknownPanicReason))
            } else {
                "ok".to_string()
            };
            self.stats.inc_dyn(format!("op.{op:?}.{outcome}"));
        }
        if std::env::var_os("FVSIM_DEBUG_STEPS").is_some() {
            // diagnostics only (never set by the checks): one line per step on stderr
            eprintln!(
                "step {:5} pc={:6} is={:6} {:08x} {:?} a={} b={} c={} d={} | pre r[a]={} r[b]={} r[c]={} r[d]={} | post pc={} sp={} ssp={} hp={} fp={} cgas={} ggas={} panic={:?} fin={}",
                pre.step, pre.regs[3], pre.regs[12], word, info.op, info.d.a, info.d.b, info.d.c, info.d.d,
                pre.regs[info.d.a as usize], pre.regs[info.d.b as usize], pre.regs[info.d.c as usize], pre.regs[info.d.d as usize],
                post[3], post[5], post[4], post[7], post[6], post[10], post[9], info.panic, finished
            );
        }
        for m in self.monitors.iter_mut() {
            if let Some(v) = m.after(vm, &info, self.stats) {
                if self.known.contains(&v.1) {
                    if !self.known_hits.iter().any(|k| k.1 == v.1) {
                        self.known_hits.push(v);
                    }
                    continue;
                }
                self.violation = Some(v);
                return false;
            }
        }
        true
    }
}
