//! Replica execution primitives: prepare a transaction through the checked pipeline, run it
//! plainly or single-stepped (the debugger is the simulator's event loop), apply the
//! embedder's commit / revert protocol.

use super::storage::{SimIoError, SimStorage};
use super::world::{ScriptSpec, World};
use fuel_asm::{PanicReason, RegId};
use fuel_tx::{Receipt, Script};
use fuel_types::canonical::Serialize as _;
use fuel_vm::checked_transaction::{IntoChecked, Ready};
use fuel_vm::error::InterpreterError;
use fuel_vm::error::SimpleResult;
use fuel_vm::interpreter::{EcalHandler, Interpreter, InterpreterParams, Memory, MemoryInstance};
use fuel_vm::state::ProgramState;
use fuel_vm::storage::MemoryStorage;

/// Deterministic host-call handler behind the `EcalHandler` seam.
#[derive(Debug, Clone, Copy, Default)]
pub struct SimEcal;

impl EcalHandler for SimEcal {
    fn ecal<M, S, Tx, V>(
        vm: &mut Interpreter<M, S, Tx, Self, V>,
        a: RegId,
        b: RegId,
        c: RegId,
        _d: RegId,
    ) -> SimpleResult<()>
    where
        M: Memory,
    {
        // gas accounting of a host call is the handler's responsibility
        vm.gas_charge(3)?;
        let v = vm.registers()[a.to_u8() as usize].wrapping_add(vm.registers()[b.to_u8() as usize]);
        if v % 7 == 3 {
            return Err(PanicReason::EcalError.into());
        }
        let ci = c.to_u8() as usize;
        if ci >= 16 {
            vm.registers_mut()[ci] = v;
        }
        Ok(())
    }
}

pub type Vm = Interpreter<MemoryInstance, SimStorage, Script, SimEcal>;

pub fn new_vm(world: &World, gas_price: u64, storage: SimStorage, memory: MemoryInstance) -> Vm {
    let params = InterpreterParams::new(gas_price, &world.params);
    Vm::with_storage(memory, storage, params)
}

pub fn empty_storage() -> SimStorage {
    SimStorage::new(MemoryStorage::default())
}

/// Why a transaction did not reach execution.
#[derive(Debug, Clone, PartialEq, Eq)]
pub enum Prep {
    Ready,
    CheckRejected(String),
    NotReady(String),
}

pub fn prepare(world: &World, height: u32, gas_price: u64, idx: usize, spec: &ScriptSpec) -> Result<Ready<Script>, Prep> {
    let tx = world.script_tx(idx, spec);
    let checked = tx
        .into_checked_basic(height.into(), &world.params)
        .map_err(|e| Prep::CheckRejected(format!("{e:?}")))?;
    checked
        .into_ready(gas_price, world.params.gas_costs(), world.params.fee_params(), Some(height.into()))
        .map_err(|e| Prep::NotReady(format!("{e:?}")))
}

/// Observable result of executing one transaction on one replica.
#[derive(Debug, Clone, PartialEq, Eq)]
pub struct Outcome {
    /// "Return(1)", "Revert(0)", … or "Err:<kind>".
    pub state: String,
    pub is_err: bool,
    pub storage_error: bool,
    pub bug: bool,
    pub receipts: Vec<Receipt>,
    /// Canonical bytes of the output transaction (empty on error).
    pub tx_bytes: Vec<u8>,
    pub reverted: bool,
    /// Executed single steps (stepped runs only).
    pub steps: u64,
    /// The step cap ended the observation before the program finished.
    pub truncated: bool,
}

pub fn classify_err(e: &InterpreterError<SimIoError>) -> (String, bool, bool) {
    match e {
        InterpreterError::Storage(_) => ("Err:Storage".to_string(), true, false),
        InterpreterError::Bug(b) => (format!("Err:Bug({b:?})"), false, true),
        InterpreterError::PanicInstruction(r) => (format!("Err:PanicInstruction({:?})", r.reason()), false, false),
        InterpreterError::Panic(r) => (format!("Err:Panic({r:?})"), false, false),
        other => (format!("Err:{other:?}"), false, false),
    }
}

fn outcome_ok(vm: &Vm, state: ProgramState, steps: u64) -> Outcome {
    let receipts = vm.receipts().to_vec();
    let reverted = receipts.iter().any(|r| matches!(r, Receipt::Revert { .. } | Receipt::Panic { .. }));
    Outcome {
        state: format!("{state:?}"),
        is_err: false,
        storage_error: false,
        bug: false,
        receipts,
        tx_bytes: vm.transaction().to_bytes(),
        reverted,
        steps,
        truncated: false,
    }
}

fn outcome_err(vm: &Vm, e: &InterpreterError<SimIoError>, steps: u64) -> Outcome {
    let (state, storage_error, bug) = classify_err(e);
    Outcome {
        state,
        is_err: true,
        storage_error,
        bug,
        receipts: vm.receipts().to_vec(),
        tx_bytes: Vec::new(),
        reverted: true,
        steps,
        truncated: false,
    }
}

/// Run to completion without a debugger.
pub fn run_plain(vm: &mut Vm, ready: Ready<Script>) -> Outcome {
    match vm.transact(ready) {
        Ok(st) => {
            let state = *st.state();
            outcome_ok(vm, state, 0)
        }
        Err(e) => outcome_err(vm, &e, 0),
    }
}

/// What the observer sees before an instruction executes.
#[derive(Debug, Clone)]
pub struct Pre {
    pub step: u64,
    pub regs: [u64; 64],
    /// Instruction word at $pc (None when $pc is not readable).
    pub word: Option<u32>,
    pub receipts_len: usize,
}

pub fn read_word(vm: &Vm, addr: u64) -> Option<u32> {
    vm.memory().read(addr, 4usize).ok().map(|b| u32::from_be_bytes([b[0], b[1], b[2], b[3]]))
}

pub fn regs_of(vm: &Vm) -> [u64; 64] {
    let mut r = [0u64; 64];
    r.copy_from_slice(&vm.registers()[..64]);
    r
}

/// Step-level callbacks of a monitor. `before` runs with the pre-state of an instruction,
/// `after` with its post-state; `last` is true when that step also ran the finalisation.
pub trait StepHook {
    fn before(&mut self, _vm: &mut Vm, _pre: &Pre) {}
    /// Return false to stop observing (violation found).
    fn after(&mut self, _vm: &mut Vm, _pre: &Pre, _result: &StepResult) -> bool {
        true
    }
}

#[derive(Debug, Clone)]
pub enum StepResult {
    /// Next debug event reached; program continues.
    Continue,
    /// Program ended in this step (finalisation included).
    Finished { state: String },
    /// Execution returned an error (storage / bug / …).
    Error { state: String, storage: bool, bug: bool },
}

/// Single-stepped execution: each `resume()` executes exactly one instruction.
pub fn run_stepped(vm: &mut Vm, ready: Ready<Script>, hook: &mut dyn StepHook, step_cap: u64) -> Outcome {
    vm.set_single_stepping(true);
    let first = match vm.transact(ready) {
        Ok(st) => *st.state(),
        Err(e) => {
            vm.set_single_stepping(false);
            return outcome_err(vm, &e, 0);
        }
    };
    let mut state = first;
    let mut steps = 0u64;
    loop {
        if !state.is_debug() {
            vm.set_single_stepping(false);
            return outcome_ok(vm, state, steps);
        }
        if steps >= step_cap {
            vm.set_single_stepping(false);
            let mut o = outcome_ok(vm, state, steps);
            o.truncated = true;
            return o;
        }
        let regs = regs_of(vm);
        let pre = Pre { step: steps, regs, word: read_word(vm, regs[RegId::PC.to_u8() as usize]), receipts_len: vm.receipts().len() };
        hook.before(vm, &pre);
        let r = vm.resume();
        steps += 1;
        match r {
            Ok(s) => {
                let res = if s.is_debug() { StepResult::Continue } else { StepResult::Finished { state: format!("{s:?}") } };
                let go = hook.after(vm, &pre, &res);
                state = s;
                if !go {
                    vm.set_single_stepping(false);
                    let mut o = outcome_ok(vm, state, steps);
                    o.truncated = state.is_debug();
                    return o;
                }
            }
            Err(e) => {
                let (st, storage, bug) = classify_err(&e);
                let _ = hook.after(vm, &pre, &StepResult::Error { state: st, storage, bug });
                vm.set_single_stepping(false);
                return outcome_err(vm, &e, steps);
            }
        }
    }
}

/// The embedder's protocol around one transaction, exactly as `MemoryClient::transact`:
/// commit on success, restore the pre-transaction snapshot on revert / panic / error.
pub fn settle(vm: &mut Vm, snapshot: &SimStorage, outcome: &Outcome) {
    if outcome.is_err || outcome.reverted {
        let rec = vm.as_ref().rec.borrow().clone();
        let mut restored = snapshot.clone();
        // keep the call counter running across the rollback; faults are cleared
        restored.rec.borrow_mut().calls = rec.calls;
        restored.rec.borrow_mut().log_enabled = rec.log_enabled;
        restored.rec.borrow_mut().errors_fired = rec.errors_fired;
        *vm.as_mut() = restored;
    } else {
        vm.as_mut().inner.commit();
    }
    vm.as_mut().clear_faults();
}

pub fn take_storage(vm: &mut Vm) -> SimStorage {
    std::mem::replace(vm.as_mut(), empty_storage())
}
