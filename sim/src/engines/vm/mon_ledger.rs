//! C27 — assets are conserved: per-step matching of movement receipts with balance movements
//! (contract balances seen at the storage seam, free balances through the `verif_balances`
//! hook), the in-memory balance table against the internal free balances, and an end-of-
//! transaction ledger equation per asset.

use super::asm::*;
use super::exec::{Outcome, Pre, Vm};
use super::observer::*;
use super::storage::{Method, Table};
use super::world::*;
use crate::kernel::Stats;
use fuel_tx::field::{Inputs, Outputs};
use fuel_tx::{Chargeable, ContractIdExt, Input, Output, Receipt};
use fuel_types::{AssetId, ContractId};
use fuel_vm::consts::VM_MEMORY_BALANCES_OFFSET;
use std::collections::BTreeMap;

type Key = ([u8; 32], [u8; 32]);

pub struct LedgerMonitor {
    /// Model of contract balances: (contract, asset) -> amount, seeded from genesis.
    pub contract_bal: BTreeMap<Key, u64>,
    /// Assets whose free balance is tracked (the transaction's input assets).
    pub assets: Vec<AssetId>,
    free_before: BTreeMap<[u8; 32], u64>,
    pub movements: u32,
    pub nested_contract_transfer: bool,
    pub failure_after_movement: bool,
}

impl LedgerMonitor {
    pub fn new(contract_bal: BTreeMap<Key, u64>, assets: Vec<AssetId>) -> Self {
        LedgerMonitor { contract_bal, assets, free_before: BTreeMap::new(), movements: 0, nested_contract_transfer: false, failure_after_movement: false }
    }

    fn free(&self, vm: &Vm) -> BTreeMap<[u8; 32], u64> {
        let b = vm.verif_balances();
        self.assets.iter().filter_map(|a| b.balance(a).map(|v| ((*a).into(), v))).collect()
    }
}

fn add(m: &mut BTreeMap<(u8, [u8; 32], [u8; 32]), i128>, kind: u8, who: [u8; 32], asset: [u8; 32], d: i128) {
    if d != 0 {
        *m.entry((kind, who, asset)).or_insert(0) += d;
    }
}

impl Monitor for LedgerMonitor {
    fn before(&mut self, vm: &mut Vm, _pre: &Pre) {
        self.free_before = self.free(vm);
    }

    fn after(&mut self, vm: &mut Vm, info: &StepInfo, stats: &mut Stats) -> Option<Viol> {
        if info.errored {
            return None;
        }
        let step = info.pre.step;
        let opn = info.op.map(|o| format!("{o:?}")).unwrap_or_else(|| "?".into());
        // ---- actual deltas: contract balances from the storage log, free balances from the hook
        // kind 0 = free balance, 1 = contract balance
        let mut actual: BTreeMap<(u8, [u8; 32], [u8; 32]), i128> = BTreeMap::new();
        for a in &info.log {
            if a.table != Table::Assets || a.failed {
                continue;
            }
            let (Some(c), Some(asset)) = (a.contract, a.key) else { continue };
            let c: [u8; 32] = c.into();
            match a.method {
                Method::Replace | Method::WriteBytes | Method::ReplaceBytes => {
                    let new = a.value.as_ref().and_then(|v| v.as_slice().try_into().ok()).map(u64::from_be_bytes).unwrap_or(0);
                    let old = self.contract_bal.get(&(c, asset)).copied().unwrap_or(0);
                    add(&mut actual, 1, c, asset, new as i128 - old as i128);
                    self.contract_bal.insert((c, asset), new);
                }
                Method::Take | Method::TakeBytes => {
                    let old = self.contract_bal.remove(&(c, asset)).unwrap_or(0);
                    add(&mut actual, 1, c, asset, -(old as i128));
                }
                _ => {}
            }
        }
        let free_after = self.free(vm);
        for (a, v) in &free_after {
            let old = self.free_before.get(a).copied().unwrap_or(0);
            add(&mut actual, 0, [0; 32], *a, *v as i128 - old as i128);
        }
        if info.own_panic || info.finished {
            // the transaction ends here (panic / revert / final return): judged at the end
            if info.own_panic && self.movements > 0 {
                self.failure_after_movement = true;
            }
            if !(info.finished && !info.own_panic && info.panic.is_none()) {
                return None;
            }
        }

        // ---- expected deltas from the receipts of this step ---------------------------------
        let mut expected: BTreeMap<(u8, [u8; 32], [u8; 32]), i128> = BTreeMap::new();
        let external = info.pre.regs[FP as usize] == 0;
        let current: [u8; 32] = if external { [0; 32] } else { vm.memory().read(info.pre.regs[FP as usize], 32usize).ok().and_then(|b| b.try_into().ok()).unwrap_or([0; 32]) };
        let src = |id: &ContractId| -> (u8, [u8; 32]) {
            let b: [u8; 32] = (*id).into();
            if b == [0; 32] { (0, [0; 32]) } else { (1, b) }
        };
        let mut moved = false;
        for r in info.new_receipts {
            match r {
                Receipt::Transfer { id, to, amount, asset_id, .. } => {
                    let (k, w) = src(id);
                    add(&mut expected, k, w, (*asset_id).into(), -(*amount as i128));
                    add(&mut expected, 1, (*to).into(), (*asset_id).into(), *amount as i128);
                    moved = true;
                    if k == 1 && info.pre.regs[FP as usize] != 0 {
                        self.nested_contract_transfer = true;
                    }
                }
                Receipt::TransferOut { id, amount, asset_id, .. } => {
                    let (k, w) = src(id);
                    add(&mut expected, k, w, (*asset_id).into(), -(*amount as i128));
                    moved = true;
                }
                Receipt::Call { id, to, amount, asset_id, .. } => {
                    if *amount > 0 {
                        let (k, w) = src(id);
                        add(&mut expected, k, w, (*asset_id).into(), -(*amount as i128));
                        add(&mut expected, 1, (*to).into(), (*asset_id).into(), *amount as i128);
                        moved = true;
                    }
                }
                Receipt::Mint { sub_id, contract_id, val, .. } => {
                    let asset = contract_id.asset_id(sub_id);
                    add(&mut expected, 1, (*contract_id).into(), asset.into(), *val as i128);
                    moved = true;
                }
                Receipt::Burn { sub_id, contract_id, val, .. } => {
                    let asset = contract_id.asset_id(sub_id);
                    add(&mut expected, 1, (*contract_id).into(), asset.into(), -(*val as i128));
                    moved = true;
                }
                Receipt::MessageOut { amount, .. } => {
                    let base: [u8; 32] = super::world::base_asset().into();
                    if external {
                        add(&mut expected, 0, [0; 32], base, -(*amount as i128));
                    } else {
                        add(&mut expected, 1, current, base, -(*amount as i128));
                    }
                    moved = true;
                }
                _ => {}
            }
        }
        if moved {
            self.movements += 1;
            stats.inc("probe.balance_movement_checked");
        }
        expected.retain(|_, v| *v != 0);
        actual.retain(|_, v| *v != 0);
        if expected != actual {
            let show = |m: &BTreeMap<(u8, [u8; 32], [u8; 32]), i128>| {
                m.iter().map(|((k, w, a), d)| format!("{}:{}…/{}…{:+}", if *k == 0 { "free" } else { "contract" }, hex::encode(&w[..3]), hex::encode(&a[..3]), d)).collect::<Vec<_>>().join(", ")
            };
            return Some((
                "receipt-movement-mismatch".into(),
                format!("receipt-movement-mismatch:{opn}"),
                format!("step {step}: {opn}: balance movements [{}] do not match the movements announced by this step's receipts [{}]", show(&actual), show(&expected)),
            ));
        }

        // ---- the balance table in VM memory equals the internal free balances -----------------
        let mut sorted: Vec<([u8; 32], u64)> = free_after.iter().map(|(a, v)| (*a, *v)).collect();
        sorted.sort();
        for (i, (asset, val)) in sorted.iter().enumerate() {
            let off = VM_MEMORY_BALANCES_OFFSET as u64 + (i as u64) * 40;
            let Ok(b) = vm.memory().read(off, 40usize) else { break };
            let mem_asset: [u8; 32] = b[..32].try_into().unwrap();
            let mem_val = u64::from_be_bytes(b[32..40].try_into().unwrap());
            if &mem_asset != asset || mem_val != *val {
                return Some((
                    "memory-balance-table".into(),
                    "memory-balance-table".into(),
                    format!("step {step}: after {opn} the balance table entry {i} in VM memory is ({}…, {mem_val}) but the internal free balance of {}… is {val}", hex::encode(&mem_asset[..4]), hex::encode(&asset[..4])),
                ));
            }
        }
        None
    }
}

/// End-of-transaction ledger equation per asset (u128 arithmetic).
#[allow(clippy::too_many_arguments)]
pub fn check_conservation(
    world: &World,
    sc: &Scenario,
    i: usize,
    spec: &ScriptSpec,
    o: &Outcome,
    prior: &BTreeMap<Key, u64>,
    fin: &BTreeMap<Key, u64>,
    free_end: &BTreeMap<[u8; 32], u64>,
) -> Option<Viol> {
    if o.is_err || o.tx_bytes.is_empty() {
        return None;
    }
    use fuel_types::canonical::Deserialize as _;
    let tx = fuel_tx::Script::from_bytes(&o.tx_bytes).ok()?;
    let orig = world.script_tx(i, spec);
    let success = !o.reverted;
    let gas_used = o.receipts.iter().find_map(|r| if let Receipt::ScriptResult { gas_used, .. } = r { Some(*gas_used) } else { None })?;
    let params = &world.params;
    let min_gas = orig.min_gas(params.gas_costs(), params.fee_params()) as u128;
    let factor = params.fee_params().gas_price_factor().max(1) as u128;
    let fee = ((min_gas + gas_used as u128) * sc.gas_price as u128).div_ceil(factor) + spec.tip as u128;
    let base: [u8; 32] = super::world::base_asset().into();

    let mut assets: std::collections::BTreeSet<[u8; 32]> = Default::default();
    let mut inputs: BTreeMap<[u8; 32], u128> = BTreeMap::new();
    for inp in orig.inputs() {
        match inp {
            Input::CoinSigned(c) => *inputs.entry(c.asset_id.into()).or_default() += c.amount as u128,
            Input::MessageCoinSigned(m) => *inputs.entry(base).or_default() += m.amount as u128,
            Input::MessageDataSigned(m) if success => *inputs.entry(base).or_default() += m.amount as u128,
            _ => {}
        }
    }
    let mut outs: BTreeMap<[u8; 32], u128> = BTreeMap::new();
    let mut has_change: std::collections::BTreeSet<[u8; 32]> = Default::default();
    for out in tx.outputs() {
        match out {
            Output::Coin { amount, asset_id, .. } => *outs.entry((*asset_id).into()).or_default() += *amount as u128,
            Output::Change { amount, asset_id, .. } => *outs.entry((*asset_id).into()).or_default() += *amount as u128,
            Output::Variable { amount, asset_id, .. } => *outs.entry((*asset_id).into()).or_default() += *amount as u128,
            _ => {}
        }
    }
    // "a balance left without a change output" refers to the transaction as submitted: an asset
    // that had a change output keeps it (execution must not turn it into something else)
    for out in orig.outputs() {
        if let Output::Change { asset_id, .. } = out {
            has_change.insert((*asset_id).into());
        }
    }
    let (mut minted, mut burned, mut msgout) = (BTreeMap::<[u8; 32], u128>::new(), BTreeMap::<[u8; 32], u128>::new(), 0u128);
    if success {
        for r in &o.receipts {
            match r {
                Receipt::Mint { sub_id, contract_id, val, .. } => *minted.entry(contract_id.asset_id(sub_id).into()).or_default() += *val as u128,
                Receipt::Burn { sub_id, contract_id, val, .. } => *burned.entry(contract_id.asset_id(sub_id).into()).or_default() += *val as u128,
                Receipt::MessageOut { amount, .. } => msgout += *amount as u128,
                _ => {}
            }
        }
    }
    let sum = |m: &BTreeMap<Key, u64>, a: &[u8; 32]| -> u128 { m.iter().filter(|(k, _)| &k.1 == a).map(|(_, v)| *v as u128).sum() };
    for m in [prior, fin] {
        for k in m.keys() {
            assets.insert(k.1);
        }
    }
    assets.extend(inputs.keys().copied());
    assets.extend(outs.keys().copied());
    assets.extend(minted.keys().copied());
    assets.extend(burned.keys().copied());
    // free balance left without a change output (plus, for the base asset, the lost refund)
    let coin_out = |a: &[u8; 32]| -> u128 {
        orig.outputs().iter().filter_map(|o| if let Output::Coin { amount, asset_id, .. } = o { if <[u8; 32]>::from(*asset_id) == *a { Some(*amount as u128) } else { None } } else { None }).sum()
    };
    for a in &assets {
        let inp = inputs.get(a).copied().unwrap_or(0);
        let lhs = inp + sum(prior, a) + minted.get(a).copied().unwrap_or(0);
        let unclaimed = if has_change.contains(a) {
            0
        } else if success {
            let f = free_end.get(a).copied().unwrap_or(0) as u128;
            if *a == base { f + (spec.max_fee as u128).saturating_sub(fee) } else { f }
        } else {
            // reverted: nothing moved; whatever the inputs held beyond coin outputs (and the fee) is unclaimed
            let left = inp.saturating_sub(coin_out(a));
            if *a == base { left.saturating_sub(fee) } else { left }
        };
        let rhs = outs.get(a).copied().unwrap_or(0) + sum(fin, a) + burned.get(a).copied().unwrap_or(0) + unclaimed + if *a == base { fee + msgout } else { 0 };
        if lhs != rhs {
            return Some((
                "asset-not-conserved".into(),
                format!("asset-not-conserved:{}", if success { "success" } else { "revert" }),
                format!(
                    "tx {i} ({}): asset {}…: inputs {inp} + contracts before {} + minted {} = {lhs}  ≠  outputs {} + contracts after {} + burned {} + unclaimed {unclaimed} + fee/messages {} = {rhs}",
                    if success { "success" } else { "reverted" },
                    hex::encode(&a[..4]),
                    sum(prior, a),
                    minted.get(a).copied().unwrap_or(0),
                    outs.get(a).copied().unwrap_or(0),
                    sum(fin, a),
                    burned.get(a).copied().unwrap_or(0),
                    if *a == base { fee + msgout } else { 0 }
                ),
            ));
        }
    }
    None
}
