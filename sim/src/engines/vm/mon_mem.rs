//! C24 — programs can only write memory they own: whole-memory diff after every single-stepped
//! instruction, plus panic-reason prediction for the modelled access family.

use super::asm::*;
use super::exec::{Pre, Vm};
use super::observer::*;
use crate::kernel::Stats;
use fuel_asm::{Opcode as O, PanicReason as P};
use fuel_types::canonical::Serialize as _;
use fuel_vm::call::CallFrame;
use fuel_vm::consts::VM_MEMORY_BALANCES_OFFSET;
use fuel_vm::interpreter::MemoryInstance;

const MEM: u64 = 1 << 26;

#[derive(Default)]
pub struct MemMonitor {
    before: Option<MemoryInstance>,
    php0: u64,
    stack_hwm: u128,
    pub refused_in_call: bool,
    pub callee_heap_write: bool,
    pub heap_cap: bool,
}

fn heap_byte(m: &MemoryInstance, addr: u64) -> Option<u8> {
    let h = m.heap_raw();
    let base = MEM - h.len() as u64;
    if addr >= base { h.get((addr - base) as usize).copied() } else { None }
}

fn prev_hp(vm: &Vm, regs: &[u64; 64]) -> u64 {
    let fp = regs[FP as usize];
    if fp == 0 {
        return MEM;
    }
    let off = fp + CallFrame::registers_offset() as u64 + (HP as u64) * 8;
    vm.memory().read(off, 8usize).ok().map(|b| u64::from_be_bytes(b.try_into().unwrap_or([0; 8]))).unwrap_or(MEM)
}

fn owned(regs: &[u64; 64], prev_hp: u64, a: u64) -> bool {
    (regs[SSP as usize] <= a && a < regs[SP as usize]) || (regs[HP as usize] <= a && a < prev_hp)
}

impl Monitor for MemMonitor {
    fn before(&mut self, vm: &mut Vm, pre: &Pre) {
        self.php0 = prev_hp(vm, &pre.regs);
        let m = vm.memory();
        self.stack_hwm = m.stack_raw().len() as u128;
        if m.heap_raw().len() > 256 * 1024 || m.stack_raw().len() > 256 * 1024 {
            // heap beyond the monitored bound: skip the diff of this step
            self.before = None;
            self.heap_cap = true;
        } else {
            self.before = Some(m.clone());
        }
    }

    fn after(&mut self, vm: &mut Vm, info: &StepInfo, stats: &mut Stats) -> Option<Viol> {
        if info.errored {
            self.before = None;
            return None;
        }
        let m0 = self.before.take();
        let step = info.pre.step;
        let pre = &info.pre.regs;
        let post = &info.post;
        let op = info.op;
        let opn = op.map(|o| format!("{o:?}")).unwrap_or_else(|| "?".into());
        // caller's $hp as stored in the frame before the step
        let php0 = self.php0;
        let php1 = prev_hp(vm, post);
        let m1 = vm.memory();

        // ---- panic-reason prediction for the modelled access family --------------------------
        if let Some(op) = op {
            let r = |x: u8| pre[x as usize & 63] as u128;
            let d = &info.d;
            // (addr, len, write)
            let accesses: Option<Vec<(u128, u128, bool)>> = match op {
                O::LB => Some(vec![(r(d.b) + d.imm12 as u128, 1, false)]),
                O::LW => Some(vec![(r(d.b) + d.imm12 as u128 * 8, 8, false)]),
                O::SB => Some(vec![(r(d.a) + d.imm12 as u128, 1, true)]),
                O::SW => Some(vec![(r(d.a) + d.imm12 as u128 * 8, 8, true)]),
                O::LQW => Some(vec![(r(d.b) + d.imm12 as u128 * 2, 2, false)]),
                O::LHW => Some(vec![(r(d.b) + d.imm12 as u128 * 4, 4, false)]),
                O::SQW => Some(vec![(r(d.a) + d.imm12 as u128 * 2, 2, true)]),
                O::SHW => Some(vec![(r(d.a) + d.imm12 as u128 * 4, 4, true)]),
                O::MCL => Some(vec![(r(d.a), r(d.b), true)]),
                O::MCLI => Some(vec![(r(d.a), d.imm18 as u128, true)]),
                O::MCP => Some(vec![(r(d.a), r(d.c), true), (r(d.b), r(d.c), false)]),
                O::MCPI => Some(vec![(r(d.a), d.imm12 as u128, true), (r(d.b), d.imm12 as u128, false)]),
                O::MEQ => Some(vec![(r(d.b), r(d.d), false), (r(d.c), r(d.d), false)]),
                O::LOGD => Some(vec![(r(d.c), r(d.d), false)]),
                O::RETD => Some(vec![(r(d.a), r(d.b), false)]),
                O::S256 | O::K256 => Some(vec![(r(d.a), 32, true), (r(d.b), r(d.c), false)]),
                _ => None,
            };
            let gas_operand = [d.a, d.b, d.c, d.d].iter().any(|x| *x == CGAS || *x == GGAS);
            if gas_operand && accesses.is_some() {
                stats.inc("probe.unmodelled_gas_register_operand");
            } else if let Some(acc) = accesses {
                if acc.iter().all(|a| a.1 > 0) {
                    let stack_hwm = self.stack_hwm;
                    let hp = pre[HP as usize] as u128;
                    let mut allowed: Vec<P> = Vec::new();
                    for (addr, len, write) in &acc {
                        let end = addr + len;
                        if end > MEM as u128 {
                            allowed.push(P::MemoryOverflow);
                            continue;
                        }
                        let accessible = end <= stack_hwm || *addr >= hp;
                        if !accessible {
                            allowed.push(P::UninitalizedMemoryAccess);
                            continue;
                        }
                        if *write {
                            let (ssp, sp) = (pre[SSP as usize] as u128, pre[SP as usize] as u128);
                            let own_stack = ssp <= *addr && *addr < sp && end <= sp;
                            let own_heap = *addr >= hp && hp != php0 as u128 && end <= php0 as u128;
                            if !(own_stack || own_heap) {
                                allowed.push(P::MemoryOwnership);
                            }
                        }
                    }
                    if matches!(op, O::MCP | O::MCPI) && acc.len() == 2 {
                        let (d0, l) = (acc[0].0, acc[0].1);
                        let s0 = acc[1].0;
                        if d0 < s0 + l && s0 < d0 + l {
                            allowed.push(P::MemoryWriteOverlap);
                        }
                    }
                    if matches!(op, O::LB | O::LW | O::LQW | O::LHW | O::MEQ) && d.a < 16 {
                        allowed.push(P::ReservedRegisterNotWritable);
                    }
                    let got = info.panic.filter(|_| info.own_panic).map(|p| p.0);
                    match got {
                        Some(P::OutOfGas) | Some(P::TooManyReceipts) => {}
                        Some(reason) => {
                            if !allowed.contains(&reason) {
                                return Some((
                                    "memory-access-panic".into(),
                                    format!("memory-access-panic:{opn}:{reason:?}"),
                                    format!("step {step}: {opn} panicked with {reason:?}; the access model allows {allowed:?} (accesses {acc:?}, $ssp={} $sp={} $hp={} stack extent={stack_hwm} caller $hp={php0})", pre[SSP as usize], pre[SP as usize], pre[HP as usize]),
                                ));
                            }
                            if reason == P::MemoryOwnership && pre[FP as usize] != 0 {
                                self.refused_in_call = true;
                                stats.inc("probe.ownership_refusal_in_call");
                            }
                        }
                        None => {
                            if !allowed.is_empty() {
                                return Some((
                                    "memory-access-allowed".into(),
                                    format!("memory-access-allowed:{opn}"),
                                    format!("step {step}: {opn} succeeded although the access model requires one of {allowed:?} (accesses {acc:?}, $ssp={} $sp={} $hp={} stack extent={stack_hwm} caller $hp={php0})", pre[SSP as usize], pre[SP as usize], pre[HP as usize]),
                                ));
                            }
                        }
                    }
                } else {
                    stats.inc("probe.unmodelled_zero_length_access");
                }
            }
        }

        // ---- whole-memory diff ---------------------------------------------------------------
        let Some(m0) = m0 else {
            stats.inc("probe.unmodelled_mem_step_size_cap");
            return None;
        };
        let tx_start = vm.tx_offset() as u64;
        let tx_end = tx_start + vm.transaction().size() as u64;
        let bal_start = VM_MEMORY_BALANCES_OFFSET as u64;
        let external = pre[FP as usize] == 0;
        let vm_own = |a: u64| -> bool {
            if info.finished && tx_start <= a && a < tx_end {
                return true; // finalisation rewrites outputs / receipts root in the memory image
            }
            match op {
                Some(O::CALL) => (pre[SP as usize] <= a && a < post[SSP as usize]) || (external && bal_start <= a && a < tx_start),
                Some(O::LDC) => {
                    (pre[SSP as usize] <= a && a < post[SSP as usize]) || {
                        let fp = pre[FP as usize];
                        let co = fp + CallFrame::code_size_offset() as u64;
                        fp != 0 && co <= a && a < co + 8
                    }
                }
                Some(O::TR | O::SMO) => external && bal_start <= a && a < tx_start,
                Some(O::TRO) => (external && bal_start <= a && a < tx_start) || (tx_start <= a && a < tx_end),
                _ => false,
            }
        };
        let mut bad: Option<u64> = None;
        // stack part
        let (s0, s1) = (m0.stack_raw(), m1.stack_raw());
        let n = s0.len().min(s1.len());
        if s0[..n] != s1[..n] {
            for a in 0..n {
                if s0[a] != s1[a] {
                    let a = a as u64;
                    if !(owned(pre, php0, a) || owned(post, php1, a) || vm_own(a)) {
                        bad = Some(a);
                        break;
                    }
                }
            }
        }
        // heap part (addresses accessible before and after)
        if bad.is_none() {
            let lo = pre[HP as usize].max(post[HP as usize]);
            let (h0, h1) = (m0.heap_raw(), m1.heap_raw());
            let cnt = (MEM - lo) as usize;
            let t0 = &h0[h0.len().saturating_sub(cnt)..];
            let t1 = &h1[h1.len().saturating_sub(cnt)..];
            if t0.len() == t1.len() && t0 != t1 {
                for (k, (x, y)) in t0.iter().zip(t1.iter()).enumerate() {
                    if x != y {
                        let a = lo + k as u64;
                        if !(owned(pre, php0, a) || owned(post, php1, a) || vm_own(a)) {
                            bad = Some(a);
                            break;
                        }
                        if !external {
                            self.callee_heap_write = true;
                        }
                    }
                }
            }
        }
        if let Some(a) = bad {
            return Some((
                "unowned-memory-write".into(),
                format!("unowned-memory-write:{opn}"),
                format!(
                    "step {step}: {opn} changed byte {a} which is outside the owned regions (before: stack [{}, {}), heap [{}, {php0}); after: stack [{}, {}), heap [{}, {php1})) and outside the VM's own writes of this instruction",
                    pre[SSP as usize], pre[SP as usize], pre[HP as usize], post[SSP as usize], post[SP as usize], post[HP as usize]
                ),
            ));
        }
        // newly allocated heap reads as zero
        if op == Some(O::ALOC) && info.completed() && post[HP as usize] < pre[HP as usize] {
            for a in post[HP as usize]..pre[HP as usize] {
                if heap_byte(m1, a).unwrap_or(0) != 0 {
                    return Some(("heap-not-zeroed".into(), "heap-not-zeroed".into(), format!("step {step}: byte {a} of the heap allocated by ALOC is not zero")));
                }
            }
            stats.inc("probe.aloc_zero_checked");
        }
        None
    }
}
