//! C25 (control flow lands where specified) and C34 (calls and returns preserve the caller's
//! frame) — per-step monitors of the observer replica.

use super::asm::*;
use super::exec::{Pre, Vm};
use super::observer::*;
use crate::kernel::Stats;
use fuel_asm::{Opcode as O, PanicReason as P};
use fuel_vm::call::CallFrame;

const MEM: u128 = 1 << 26;

fn is_jump(op: O) -> bool {
    matches!(op, O::JI | O::JNEI | O::JNZI | O::JMP | O::JNE | O::JMPF | O::JMPB | O::JNZF | O::JNZB | O::JNEF | O::JNEB | O::JAL)
}

/// (taken, target as a signed wide integer) by the documented semantics, unbounded integers.
fn jump_model(op: O, d: &Dec, r: &[u64; 64]) -> (bool, i128) {
    let reg = |x: u8| r[x as usize & 63] as i128;
    let (pc, is) = (reg(PC), reg(IS));
    match op {
        O::JI => (true, is + d.imm24 as i128 * 4),
        O::JNEI => (reg(d.a) != reg(d.b), is + d.imm12 as i128 * 4),
        O::JNZI => (reg(d.a) != 0, is + d.imm18 as i128 * 4),
        O::JMP => (true, is + reg(d.a) * 4),
        O::JNE => (reg(d.a) != reg(d.b), is + reg(d.c) * 4),
        O::JMPF => (true, pc + (reg(d.a) + d.imm18 as i128 + 1) * 4),
        O::JMPB => (true, pc - (reg(d.a) + d.imm18 as i128 + 1) * 4),
        O::JNZF => (reg(d.a) != 0, pc + (reg(d.b) + d.imm12 as i128 + 1) * 4),
        O::JNZB => (reg(d.a) != 0, pc - (reg(d.b) + d.imm12 as i128 + 1) * 4),
        O::JNEF => (reg(d.a) != reg(d.b), pc + (reg(d.c) + d.d as i128 + 1) * 4),
        O::JNEB => (reg(d.a) != reg(d.b), pc - (reg(d.c) + d.d as i128 + 1) * 4),
        // "$rA = $pc + 4; $pc = $rB + imm * 4", in that order: with $rA == $rB (a writable
        // register) the target is taken from the freshly written link value
        O::JAL => {
            let base = if d.a == d.b && d.a >= 16 { pc + 4 } else { reg(d.b) };
            (true, base + d.imm12 as i128 * 4)
        }
        _ => (false, 0),
    }
}

#[derive(Default)]
pub struct FlowMonitor {
    pub backward: bool,
    pub jal_roundtrip: bool,
    pub beyond_ssp: bool,
    jal_links: Vec<u64>,
}

impl Monitor for FlowMonitor {
    fn after(&mut self, vm: &mut Vm, info: &StepInfo, stats: &mut Stats) -> Option<Viol> {
        let pre = &info.pre.regs;
        let (pc, is, ssp) = (pre[PC as usize], pre[IS as usize], pre[SSP as usize]);
        let step = info.pre.step;
        // an instruction is executed only inside [$is, $ssp)
        if !(is <= pc && pc < ssp) {
            return Some((
                "executed-outside-executable-region".into(),
                "executed-outside-executable-region".into(),
                format!("step {step}: instruction at $pc={pc} executed although $is={is}, $ssp={ssp}"),
            ));
        }
        if info.errored {
            return None;
        }
        let Some(op) = info.op else { return None };
        let post_pc = info.post[PC as usize];
        let opn = format!("{op:?}");

        // Operands that name $cgas/$ggas are read after the instruction's own gas charge; the
        // order of charge and operand read is not pinned by the property: skipped and counted.
        let gas_operand = [info.d.a, info.d.b, info.d.c, info.d.d].iter().any(|r| *r == CGAS || *r == GGAS);
        if is_jump(op) && gas_operand {
            stats.inc("probe.unmodelled_gas_register_operand");
        } else if is_jump(op) {
            if let Some((reason, _)) = info.panic.filter(|_| info.own_panic) {
                if reason == P::OutOfGas {
                    return None;
                }
                let (taken, target) = jump_model(op, &info.d, pre);
                let reserved_link = op == O::JAL && info.d.a != ZERO && info.d.a < 16;
                let out_of_range = taken && !(0..MEM as i128).contains(&target);
                let ok = match reason {
                    P::ReservedRegisterNotWritable => reserved_link,
                    P::MemoryOverflow => out_of_range,
                    _ => false,
                };
                if !ok {
                    return Some((
                        "jump-panic".into(),
                        format!("jump-panic:{opn}:{reason:?}"),
                        format!("step {step}: {opn} panicked with {reason:?}; model: taken={taken} target={target} reserved_link={reserved_link}"),
                    ));
                }
                if out_of_range {
                    stats.inc("probe.jump_target_out_of_memory");
                }
                return None;
            }
            let (taken, target) = jump_model(op, &info.d, pre);
            let reserved_link = op == O::JAL && info.d.a != ZERO && info.d.a < 16;
            if reserved_link {
                return Some(("jump-panic".into(), format!("jump-panic:{opn}:missing-reserved"), format!("step {step}: JAL wrote the reserved link register {} without panicking", info.d.a)));
            }
            let want = if taken { target } else { pc as i128 + 4 };
            if !(0..MEM as i128).contains(&want) {
                return Some((
                    "jump-target".into(),
                    format!("jump-target:{opn}:no-overflow-panic"),
                    format!("step {step}: {opn} target {want} lies outside memory but the instruction did not panic ($pc={post_pc})"),
                ));
            }
            if post_pc as i128 != want {
                return Some((
                    "jump-target".into(),
                    format!("jump-target:{opn}"),
                    format!("step {step}: {opn} (taken={taken}) moved $pc from {pc} to {post_pc}, specified target is {want}"),
                ));
            }
            if op == O::JAL && info.d.a != ZERO {
                let link = info.post[info.d.a as usize & 63];
                if link != pc + 4 {
                    return Some(("jump-link".into(), "jump-link:JAL".into(), format!("step {step}: JAL stored return address {link}, expected {}", pc + 4)));
                }
                self.jal_links.push(link);
            }
            if op == O::JAL && info.d.a == ZERO && self.jal_links.contains(&(want as u64)) {
                self.jal_roundtrip = true;
                stats.inc("probe.jal_roundtrip");
            }
            if taken && (want as u64) < pc {
                self.backward = true;
                stats.inc("probe.backward_jump");
            }
            if info.next_fetch_panic {
                self.beyond_ssp = true;
                stats.inc("probe.jump_to_non_executable");
            }
        } else if info.completed() {
            match op {
                O::CALL => {
                    // $pc = $is = frame start + frame size
                    let fp = info.post[FP as usize];
                    let want = fp + CallFrame::serialized_size() as u64;
                    if post_pc != want || info.post[IS as usize] != want || fp != pre[SP as usize] {
                        return Some((
                            "call-entry".into(),
                            "call-entry:pc".into(),
                            format!("step {step}: after CALL $pc={post_pc} $is={} $fp={fp}; expected $pc=$is=$fp+{}, $fp=old $sp={}", info.post[IS as usize], CallFrame::serialized_size(), pre[SP as usize]),
                        ));
                    }
                }
                O::RET | O::RETD if pre[FP as usize] != 0 => {
                    // return to the caller: saved $pc + 4
                    let off = pre[FP as usize] + CallFrame::registers_offset() as u64 + (PC as u64) * 8;
                    if let Ok(b) = vm.memory().read(off, 8usize) {
                        let saved = u64::from_be_bytes(b.try_into().unwrap_or([0; 8]));
                        if post_pc != saved + 4 {
                            return Some(("return-target".into(), "return-target".into(), format!("step {step}: {opn} returned to $pc={post_pc}, caller's saved $pc+4 = {}", saved + 4)));
                        }
                    }
                }
                O::RET | O::RETD | O::RVRT => {}
                _ => {
                    if post_pc != pc + 4 {
                        return Some((
                            "pc-advance".into(),
                            format!("pc-advance:{opn}"),
                            format!("step {step}: {opn} succeeded but $pc went {pc} -> {post_pc} (expected +4)"),
                        ));
                    }
                }
            }
        }
        // whenever execution continues, the next instruction lies in the executable region
        if matches!(info.res, super::exec::StepResult::Continue) {
            let (npc, nis, nssp) = (info.post[PC as usize], info.post[IS as usize], info.post[SSP as usize]);
            if !(nis <= npc && npc < nssp) {
                return Some((
                    "executed-outside-executable-region".into(),
                    "executed-outside-executable-region:next".into(),
                    format!("step {step}: execution continues at $pc={npc} outside [$is={nis}, $ssp={nssp})"),
                ));
            }
        } else if info.next_fetch_panic {
            let (npc, nis, nssp) = (info.post[PC as usize], info.post[IS as usize], info.post[SSP as usize]);
            let reason = info.panic.map(|p| p.0);
            let in_region = nis <= npc && npc < nssp;
            if in_region || !matches!(reason, Some(P::MemoryNotExecutable | P::UninitalizedMemoryAccess | P::MemoryOverflow)) {
                return Some((
                    "fetch-panic".into(),
                    "fetch-panic".into(),
                    format!("step {step}: fetching the next instruction at $pc={npc} panicked with {reason:?} although [$is={nis}, $ssp={nssp}) (in region: {in_region})"),
                ));
            }
        }
        None
    }
}

// ---------------------------------------------------------------------------------------------

struct Saved {
    regs: [u64; 64],
    /// Bytes of the caller's protected region [lo, sp).
    lo: u64,
    bytes: Vec<u8>,
    callee: [u8; 32],
}

#[derive(Default)]
pub struct FrameMonitor {
    stack: Vec<Saved>,
    /// The caller's protected region as it was before the CALL instruction ran.
    pre_call: Option<Vec<u8>>,
    /// Call arguments read before the instruction ran (the frame may be written over them):
    /// callee id, asset id, parameters a/b.
    pre_args: Option<(Vec<u8>, Vec<u8>, Vec<u8>)>,
    pub max_depth: usize,
    pub recursive: bool,
    pub retd_len: bool,
}

impl Monitor for FrameMonitor {
    fn before(&mut self, vm: &mut Vm, pre: &Pre) {
        self.pre_call = None;
        self.pre_args = None;
        let Some(word) = pre.word else { return };
        if !valid(word) || opcode_of(word) != Some(O::CALL) {
            return;
        }
        let r = &pre.regs;
        {
            let d = dec(word);
            let rd = |addr: u64, n: usize| vm.memory().read(addr, n).map(|b| b.to_vec()).unwrap_or_default();
            let a = r[d.a as usize & 63];
            self.pre_args = Some((rd(a, 32), rd(r[d.c as usize & 63], 32), rd(a.saturating_add(32), 16)));
        }
        let lo = if r[FP as usize] == 0 { r[SSP as usize] } else { r[FP as usize] };
        let hi = r[SP as usize];
        if hi >= lo {
            self.pre_call = vm.memory().read(lo, (hi - lo) as usize).ok().map(|b| b.to_vec());
        }
    }

    fn after(&mut self, vm: &mut Vm, info: &StepInfo, stats: &mut Stats) -> Option<Viol> {
        if info.errored {
            return None;
        }
        let Some(op) = info.op else { return None };
        let pre = &info.pre.regs;
        let post = &info.post;
        let step = info.pre.step;
        if op == O::CALL && info.completed() && post[FP as usize] != pre[FP as usize] {
            // caller's protected region: its own stack frame (scripts) or frame + code + stack (contracts)
            let lo = if pre[FP as usize] == 0 { pre[SSP as usize] } else { pre[FP as usize] };
            let hi = pre[SP as usize];
            // the memory between lo and the old $sp is untouched by CALL itself
            let bytes = vm.memory().read(lo, (hi - lo) as usize).map(|b| b.to_vec()).unwrap_or_default();
            if let Some(b0) = self.pre_call.take() {
                if b0 != bytes {
                    let at = b0.iter().zip(bytes.iter()).position(|(a, b)| a != b).unwrap_or(0) as u64 + lo;
                    return Some((
                        "caller-stack-modified".into(),
                        "caller-stack-modified:by-call".into(),
                        format!("step {step}: CALL itself changed byte {at} of the caller's region [{lo}, {hi})"),
                    ));
                }
            }
            let fp = post[FP as usize];
            if fp != hi {
                return Some(("call-frame".into(), "call-frame:position".into(), format!("step {step}: the call frame was placed at $fp={fp}, the caller's $sp was {hi}")));
            }
            let frame = match vm.memory().read(fp, CallFrame::serialized_size()) {
                Ok(b) => b.to_vec(),
                Err(_) => return Some(("call-frame".into(), "call-frame:unreadable".into(), format!("step {step}: call frame at $fp={fp} is not readable"))),
            };
            // callee id and asset id from the call arguments
            let (to, asset, ab) = match self.pre_args.take() {
                Some(x) => x,
                None => return None,
            };
            if to.len() != 32 || asset.len() != 32 {
                return None;
            }
            let mut callee = [0u8; 32];
            if to.len() == 32 {
                callee.copy_from_slice(&to);
            }
            if frame[..32] != to[..] || frame[32..64] != asset[..] {
                return Some(("call-frame".into(), "call-frame:ids".into(), format!("step {step}: call frame does not start with the callee id and asset id of the call")));
            }
            // saved registers = caller's registers, except $cgas (remainder after forwarding) and $ggas (current)
            let ro = CallFrame::registers_offset();
            for r in 0..64usize {
                let v = u64::from_be_bytes(frame[ro + r * 8..ro + r * 8 + 8].try_into().unwrap());
                let want = match r as u8 {
                    CGAS | GGAS => continue,
                    _ => pre[r],
                };
                if v != want {
                    return Some(("call-frame".into(), format!("call-frame:saved-reg-{r}"), format!("step {step}: call frame saved register {r} = {v}, caller had {want}")));
                }
            }
            let co = CallFrame::code_size_offset();
            let code_size = u64::from_be_bytes(frame[co..co + 8].try_into().unwrap());
            let a_off = CallFrame::a_offset();
            if ab.len() == 16 && frame[a_off..a_off + 16] != ab[..] {
                return Some(("call-frame".into(), "call-frame:params".into(), format!("step {step}: call frame parameters a/b differ from the call structure")));
            }
            // the copied code: the callee's stored bytecode, zero-padded to a word boundary
            if callee != [0u8; 32] {
                let stored = fuel_vm::storage::InterpreterStorage::storage_contract(&vm.as_ref().inner, &fuel_types::ContractId::new(callee))
                    .ok()
                    .flatten()
                    .map(|c| c.as_ref().as_ref().to_vec());
                if let Some(code) = stored {
                    let padded = code.len().div_ceil(8) * 8;
                    let at = fp + CallFrame::serialized_size() as u64;
                    let mem = vm.memory().read(at, padded).map(|b| b.to_vec()).unwrap_or_default();
                    if code_size != padded as u64 {
                        return Some(("call-frame".into(), "call-frame:code-size".into(), format!("step {step}: call frame records code size {code_size}, the callee's code has {} bytes (padded {padded})", code.len())));
                    }
                    if mem.len() != padded || mem[..code.len()] != code[..] {
                        return Some(("callee-code".into(), "callee-code:differs".into(), format!("step {step}: the code copied behind the call frame differs from the callee's stored bytecode")));
                    }
                    if mem[code.len()..].iter().any(|b| *b != 0) {
                        return Some(("callee-code".into(), "callee-code:padding".into(), format!("step {step}: the {} padding bytes behind the copied code are not zero", padded - code.len())));
                    }
                    stats.inc("probe.callee_code_checked");
                }
            }
            // callee's first state
            let want_ssp = fp + CallFrame::serialized_size() as u64 + code_size;
            if post[SSP as usize] != post[SP as usize] || post[SSP as usize] != want_ssp {
                return Some(("callee-state".into(), "callee-state:stack".into(), format!("step {step}: callee starts with $ssp={} $sp={}; expected both = frame + padded code = {want_ssp}", post[SSP as usize], post[SP as usize])));
            }
            if post[BAL as usize] != pre[info.d.b as usize & 63] {
                return Some(("callee-state".into(), "callee-state:bal".into(), format!("step {step}: callee $bal={} but {} coins were forwarded", post[BAL as usize], pre[info.d.b as usize & 63])));
            }
            if post[FLAG as usize] != 0 {
                return Some(("callee-state".into(), "callee-state:flag".into(), format!("step {step}: callee starts with $flag={}", post[FLAG as usize])));
            }
            for r in 16..64usize {
                if post[r] != pre[r] {
                    return Some(("callee-state".into(), "callee-state:program-registers".into(), format!("step {step}: CALL changed program register {r}")));
                }
            }
            if self.stack.iter().any(|s| s.callee == callee) {
                self.recursive = true;
                stats.inc("probe.recursive_call");
            }
            self.stack.push(Saved { regs: *pre, lo, bytes, callee });
            self.max_depth = self.max_depth.max(self.stack.len());
            stats.inc_dyn(format!("probe.call_depth.{}", self.stack.len().min(9)));
            return None;
        }
        if matches!(op, O::RET | O::RETD) && info.completed() && pre[FP as usize] != 0 && !info.finished {
            let Some(s) = self.stack.pop() else { return None };
            for r in 0..64usize {
                let want = match r as u8 {
                    CGAS | GGAS | RET | RETL | HP => continue,
                    PC => s.regs[r] + 4,
                    _ => s.regs[r],
                };
                if post[r] != want {
                    return Some((
                        "return-restores-registers".into(),
                        format!("return-restores-registers:{r}"),
                        format!("step {step}: after {op:?} register {r} = {} but the caller had {want} at the call", post[r]),
                    ));
                }
            }
            // caller's stack contents unchanged
            let now = vm.memory().read(s.lo, s.bytes.len()).map(|b| b.to_vec()).unwrap_or_default();
            if now != s.bytes {
                let at = now.iter().zip(s.bytes.iter()).position(|(a, b)| a != b).unwrap_or(0) as u64 + s.lo;
                return Some((
                    "caller-stack-modified".into(),
                    "caller-stack-modified".into(),
                    format!("step {step}: after the call returned, byte {at} of the caller's region [{}, {}) differs from its value at the call", s.lo, s.lo + s.bytes.len() as u64),
                ));
            }
            // the return itself does not touch $hp: the caller continues with the callee's final $hp
            if post[HP as usize] != pre[HP as usize] {
                return Some((
                    "return-heap".into(),
                    "return-heap:hp-changed-by-return".into(),
                    format!("step {step}: {op:?} changed $hp from the callee's {} to {} (the caller had {} at the call)", pre[HP as usize], post[HP as usize], s.regs[HP as usize]),
                ));
            }
            // heap allocated by the callee stays readable; $hp never moves back up
            let (hp_now, hp_then) = (post[HP as usize], s.regs[HP as usize]);
            if hp_now > hp_then {
                return Some(("return-heap".into(), "return-heap:hp-raised".into(), format!("step {step}: $hp={hp_now} after return is above the caller's $hp={hp_then}")));
            }
            if hp_now < hp_then {
                stats.inc("probe.callee_heap_allocation");
                if vm.memory().read(hp_now, (hp_then - hp_now) as usize).is_err() {
                    return Some(("return-heap".into(), "return-heap:unreadable".into(), format!("step {step}: heap allocated by the callee [{hp_now}, {hp_then}) is not readable by the caller")));
                }
            }
            if op == O::RETD && post[RETL as usize] >= 1 {
                self.retd_len = true;
            }
            stats.inc("probe.call_return_checked");
        }
        None
    }
}
