//! Per-scenario perturbation / fault / schedule plan of the `vm` engine (explicit data).

use serde::{Deserialize, Serialize};

#[derive(Debug, Clone, Serialize, Deserialize, PartialEq)]
pub enum Replica {
    /// One long-lived interpreter (and memory) reused for every transaction.
    Reused,
    /// Fresh interpreter per transaction over the memory instance the previous one left dirty.
    PooledMemory,
    /// Single-stepping, resumed after every event until completion.
    Stepped,
    /// Breakpoints at (contract slot or 255 = script, instruction index), resumed to completion.
    Breakpoints { points: Vec<(u8, u32)>, reused: bool },
    /// Storage fault at the `at_call`-th storage call of transaction `tx`; the embedder rolls
    /// back to the last commit, restarts (fresh or reused instance) and re-executes.
    FaultRetry { tx: u8, at_call: u32, crash: bool, reused: bool },
    /// A debug session on transaction `tx` abandoned after `steps` steps (rolled back), then
    /// the same instance re-executes it and continues with the rest.
    AbandonDebug { tx: u8, steps: u32 },
}

#[derive(Debug, Clone, Serialize, Deserialize, PartialEq, Default)]
pub struct Plan {
    /// Step cap per transaction in single-stepped replicas.
    pub step_cap: u32,
    pub replicas: Vec<Replica>,
    /// Observer: (tx, step, mode) slot-cache eviction points (mode 0 = clear, else evict k-th).
    pub evictions: Vec<(u8, u32, u8)>,
    /// Observer: storage fault (tx, at_call) injected while single-stepping.
    pub observer_faults: Vec<(u8, u32)>,
    /// Observer: one interpreter instance executes all transactions of the scenario (as an
    /// embedder's client does) instead of a fresh instance per transaction.
    #[serde(default)]
    pub reuse_vm: bool,
    /// C29: transactions executed by one uninterrupted `transact` (the production path)
    /// instead of single-stepped.
    #[serde(default)]
    pub plain: Vec<u8>,
}
