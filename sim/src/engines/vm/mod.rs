//! `vm` engine — a replicated-node simulation around the real interpreter (DESIGN §4.1).
pub mod asm;
pub mod exec;
pub mod mon_access;
pub mod mon_flow;
pub mod mon_gas;
pub mod mon_kv;
pub mod mon_ledger;
pub mod mon_mem;
pub mod observe_run;
pub mod observer;
pub mod pgen;
pub mod plan;
pub mod replicas;
pub mod robust;
pub mod scen;
pub mod storage;
pub mod tables;
pub mod wellformed;
pub mod world;

use crate::kernel::*;
use world::{Scenario, World};

pub struct VmEngine;

impl Engine for VmEngine {
    type Scenario = Scenario;

    fn generate(prop: &str, rng: &mut Rng, tier: Tier) -> Scenario {
        scen::generate(prop, rng, tier)
    }

    fn run(prop: &str, sc: &Scenario, ctx: &mut RunCtx) {
        if sc.txs.is_empty() {
            return;
        }
        let world = World::build(sc);
        match prop {
            "C31" | "C32" => {
                let reference = replicas::run_reference(&world, sc, ctx);
                replicas::run_replicas(prop, &world, sc, &reference, ctx);
            }
            "C28" => {
                let reference = replicas::run_reference(&world, sc, ctx);
                let mut deep_panic = false;
                for (i, spec) in sc.txs.iter().enumerate() {
                    if let Some(o) = &reference[i].outcome {
                        if wellformed::check_tx(&world, sc, i, spec, o, ctx) {
                            return;
                        }
                        let calls = o.receipts.iter().filter(|r| matches!(r, fuel_tx::Receipt::Call { .. })).count();
                        let panicked = o.receipts.iter().any(|r| matches!(r, fuel_tx::Receipt::Panic { .. }));
                        if panicked && calls >= 2 {
                            deep_panic = true;
                        }
                        if o.receipts.len() > 60_000 {
                            ctx.stats.inc("probe.receipt_limit_region");
                        }
                    }
                }
                if wellformed::check_memory_client(&world, sc, &reference, ctx) {
                    return;
                }
                ctx.nontrivial = deep_panic;
            }
            "C29" => {
                let mut storage = world.storage();
                for (i, spec) in sc.txs.iter().enumerate() {
                    let (stop, st) = robust::check_tx(&world, sc, i, spec, storage, ctx);
                    storage = st;
                    if stop {
                        return;
                    }
                }
            }
            "C24" | "C25" | "C26" | "C27" | "C30" | "C33" | "C34" => observe_run::run(prop, &world, sc, ctx),
            _ => {}
        }
    }

    fn shrink(_prop: &str, sc: &Scenario) -> Vec<Scenario> {
        shrink::candidates(sc)
    }

    fn summarize(_prop: &str, sc: &Scenario) -> serde_json::Value {
        serde_json::json!({
            "gas": sc.gas, "gas_price": sc.gas_price, "height": sc.height,
            "contracts": sc.contracts.iter().map(|c| serde_json::json!({"instructions": c.code.len(), "slots": c.slots.len(), "balances": c.balances})).collect::<Vec<_>>(),
            "txs": sc.txs.iter().map(|t| serde_json::json!({
                "script_instructions": t.script.len(),
                "script_head": t.script.iter().take(12).map(|w| format!("{w:08x}")).collect::<Vec<_>>(),
                "gas_limit": t.gas_limit, "coins": t.coins, "messages": t.messages,
                "input_contracts": t.input_contracts, "outputs": t.outputs.len(),
            })).collect::<Vec<_>>(),
            "plan": sc.plan,
        })
    }
}

pub mod shrink {
    use super::world::*;
    use fuel_asm::Opcode;

    const NOOP: u32 = (Opcode::NOOP as u32) << 24;

    /// Candidate simplifications: drop transactions, replicas, faults; replace instructions by
    /// NOOP (keeps jump targets); shrink programs from the tail; shrink amounts.
    pub fn candidates(sc: &Scenario) -> Vec<Scenario> {
        let mut out = Vec::new();
        for i in (0..sc.txs.len()).rev() {
            if sc.txs.len() > 1 {
                let mut a = sc.clone();
                a.txs.remove(i);
                out.push(a);
            }
        }
        for i in (0..sc.plan.replicas.len()).rev() {
            let mut a = sc.clone();
            a.plan.replicas.remove(i);
            out.push(a);
        }
        if !sc.plan.observer_faults.is_empty() {
            let mut a = sc.clone();
            a.plan.observer_faults.clear();
            out.push(a);
        }
        if !sc.plan.evictions.is_empty() {
            let mut a = sc.clone();
            a.plan.evictions.clear();
            out.push(a);
        }
        if sc.gas != GasSched::Default {
            let mut a = sc.clone();
            a.gas = GasSched::Default;
            out.push(a);
        }
        if sc.gas_price != 0 {
            let mut a = sc.clone();
            a.gas_price = 0;
            out.push(a);
        }
        // NOOP out chunks of programs (halves, quarters, …, single instructions)
        let progs = sc.txs.len() + sc.contracts.len();
        for p in 0..progs {
            let len = if p < sc.txs.len() { sc.txs[p].script.len() } else { sc.contracts[p - sc.txs.len()].code.len() };
            let mut chunk = len / 2;
            while chunk >= 1 {
                let mut start = 0;
                while start < len {
                    let mut a = sc.clone();
                    let code = if p < sc.txs.len() { &mut a.txs[p].script } else { &mut a.contracts[p - sc.txs.len()].code };
                    let end = (start + chunk).min(len);
                    let mut changed = false;
                    for w in &mut code[start..end] {
                        if *w != NOOP {
                            *w = NOOP;
                            changed = true;
                        }
                    }
                    if changed {
                        out.push(a);
                    }
                    start += chunk;
                }
                if chunk == 1 {
                    break;
                }
                chunk /= 2;
            }
        }
        for i in 0..sc.txs.len() {
            if !sc.txs[i].messages.is_empty() {
                let mut a = sc.clone();
                a.txs[i].messages.clear();
                out.push(a);
            }
            if sc.txs[i].outputs.len() > 1 {
                for k in (0..sc.txs[i].outputs.len()).rev() {
                    let mut a = sc.clone();
                    a.txs[i].outputs.remove(k);
                    out.push(a);
                }
            }
            if !sc.txs[i].data_tail.is_empty() {
                let mut a = sc.clone();
                a.txs[i].data_tail.clear();
                out.push(a);
            }
            if !sc.txs[i].reg_pokes.is_empty() {
                let mut a = sc.clone();
                a.txs[i].reg_pokes.clear();
                out.push(a);
            }
        }
        out
    }
}

fn describe(prop: &str) -> EngineDescription {
    let rule = match prop {
        "C31" => "Chain histories of 2–5 script transactions (grammar-generated programs calling 1–4 generated contracts; transfers, storage, heap growth, panics inside calls) executed by a reference replica (fresh interpreter + fresh memory per tx) and by perturbed replicas: one long-lived interpreter reused for everything, fresh interpreters over the dirty memory of the previous tx, storage I/O error or crash at the k-th storage call followed by rollback + restart (fresh or reused) + re-execution, an abandoned debug session. After every transaction (state, receipts, output tx bytes, storage dump) must equal the reference. Non-trivial: a replica ran ≥ 3 txs on one instance including a panic inside a call and a heap ≥ 16 KiB; distinct = distinct event digests.",
        "C32" => "Same histories; replicas with single-stepping and with 1–3 random breakpoint sets (script and contract locations, loop targets), resumed after every event to completion: result tuple equals the reference; the sequence of debug events embeds order-preservingly and injectively into the single-stepped trace of arrivals at breakpoint locations with identical registers (reported at most once, before the instruction executes). Non-trivial: ≥ 1 debug event was reported and matched.",
        "C28" => "Histories executed by the reference replica; for every completed script: exactly one ScriptResult, last; preceded by Panic iff result is panic; success iff the program state is a return; revert iff preceded by a Revert receipt; ≤ 65 535 receipts; receipts_root of the output tx == RFC 6962 root of the encoded receipts; on revert/panic variable outputs zero and change = initial free balance (+ refund). The same txs through the real MemoryClient: same receipts, and storage Debug-dump unchanged by reverted/panicked transactions. Non-trivial: a panic with ≥ 2 Call receipts (depth ≥ 2).",
        "C29" => "Scripts and contracts from raw random words (half of the runs) or the grammar, random initial values poked into writable registers, default / unit / randomized / sparse-zero gas schedules, storage I/O errors at the k-th storage call; every tx single-stepped under a supervisor: no host panic, no InterpreterError::Bug, result is a program state or (only with an injected fault) a storage error, and under the default schedule every executed instruction lowers $ggas. Non-trivial: ≥ 50 executed instructions of ≥ 10 distinct opcodes, or a fault fired in a tx with a call.",
        _ => "see DESIGN.md",
    };
    EngineDescription {
        rule: rule.into(),
        real_components: vec![
            "fuel_vm::interpreter::Interpreter (transact, resume, debugger, all instruction handlers)".into(),
            "fuel_vm::checked_transaction (into_checked_basic, into_ready)".into(),
            "fuel_vm::storage::MemoryStorage as backing store; fuel_vm::memory_client::MemoryClient (C28)".into(),
            "fuel-tx transaction types, canonical encoding, receipts; fuel-asm decoding".into(),
        ],
        stub_components: vec![
            "SimStorage wrapper (recording, failing k-th call, snapshot/rollback = crash)".into(),
            "SimEcal host-call handler".into(),
            "replica supervisor (commit/revert protocol of MemoryClient::transact), program generator".into(),
            "reference models (rfc6962, ledger, kv, gas table, step model)".into(),
        ],
        assumptions: vec![
            "Transactions pass the basic checks only (no signature verification: C20's business).".into(),
            "Single-stepping with resume() after every event executes exactly one instruction per resume (verified by a compile-and-run probe; C32 separately checks that it does not change results).".into(),
        ],
        distinct_state_measure: "distinct event digests over (tx index, final state hash, receipts count, output tx hash) per replica".into(),
        simulated_time_keys: vec!["transactions".into(), "instructions".into(), "storage_calls".into()],
    }
}

pub static VM: EngineDef = EngineDef {
    name: "vm",
    props: &["C24", "C25", "C26", "C27", "C28", "C29", "C30", "C31", "C32", "C33", "C34"],
    generate: gen_erased::<VmEngine>,
    run: run_erased::<VmEngine>,
    shrink: shrink_erased::<VmEngine>,
    summarize: summarize_erased::<VmEngine>,
    describe,
    runs: |p| match p {
        "C31" => (8_000, 300_000),
        "C32" => (8_000, 300_000),
        "C28" => (15_000, 500_000),
        "C29" => (30_000, 800_000),
        "C24" => (8_000, 300_000),
        "C25" | "C26" | "C27" | "C30" | "C33" | "C34" => (10_000, 400_000),
        _ => (20_000, 500_000),
    },
};
