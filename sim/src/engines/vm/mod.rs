//! `vm` engine — a replicated-node simulation around the real interpreter (DESIGN §4.1).
pub mod asm;
pub mod exec;
pub mod mon_access;
pub mod mon_flow;
pub mod mon_gas;
pub mod mon_kv;
pub mod mon_ledger;
pub mod mon_mem;
pub mod observe_run;
pub mod observer;
pub mod pgen;
pub mod plan;
pub mod replicas;
pub mod robust;
pub mod scen;
pub mod storage;
pub mod tables;
pub mod wellformed;
pub mod world;

use crate::kernel::*;
use world::{Scenario, World};

pub struct VmEngine;

impl Engine for VmEngine {
    type Scenario = Scenario;

    fn generate(prop: &str, rng: &mut Rng, tier: Tier) -> Scenario {
        scen::generate(prop, rng, tier)
    }

    fn run(prop: &str, sc: &Scenario, ctx: &mut RunCtx) {
        if sc.txs.is_empty() {
            return;
        }
        let world = World::build(sc);
        match prop {
            "C31" | "C32" => {
                let reference = replicas::run_reference(&world, sc, ctx);
                if prop == "C31" && replicas::run_real_client(&world, sc, &reference, ctx) {
                    return;
                }
                replicas::run_replicas(prop, &world, sc, &reference, ctx);
            }
            "C28" => {
                let reference = replicas::run_reference(&world, sc, ctx);
                let mut deep_panic = false;
                for (i, spec) in sc.txs.iter().enumerate() {
                    if let Some(o) = &reference[i].outcome {
                        if wellformed::check_tx(&world, sc, i, spec, o, ctx) {
                            return;
                        }
                        let calls = o.receipts.iter().filter(|r| matches!(r, fuel_tx::Receipt::Call { .. })).count();
                        let panicked = o.receipts.iter().any(|r| matches!(r, fuel_tx::Receipt::Panic { .. }));
                        if panicked && calls >= 2 {
                            deep_panic = true;
                        }
                        if o.receipts.len() > 60_000 {
                            ctx.stats.inc("probe.receipt_limit_region");
                        }
                    }
                }
                if wellformed::check_memory_client(&world, sc, &reference, ctx) {
                    return;
                }
                ctx.nontrivial = deep_panic;
            }
            "C29" => {
                let mut storage = world.storage();
                let mut held = None;
                for (i, spec) in sc.txs.iter().enumerate() {
                    let (stop, st) = robust::check_tx(&world, sc, i, spec, storage, &mut held, ctx);
                    storage = st;
                    if stop {
                        return;
                    }
                }
            }
            "C24" | "C25" | "C26" | "C27" | "C30" | "C33" | "C34" => observe_run::run(prop, &world, sc, ctx),
            _ => {}
        }
    }

    fn shrink(_prop: &str, sc: &Scenario) -> Vec<Scenario> {
        shrink::candidates(sc)
    }

    fn summarize(_prop: &str, sc: &Scenario) -> serde_json::Value {
        serde_json::json!({
            "gas": sc.gas, "gas_price": sc.gas_price, "height": sc.height,
            "contracts": sc.contracts.iter().map(|c| serde_json::json!({"instructions": c.code.len(), "slots": c.slots.len(), "balances": c.balances})).collect::<Vec<_>>(),
            "txs": sc.txs.iter().map(|t| serde_json::json!({
                "script_instructions": t.script.len(),
                "script_head": t.script.iter().take(12).map(|w| format!("{w:08x}")).collect::<Vec<_>>(),
                "gas_limit": t.gas_limit, "coins": t.coins, "messages": t.messages,
                "input_contracts": t.input_contracts, "outputs": t.outputs.len(),
            })).collect::<Vec<_>>(),
            "plan": sc.plan,
        })
    }
}

pub mod shrink {
    use super::world::*;
    use fuel_asm::Opcode;

    const NOOP: u32 = (Opcode::NOOP as u32) << 24;

    /// Candidate simplifications: drop transactions, replicas, faults; replace instructions by
    /// NOOP (keeps jump targets); shrink programs from the tail; shrink amounts.
    pub fn candidates(sc: &Scenario) -> Vec<Scenario> {
        let mut out = Vec::new();
        for i in (0..sc.txs.len()).rev() {
            if sc.txs.len() > 1 {
                let mut a = sc.clone();
                a.txs.remove(i);
                out.push(a);
            }
        }
        for i in (0..sc.plan.replicas.len()).rev() {
            let mut a = sc.clone();
            a.plan.replicas.remove(i);
            out.push(a);
        }
        if !sc.plan.observer_faults.is_empty() {
            let mut a = sc.clone();
            a.plan.observer_faults.clear();
            out.push(a);
        }
        if !sc.plan.evictions.is_empty() {
            let mut a = sc.clone();
            a.plan.evictions.clear();
            out.push(a);
        }
        if sc.plan.reuse_vm {
            let mut a = sc.clone();
            a.plan.reuse_vm = false;
            out.push(a);
        }
        if sc.base_nonzero {
            let mut a = sc.clone();
            a.base_nonzero = false;
            out.push(a);
        }
        if !sc.plan.plain.is_empty() {
            let mut a = sc.clone();
            a.plan.plain.clear();
            out.push(a);
        }
        if sc.gas != GasSched::Default {
            let mut a = sc.clone();
            a.gas = GasSched::Default;
            out.push(a);
        }
        if sc.gas_price != 0 {
            let mut a = sc.clone();
            a.gas_price = 0;
            out.push(a);
        }
        // NOOP out chunks of programs (halves, quarters, …, single instructions)
        let progs = sc.txs.len() + sc.contracts.len();
        for p in 0..progs {
            let len = if p < sc.txs.len() { sc.txs[p].script.len() } else { sc.contracts[p - sc.txs.len()].code.len() };
            let mut chunk = len / 2;
            while chunk >= 1 {
                let mut start = 0;
                while start < len {
                    let mut a = sc.clone();
                    let code = if p < sc.txs.len() { &mut a.txs[p].script } else { &mut a.contracts[p - sc.txs.len()].code };
                    let end = (start + chunk).min(len);
                    let mut changed = false;
                    for w in &mut code[start..end] {
                        if *w != NOOP {
                            *w = NOOP;
                            changed = true;
                        }
                    }
                    if changed {
                        out.push(a);
                    }
                    start += chunk;
                }
                if chunk == 1 {
                    break;
                }
                chunk /= 2;
            }
        }
        for i in 0..sc.txs.len() {
            if !sc.txs[i].messages.is_empty() {
                let mut a = sc.clone();
                a.txs[i].messages.clear();
                out.push(a);
            }
            if sc.txs[i].outputs.len() > 1 {
                for k in (0..sc.txs[i].outputs.len()).rev() {
                    let mut a = sc.clone();
                    a.txs[i].outputs.remove(k);
                    out.push(a);
                }
            }
            if !sc.txs[i].data_tail.is_empty() {
                let mut a = sc.clone();
                a.txs[i].data_tail.clear();
                out.push(a);
            }
            if !sc.txs[i].reg_pokes.is_empty() {
                let mut a = sc.clone();
                a.txs[i].reg_pokes.clear();
                out.push(a);
            }
        }
        out
    }
}

fn describe(prop: &str) -> EngineDescription {
    let rule = match prop {
        "C31" => "Chain histories of 2–5 script transactions (grammar-generated programs calling 1–4 generated contracts; transfers, storage, heap growth, panics inside calls) executed by a reference replica (fresh interpreter + fresh memory per tx) and by perturbed replicas: one long-lived interpreter reused for everything, fresh interpreters over the dirty memory of the previous tx, storage I/O error or crash at the k-th storage call followed by rollback + restart (fresh or reused) + re-execution, an abandoned debug session; and the real long-lived MemoryClient (one Transactor) running the whole history including the transactions the VM refuses at initialisation (one in eight lists an input contract that does not exist). After every transaction (state, receipts, output tx bytes, storage dump; for the client: contract state and balances) must equal the reference. Non-trivial: a replica ran ≥ 3 txs on one instance including a panic inside a call and a heap ≥ 16 KiB; distinct = distinct event digests.",
        "C32" => "Same histories; replicas with single-stepping and with 1–3 random breakpoint sets (script and contract locations, loop targets), resumed after every event to completion: result tuple equals the reference; the sequence of debug events embeds order-preservingly and injectively into the single-stepped trace of arrivals at breakpoint locations with identical registers (reported at most once, before the instruction executes). Non-trivial: ≥ 1 debug event was reported and matched.",
        "C28" => "Histories executed by the reference replica; for every completed script: exactly one ScriptResult, last; preceded by Panic iff result is panic; success iff the program state is a return; revert iff preceded by a Revert receipt; ≤ 65 535 receipts; receipts_root of the output tx == RFC 6962 root of the encoded receipts; on revert/panic variable outputs zero and change = initial free balance (+ refund). The same txs through the real MemoryClient: same receipts, and storage Debug-dump unchanged by reverted/panicked transactions. Non-trivial: a panic with ≥ 2 Call receipts (depth ≥ 2).",
        "C29" => "Scripts and contracts from raw random words (half of the runs) or the grammar, random initial values poked into writable registers, default / unit / randomized / sparse-zero gas schedules, storage I/O errors at the k-th storage call, boundary-sized lengths/offsets/counts (2^64−k, 2^63, 2^62, 2^40, 2^34, 2^32±1, 2^26±k) in the wild share of items, JAL to the last bytes of memory, receipt floods ending on the last six receipt slots followed by a call into a quiet contract (1 run in 600); three quarters of the txs single-stepped under a supervisor, one quarter (and every flood) executed by one uninterrupted transact, half of the runs on one reused interpreter: no host panic, no InterpreterError::Bug, result is a program state or (only with an injected fault) a storage error, and under the default schedule every executed instruction lowers $ggas. Non-trivial: ≥ 50 executed instructions of ≥ 10 distinct opcodes, or a fault fired in a tx with a call.",
        "C24" => "Observer replica single-steps 1–3 generated script transactions calling 1–4 generated contracts (loads/stores/copies/clears aimed at owned buffers, and — in the wild share of items — at the transaction bytes, code, balance table, just outside $sp/$hp, the caller's frame and the caller's heap just beyond the own allocation, after stack shrink/regrow, from callees with their own heap; storage-read, code-copy, hash and elliptic-curve instructions with foreign destinations). After every instruction the whole memory (stack buffer + accessible heap) is diffed against a clone taken before it: every changed byte must lie in the owned stack/heap region before or after the step or in the VM's own writes of that opcode; LB/LW/LQW/LHW/SB/SW/SQW/SHW/MCL/MCLI/MCP/MCPI/MEQ/LOGD/RETD/S256/K256 panics must be among those the accessibility/ownership model allows and must occur when it requires one; ALOC'd bytes are zero. Non-trivial: an ownership refusal inside a call, or a heap write by a callee; distinct = distinct event digests.",
        "C25" => "Observer replica single-steps generated programs with forward skips, bounded loops (JNZB/JNZI/JNEB back edges), JAL subroutines with computed addresses, absolute and register jumps with operands near 2^24, 2^26/4, 2^62, 2^64−1, LDC followed by further execution. Per step: jump target by an unbounded-integer model (taken/untaken, MemoryOverflow iff outside memory, link register, reserved link register refused), CALL entry ($pc=$is=$fp+frame size, $fp=old $sp), return to saved $pc+4, +4 for every other completed instruction, execution only inside [$is,$ssp) and fetch panics only outside. Non-trivial: a backward jump and a JAL round trip in the run.",
        "C26" => "Observer replica under default / unit / randomized-distinct / sparse-zero schedules with gas limits drawn from exhaustion ranges (0–200, 200–3 000, … ) in a quarter of the runs and forwarded gas drawn as all / 2 000–60 000 / 0–60 / boundary values. Per step the independent schedule evaluator (mon_gas.rs) lists the charges of the instruction from the pre-state (fixed costs for ~100 opcodes, dependent costs, CALL/LDC/CCP/CSIZ/CROO/BSIZ/BLDD base + size stages, storage hot/cold reads decided by the monitor's own per-transaction set of touched slots (read, written or inside a cleared range), writes, new-byte and new-balance-entry charges) and compares: consumed == sum on completion, OutOfGas ⇒ $cgas=0 and $ggas reduced by the old $cgas and the prescribed sum really exceeds it, other panics consume a stage prefix, $cgas ≤ $ggas, $ggas monotone, CALL forwarding/saved remainder, return credit, ScriptResult.gas_used. Non-trivial: an OutOfGas inside a multi-stage instruction or a nested return with unspent gas.",
        "C27" => "Observer replica with the storage log on: scripts and contracts that TR, TRO, CALL with coins, MINT, BURN, SMO over 1–3 assets with balances near 0 and near 2^64−1, reverts/panics spliced after movements, storage I/O errors at a seeded call. Per step: contract-balance deltas (from recorded ContractsAssets writes against a running model) and free-balance deltas (verif_balances hook) must equal exactly the movements announced by the step's Transfer/TransferOut/Call/Mint/Burn/MessageOut receipts; the balance table in VM memory equals the internal free balances. Per transaction: the u128 ledger equation per asset over inputs, contract balances before/after (as settled by the embedder), outputs, minted, burned, unclaimed free balance, fee and outgoing messages. Non-trivial: ≥ 2 checked movements in a transaction.",
        "C30" => "Observer replica with the recording storage seam: CALL, TR, BAL, CSIZ, CROO, CCP, LDC aimed at input contracts, at a deployed contract that is not an input, and at absent ids (script transactions; inputs sometimes drop a deployed contract). Every access to ContractsRawCode / ContractsState / ContractsAssets (get, contains_key, size_of_value, reads, writes) in a step must name an input contract (an access listed as a known finding never masks another offending access of the same instruction), half of the runs keep one interpreter across the transactions, and the contract at $fp is always an input. Non-trivial: ≥ 1 contract-addressing instruction aimed at a deployed non-input contract.",
        "C33" => "Observer replica: contracts execute SRW SRWQ SWW SWWQ SCWQ SCLR SRDD SRDI SWRD SWRI SUPD SUPI SPLD over 8 clustered keys (consecutive, so ranges overlap; one in ten pools sits at the 2^256−1 boundary), values of length 0/8/31/32/33/100/120, legacy and dynamic instructions interleaved on the same slots, across calls, contracts and transactions; the slot cache is cleared or partially evicted at seeded steps; storage I/O errors at seeded calls. From a plain key-value map (seeded from genesis, committed on success, restored on revert) the monitor predicts registers, $err, destination bytes, StorageOutOfBounds / TooManySlots panics and the post-state, and compares the WHOLE persistent ContractsState table after every storage step. Non-trivial: a legacy read of a slot written dynamically with length ≠ 32, or a range clear crossing cached and uncached slots.",
        "C34" => "Observer replica over generated call trees (acyclic by construction in the safe form, recursion and absent targets in the wild form; coins and gas forwarded; RET and RETD; callee heap allocations). Calls are made with $sp not 8-aligned, with a live $of / $err / changed $flag. At every successful CALL: the caller's region recorded before the instruction is untouched by it, the frame starts at the caller's $sp, frame bytes (callee id, asset id, 64 saved registers, padded code size, a, b), the code behind the frame equals the callee's stored bytecode with zero padding, callee's $fp/$ssp=$sp/$is=$pc/$bal/$flag=0 and unchanged program registers; at the matching return: every register equals the caller's at the call except $cgas/$ggas/$ret/$retl/$hp and $pc+4, the caller's region ([$ssp,$sp) for scripts, [$fp,$sp) for contracts) is byte-identical, the return itself does not change $hp, $hp did not move up and the callee's heap is readable. Non-trivial: call depth ≥ 2 and a RETD with length ≥ 1.",
        _ => "see DESIGN.md",
    };
    EngineDescription {
        rule: rule.into(),
        real_components: vec![
            "fuel_vm::interpreter::Interpreter (transact, resume, debugger, all instruction handlers)".into(),
            "fuel_vm::checked_transaction (into_checked_basic, into_ready)".into(),
            "fuel_vm::storage::MemoryStorage as backing store; fuel_vm::memory_client::MemoryClient (C28)".into(),
            "fuel-tx transaction types, canonical encoding, receipts; fuel-asm decoding".into(),
        ],
        stub_components: vec![
            "SimStorage wrapper (recording, failing k-th call, snapshot/rollback = crash)".into(),
            "SimEcal host-call handler".into(),
            "replica supervisor (commit/revert protocol of MemoryClient::transact), program generator".into(),
            "reference models (rfc6962, ledger, kv, gas table, step model)".into(),
        ],
        assumptions: vec![
            "Transactions pass the basic checks only (no signature verification: C20's business).".into(),
            "Single-stepping with resume() after every event executes exactly one instruction per resume (verified by a compile-and-run probe; C32 separately checks that it does not change results).".into(),
        ],
        distinct_state_measure: "distinct event digests over (tx index, final state hash, receipts count, output tx hash) per replica".into(),
        simulated_time_keys: vec!["transactions".into(), "instructions".into(), "storage_calls".into()],
    }
}

pub static VM: EngineDef = EngineDef {
    name: "vm",
    props: &["C24", "C25", "C26", "C27", "C28", "C29", "C30", "C31", "C32", "C33", "C34"],
    generate: gen_erased::<VmEngine>,
    run: run_erased::<VmEngine>,
    shrink: shrink_erased::<VmEngine>,
    summarize: summarize_erased::<VmEngine>,
    describe,
    runs: |p| match p {
        "C24" => (40_000, 1_000_000),
        "C25" => (20_000, 500_000),
        "C26" => (40_000, 1_000_000),
        "C27" => (80_000, 2_000_000),
        "C28" => (30_000, 800_000),
        "C29" => (80_000, 2_000_000),
        "C30" => (50_000, 1_200_000),
        "C31" => (8_000, 200_000),
        "C32" => (10_000, 250_000),
        "C33" => (25_000, 600_000),
        "C34" => (60_000, 1_500_000),
        _ => (20_000, 500_000),
    },
};
