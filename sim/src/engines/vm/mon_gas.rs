//! C26 — gas is charged monotonically, exactly and within the limit. An independent schedule
//! evaluator computes, from the pre-state of every single-stepped instruction, the ordered list
//! of charges ("stages") the gas schedule prescribes; the consumed gas must equal their sum when
//! the instruction completes, out-of-gas must zero $cgas, and any other panic must have
//! consumed a prefix of the stages.
//!
//! The table opcode → GasCosts field was transcribed once from the instruction documentation in
//! fuel-asm and the pinned implementation and is frozen here.

use super::asm::*;
use super::exec::{Pre, Vm};
use super::observer::*;
use crate::kernel::Stats;
use fuel_asm::{Opcode as O, PanicReason as P};
use fuel_tx::{ContractIdExt, DependentCost, GasCosts};
use fuel_types::{AssetId, BlobId, Bytes32, ContractId};
use fuel_vm::call::CallFrame;
use fuel_vm::storage::{ContractsAssetsStorage, InterpreterStorage};
use fuel_storage::StorageSize;

fn resolve_wb(c: DependentCost, units: u64) -> u64 {
    match c {
        DependentCost::LightOperation { units_per_gas, .. } => if units_per_gas == 0 { 0 } else { units / units_per_gas },
        DependentCost::HeavyOperation { gas_per_unit, .. } => units.saturating_mul(gas_per_unit),
    }
}
fn base(c: DependentCost) -> u64 {
    match c {
        DependentCost::LightOperation { base, .. } | DependentCost::HeavyOperation { base, .. } => base,
    }
}
fn resolve(c: DependentCost, units: u64) -> u64 {
    base(c).saturating_add(resolve_wb(c, units))
}

#[derive(Debug, Clone)]
struct Stages {
    v: Vec<u64>,
    /// false: only a prefix is known (an operand was unreadable / outside the model).
    complete: bool,
}

fn padded8(x: u64) -> Option<u64> {
    x.checked_add(7).map(|v| v & !7)
}

pub struct GasMonitor {
    pub costs: GasCosts,
    expect: Option<Stages>,
    pub oog_in_multistage: bool,
    pub nested_return_with_unspent: bool,
    /// Own model of "this slot was already accessed in this transaction" (value length as last
    /// seen): a read is hot exactly when the slot is in here. Independent of the VM's cache.
    touched: std::collections::BTreeMap<(ContractId, [u8; 32]), Option<usize>>,
    /// Slots the instruction being stepped will touch, applied when it completes.
    pending: std::cell::RefCell<Vec<([u8; 32], Option<usize>)>>,
    pending_cid: std::cell::Cell<Option<ContractId>>,
    /// Set when an instruction's slot accesses could not be modelled: from then on hotness is
    /// read from the VM's own cache (the charge is still checked against the schedule).
    degraded: std::cell::Cell<bool>,
    pub hot_after_clear: std::cell::Cell<bool>,
}

impl GasMonitor {
    pub fn new(costs: GasCosts) -> Self {
        GasMonitor {
            costs,
            expect: None,
            oog_in_multistage: false,
            nested_return_with_unspent: false,
            touched: Default::default(),
            pending: Default::default(),
            pending_cid: Default::default(),
            degraded: Default::default(),
            hot_after_clear: Default::default(),
        }
    }

    fn fixed(&self, op: O) -> Option<u64> {
        let c = &self.costs;
        Some(match op {
            O::ADD => c.add(),
            O::ADDI => c.addi(),
            O::AND => c.and(),
            O::ANDI => c.andi(),
            O::DIV => c.div(),
            O::DIVI => c.divi(),
            O::EQ => c.eq_(),
            O::EXP => c.exp(),
            O::EXPI => c.expi(),
            O::GT => c.gt(),
            O::LT => c.lt(),
            O::MLOG => c.mlog(),
            O::MOD => c.mod_op(),
            O::MODI => c.modi(),
            O::MOVE => c.move_op(),
            O::MOVI => c.movi(),
            O::MROO => c.mroo(),
            O::MUL => c.mul(),
            O::MULI => c.muli(),
            O::MLDV => c.mldv(),
            O::NIOP => c.niop().ok()?,
            O::NOOP => c.noop(),
            O::NOT => c.not(),
            O::OR => c.or(),
            O::ORI => c.ori(),
            O::SLL => c.sll(),
            O::SLLI => c.slli(),
            O::SRL => c.srl(),
            O::SRLI => c.srli(),
            O::SUB => c.sub(),
            O::SUBI => c.subi(),
            O::XOR => c.xor(),
            O::XORI => c.xori(),
            O::JI => c.ji(),
            O::JNEI => c.jnei(),
            O::JNZI => c.jnzi(),
            O::JMP => c.jmp(),
            O::JNE => c.jne(),
            O::JMPF => c.jmpf(),
            O::JMPB => c.jmpb(),
            O::JNZF => c.jnzf(),
            O::JNZB => c.jnzb(),
            O::JNEF => c.jnef(),
            O::JNEB => c.jneb(),
            O::JAL => c.jmp(),
            O::RET => c.ret(),
            O::RVRT => c.rvrt(),
            O::CFSI | O::CFS => c.cfsi(),
            O::PSHL => c.pshl(),
            O::PSHH => c.pshh(),
            O::POPL => c.popl(),
            O::POPH => c.poph(),
            O::LB => c.lb(),
            O::LW | O::LQW | O::LHW => c.lw(),
            O::SB => c.sb(),
            O::SW | O::SQW | O::SHW => c.sw(),
            O::BAL => c.bal(),
            O::BHEI => c.bhei(),
            O::BHSH => c.bhsh(),
            O::BURN => c.burn(),
            O::CB => c.cb(),
            O::LOG => c.log(),
            O::TIME => c.time(),
            O::ECK1 => c.eck1(),
            O::ECR1 => c.ecr1(),
            O::FLAG => c.flag(),
            O::GM => c.gm(),
            O::GTF => c.gtf(),
            O::TRO => c.tro(),
            O::ECOP => c.ecop().ok()?,
            O::WDCM => c.wdcm(),
            O::WQCM => c.wqcm(),
            O::WDOP => c.wdop(),
            O::WQOP => c.wqop(),
            O::WDML => c.wdml(),
            O::WQML => c.wqml(),
            O::WDDV => c.wddv(),
            O::WQDV => c.wqdv(),
            O::WDMD => c.wdmd(),
            O::WQMD => c.wqmd(),
            O::WDAM => c.wdam(),
            O::WQAM => c.wqam(),
            O::WDMM => c.wdmm(),
            O::WQMM => c.wqmm(),
            _ => return None,
        })
    }

    /// Value length of a storage slot as the instruction will see it, and whether the read is hot.
    fn slot(&self, vm: &Vm, cid: &ContractId, key: &[u8; 32], cache: &mut std::collections::BTreeMap<[u8; 32], Option<usize>>) -> (bool, Option<usize>) {
        if let Some(v) = cache.get(key) {
            return (true, *v);
        }
        if self.degraded.get() {
            let real = vm.bench_storage_slot_cache().get(&(*cid, Bytes32::new(*key)));
            if let Some(v) = real {
                let l = v.as_ref().map(|d| d.len());
                cache.insert(*key, l);
                return (true, l);
            }
        } else if let Some(l) = self.touched.get(&(*cid, *key)) {
            if l.is_none() {
                self.hot_after_clear.set(true);
            }
            cache.insert(*key, *l);
            return (true, *l);
        }
        let len = vm.as_ref().inner.contract_state(cid, &Bytes32::new(*key)).ok().flatten().map(|d| d.as_ref().as_ref().len());
        cache.insert(*key, len);
        (false, len)
    }

    fn stages(&self, op: O, d: &Dec, pre: &Pre, vm: &Vm) -> Option<Stages> {
        let c = &self.costs;
        let r = |x: u8| pre.regs[x as usize & 63];
        let done = |v: Vec<u64>| Some(Stages { v, complete: true });
        let partial = |v: Vec<u64>| Some(Stages { v, complete: false });
        if let Some(f) = self.fixed(op) {
            // TR / MINT have an extra stage and are handled below
            return done(vec![f]);
        }
        let read32 = |addr: u64| -> Option<[u8; 32]> { vm.memory().read(addr, 32usize).ok().and_then(|b| b.try_into().ok()) };
        let code_len = |id: &[u8; 32]| -> Option<u64> { StorageSize::<fuel_vm::storage::ContractsRawCode>::size_of_value(&vm.as_ref().inner, &ContractId::new(*id)).ok().flatten().map(|l| l as u64) };
        let blob_len = |id: &[u8; 32]| -> Option<u64> { StorageSize::<fuel_vm::storage::BlobData>::size_of_value(&vm.as_ref().inner, &BlobId::new(*id)).ok().flatten().map(|l| l as u64) };
        let has_balance = |cid: &[u8; 32], asset: &[u8; 32]| -> bool { vm.as_ref().inner.contract_asset_id_balance(&ContractId::new(*cid), &AssetId::new(*asset)).ok().flatten().is_some() };
        let entry = 40u64.saturating_mul(c.new_storage_per_byte());
        match op {
            O::ALOC => done(vec![resolve(c.aloc(), r(d.a))]),
            O::CFEI => done(vec![resolve(c.cfei(), d.imm24 as u64)]),
            O::CFE => done(vec![resolve(c.cfe(), r(d.a))]),
            O::MCL => done(vec![resolve(c.mcl(), r(d.b))]),
            O::MCLI => done(vec![resolve(c.mcli(), d.imm18 as u64)]),
            O::MCP => done(vec![resolve(c.mcp(), r(d.c))]),
            O::MCPI => done(vec![resolve(c.mcpi(), d.imm12 as u64)]),
            O::MEQ => done(vec![resolve(c.meq(), r(d.d))]),
            O::RETD => done(vec![resolve(c.retd(), r(d.b))]),
            O::LOGD => done(vec![resolve(c.logd(), r(d.d))]),
            O::S256 => done(vec![resolve(c.s256(), r(d.c))]),
            O::K256 => done(vec![resolve(c.k256(), r(d.c))]),
            O::ED19 => done(vec![resolve(c.ed19(), if r(d.d) == 0 { 32 } else { r(d.d) })]),
            O::SMO => done(vec![resolve(c.smo(), r(d.c))]),
            O::EPAR => done(vec![resolve(c.epar().ok()?, r(d.c))]),
            O::TR => {
                let mut v = vec![c.tr()];
                let (Some(to), Some(asset)) = (read32(r(d.a)), read32(r(d.c))) else { return partial(v) };
                if r(d.b) > 0 && !has_balance(&to, &asset) {
                    v.push(entry);
                }
                done(v)
            }
            O::MINT => {
                let mut v = vec![c.mint()];
                let fp = pre.regs[FP as usize];
                let (Some(cid), Some(sub)) = (if fp != 0 { read32(fp) } else { None }, read32(r(d.b))) else { return partial(v) };
                let asset: [u8; 32] = ContractId::new(cid).asset_id(&fuel_types::SubAssetId::new(sub)).into();
                if !has_balance(&cid, &asset) {
                    v.push(entry);
                }
                done(v)
            }
            O::CALL => {
                let call = c.call();
                let mut v = vec![base(call)];
                let (Some(to), Some(asset)) = (read32(r(d.a)), read32(r(d.c))) else { return partial(v) };
                let Some(len) = code_len(&to) else { return partial(v) };
                let Some(padded) = padded8(len) else { return partial(v) };
                v.push(resolve_wb(call, padded));
                if r(d.b) > 0 && !has_balance(&to, &asset) {
                    v.push(entry);
                }
                done(v)
            }
            O::CSIZ | O::CROO => {
                let cost = if op == O::CSIZ { c.csiz() } else { c.croo() };
                let mut v = vec![base(cost)];
                let Some(id) = read32(r(d.b)) else { return partial(v) };
                let Some(len) = code_len(&id) else { return partial(v) };
                v.push(resolve_wb(cost, len));
                done(v)
            }
            O::CCP => {
                let cost = c.ccp();
                let mut v = vec![base(cost)];
                let Some(id) = read32(r(d.b)) else { return partial(v) };
                let Some(len) = code_len(&id) else { return partial(v) };
                v.push(resolve_wb(cost, len.max(r(d.d))));
                done(v)
            }
            O::LDC => {
                let cost = c.ldc();
                let mut v = vec![base(cost)];
                let len_unpadded = r(d.c);
                match d.d {
                    0 => {
                        let Some(id) = read32(r(d.a)) else { return partial(v) };
                        let Some(length) = padded8(len_unpadded) else { return partial(v) };
                        let Some(len) = code_len(&id) else { return partial(v) };
                        v.push(resolve_wb(cost, len.max(length)));
                        done(v)
                    }
                    1 => {
                        let Some(id) = read32(r(d.a)) else { return partial(v) };
                        let length = padded8(len_unpadded).unwrap_or(u64::MAX);
                        let Some(len) = blob_len(&id) else { return partial(v) };
                        v.push(resolve_wb(cost, len.max(length)));
                        done(v)
                    }
                    2 => {
                        if len_unpadded == 0 {
                            return done(v);
                        }
                        v.push(resolve_wb(cost, padded8(len_unpadded).unwrap_or(u64::MAX)));
                        done(v)
                    }
                    _ => partial(v),
                }
            }
            O::BSIZ => {
                let cost = c.bsiz().ok()?;
                let mut v = vec![base(cost)];
                let Some(id) = read32(r(d.b)) else { return partial(v) };
                let Some(len) = blob_len(&id) else { return partial(v) };
                v.push(resolve_wb(cost, len));
                done(v)
            }
            O::BLDD => {
                let cost = c.bldd().ok()?;
                let mut v = vec![base(cost)];
                let Some(id) = read32(r(d.b)) else { return partial(v) };
                let Some(len) = blob_len(&id) else { return partial(v) };
                v.push(resolve_wb(cost, len.max(r(d.d))));
                done(v)
            }
            O::SRW | O::SRWQ | O::SWW | O::SWWQ | O::SCWQ | O::SCLR | O::SRDD | O::SRDI | O::SWRD | O::SWRI | O::SUPD | O::SUPI | O::SPLD => {
                let mut v = vec![c.noop()];
                let fp = pre.regs[FP as usize];
                if fp == 0 {
                    return partial(v);
                }
                let Some(cidb) = read32(fp) else { return partial(v) };
                let cid = ContractId::new(cidb);
                let key_ptr = match op {
                    O::SRW | O::SRWQ => r(d.c),
                    O::SRDD | O::SRDI | O::SPLD => r(d.b),
                    _ => r(d.a),
                };
                let Some(key) = read32(key_ptr) else { return partial(v) };
                let (hot, cold, write, clear) = (c.storage_read_hot().ok()?, c.storage_read_cold().ok()?, c.storage_write().ok()?, c.storage_clear().ok()?);
                let nsb = c.new_storage_per_byte();
                let mut cache = std::collections::BTreeMap::new();
                let stash = |cache: std::collections::BTreeMap<[u8; 32], Option<usize>>| {
                    self.pending_cid.set(Some(cid));
                    *self.pending.borrow_mut() = cache.into_iter().collect();
                };
                let mut read = |v: &mut Vec<u64>, cache: &mut std::collections::BTreeMap<[u8; 32], Option<usize>>, k: &[u8; 32]| -> Option<usize> {
                    let (is_hot, len) = self.slot(vm, &cid, k, cache);
                    v.push(resolve(if is_hot { hot } else { cold }, len.unwrap_or(0) as u64));
                    len
                };
                let mut wr = |v: &mut Vec<u64>, cache: &mut std::collections::BTreeMap<[u8; 32], Option<usize>>, k: &[u8; 32], new_len: usize| {
                    let (_, old) = self.slot(vm, &cid, k, cache);
                    v.push(resolve(write, new_len as u64));
                    v.push(nsb.saturating_mul((new_len as u64).saturating_sub(old.unwrap_or(0) as u64)));
                    cache.insert(*k, Some(new_len));
                };
                let key_at = |i: u64| -> Option<[u8; 32]> {
                    let mut out = key;
                    let mut carry = i as u128;
                    for b in (0..32).rev() {
                        if carry == 0 {
                            break;
                        }
                        let s = out[b] as u128 + (carry & 0xff);
                        out[b] = s as u8;
                        carry = (carry >> 8) + (s >> 8);
                    }
                    if carry != 0 { None } else { Some(out) }
                };
                match op {
                    O::SRW | O::SRDD | O::SRDI | O::SPLD => {
                        read(&mut v, &mut cache, &key);
                        { stash(cache); done(v) }
                    }
                    O::SRWQ => {
                        let n = r(d.d);
                        if n > 64 {
                            { self.degraded.set(true); return partial(v) }
                        }
                        for i in 0..n {
                            let Some(k) = key_at(i) else { return partial(v) };
                            read(&mut v, &mut cache, &k);
                        }
                        { stash(cache); done(v) }
                    }
                    O::SWW => {
                        read(&mut v, &mut cache, &key);
                        wr(&mut v, &mut cache, &key, 32);
                        { stash(cache); done(v) }
                    }
                    O::SWWQ => {
                        let n = r(d.d);
                        if n > 64 {
                            { self.degraded.set(true); return partial(v) }
                        }
                        for i in 0..n {
                            let Some(k) = key_at(i) else { return partial(v) };
                            read(&mut v, &mut cache, &k);
                            wr(&mut v, &mut cache, &k, 32);
                        }
                        { stash(cache); done(v) }
                    }
                    O::SCWQ => {
                        let n = r(d.c);
                        if n > 64 {
                            { self.degraded.set(true); return partial(v) }
                        }
                        for i in 0..n {
                            let Some(k) = key_at(i) else { return partial(v) };
                            read(&mut v, &mut cache, &k);
                            cache.insert(k, None);
                        }
                        v.push(resolve(clear, n));
                        { stash(cache); done(v) }
                    }
                    O::SCLR => {
                        let n = r(d.b);
                        if n > 1 && key_at(n - 1).is_none() {
                            return partial(v);
                        }
                        if n > 4096 {
                            self.degraded.set(true);
                        } else {
                            // every slot of a cleared range is "known absent" afterwards
                            for i in 0..n {
                                if let Some(k) = key_at(i) {
                                    cache.insert(k, None);
                                }
                            }
                        }
                        v.push(resolve(clear, n));
                        { stash(cache); done(v) }
                    }
                    O::SWRD | O::SWRI => {
                        let len = if op == O::SWRD { r(d.c) } else { d.imm12 as u64 };
                        if len > (1 << 20) {
                            { self.degraded.set(true); return partial(v) }
                        }
                        wr(&mut v, &mut cache, &key, len as usize);
                        { stash(cache); done(v) }
                    }
                    O::SUPD | O::SUPI => {
                        let old = read(&mut v, &mut cache, &key).unwrap_or(0) as u64;
                        let (off, len) = (r(d.c), if op == O::SUPD { r(d.d) } else { d.d as u64 });
                        let off = if off == u64::MAX { old } else { off };
                        if off > old || off.saturating_add(len) > (1 << 20) {
                            { self.degraded.set(true); return partial(v) }
                        }
                        let new_len = old.max(off + len);
                        wr(&mut v, &mut cache, &key, new_len as usize);
                        { stash(cache); done(v) }
                    }
                    _ => partial(v),
                }
            }
            _ => None,
        }
    }
}

impl Monitor for GasMonitor {
    fn before(&mut self, vm: &mut Vm, pre: &Pre) {
        self.expect = None;
        let Some(word) = pre.word else { return };
        if !valid(word) {
            return;
        }
        let Some(op) = opcode_of(word) else { return };
        let d = dec(word);
        self.pending.borrow_mut().clear();
        self.pending_cid.set(None);
        if [d.a, d.b, d.c, d.d].iter().any(|x| *x == CGAS || *x == GGAS) && !matches!(op, O::CALL) {
            if matches!(op, O::SRW | O::SRWQ | O::SWW | O::SWWQ | O::SCWQ | O::SCLR | O::SRDD | O::SRDI | O::SWRD | O::SWRI | O::SUPD | O::SUPI | O::SPLD) {
                // the slots this instruction touches are not modelled: stop predicting hotness
                self.degraded.set(true);
            }
            return;
        }
        self.expect = self.stages(op, &d, pre, vm);
    }

    fn after(&mut self, vm: &mut Vm, info: &StepInfo, stats: &mut Stats) -> Option<Viol> {
        let step = info.pre.step;
        let (c0, g0) = (info.pre.regs[CGAS as usize], info.pre.regs[GGAS as usize]);
        let (c1, g1) = (info.post[CGAS as usize], info.post[GGAS as usize]);
        let opn = info.op.map(|o| format!("{o:?}")).unwrap_or_else(|| "?".into());
        if info.errored {
            return None;
        }
        if let Some(cid) = self.pending_cid.take() {
            if info.completed() {
                for (k, l) in self.pending.borrow_mut().drain(..) {
                    self.touched.insert((cid, k), l);
                }
            }
        }
        // ---- invariants for every step ------------------------------------------------------
        if c1 > g1 {
            return Some(("cgas-exceeds-ggas".into(), "cgas-exceeds-ggas".into(), format!("step {step}: after {opn} $cgas={c1} > $ggas={g1}")));
        }
        if g1 > g0 {
            return Some(("ggas-increased".into(), "ggas-increased".into(), format!("step {step}: {opn} increased $ggas from {g0} to {g1}")));
        }
        let consumed = g0 - g1;
        let exp = self.expect.take();
        let own = info.panic.filter(|_| info.own_panic).map(|p| p.0);
        let is_call = info.op == Some(O::CALL) && info.completed() && info.post[FP as usize] != info.pre.regs[FP as usize];
        let is_return = matches!(info.op, Some(O::RET | O::RETD)) && info.completed() && info.pre.regs[FP as usize] != 0 && !info.finished;
        // a next-fetch panic in the same resume() charges nothing extra
        match own {
            Some(P::OutOfGas) => {
                if c1 != 0 || consumed != c0 {
                    return Some(("out-of-gas-accounting".into(), format!("out-of-gas-accounting:{opn}"), format!("step {step}: {opn} ran out of gas with $cgas={c0} but left $cgas={c1}, $ggas {g0}->{g1} (expected $cgas=0 and $ggas reduced by exactly {c0})")));
                }
                if let Some(s) = &exp {
                    let total: u128 = s.v.iter().map(|x| *x as u128).sum();
                    if s.complete && total <= c0 as u128 {
                        return Some(("spurious-out-of-gas".into(), format!("spurious-out-of-gas:{opn}"), format!("step {step}: {opn} panicked OutOfGas with $cgas={c0} although the schedule prescribes {total} (stages {:?})", s.v)));
                    }
                    if s.v.len() > 1 {
                        self.oog_in_multistage = true;
                        stats.inc("probe.oog_in_multistage_instruction");
                    }
                }
                return None;
            }
            Some(_) => {
                if let Some(s) = &exp {
                    let mut acc = 0u128;
                    let mut ok = consumed == 0;
                    for x in &s.v {
                        acc += *x as u128;
                        if acc == consumed as u128 {
                            ok = true;
                        }
                    }
                    if !ok && s.complete {
                        return Some(("panic-gas-not-a-stage-prefix".into(), format!("panic-gas-not-a-stage-prefix:{opn}"), format!("step {step}: {opn} panicked ({:?}) after consuming {consumed} gas, which is no prefix sum of its charges {:?}", own, s.v)));
                    }
                }
                if c0 - c1 != consumed && !is_call {
                    return Some(("cgas-ggas-diverge".into(), format!("cgas-ggas-diverge:{opn}"), format!("step {step}: {opn} lowered $ggas by {consumed} but $cgas by {}", c0 - c1)));
                }
                return None;
            }
            None => {}
        }
        let Some(s) = exp else {
            stats.inc("probe.unmodelled_gas_step");
            if !is_call && !is_return && c0.checked_sub(c1) != Some(consumed) {
                return Some(("cgas-ggas-diverge".into(), format!("cgas-ggas-diverge:{opn}"), format!("step {step}: {opn} lowered $ggas by {consumed} but $cgas went {c0}->{c1}")));
            }
            return None;
        };
        let total: u128 = s.v.iter().map(|x| *x as u128).sum();
        if !s.complete {
            stats.inc("probe.unmodelled_gas_step");
            return None;
        }
        if consumed as u128 != total {
            return Some((
                "gas-cost-mismatch".into(),
                format!("gas-cost-mismatch:{opn}"),
                format!("step {step}: {opn} consumed {consumed} gas, the schedule prescribes {total} (stages {:?})", s.v),
            ));
        }
        if is_call {
            let after = c0 - consumed;
            let requested = info.pre.regs[info.d.d as usize & 63];
            let forwarded = requested.min(after);
            let saved_off = info.post[FP as usize] + CallFrame::registers_offset() as u64 + (CGAS as u64) * 8;
            let saved = vm.memory().read(saved_off, 8usize).ok().map(|b| u64::from_be_bytes(b.try_into().unwrap_or([0; 8])));
            if c1 != forwarded || saved != Some(after - forwarded) {
                return Some((
                    "call-gas-forwarding".into(),
                    "call-gas-forwarding".into(),
                    format!("step {step}: CALL with $cgas={after} after charges and {requested} requested: callee $cgas={c1} (expected {forwarded}), caller's saved $cgas={saved:?} (expected {})", after - forwarded),
                ));
            }
        } else if is_return {
            let saved_off = info.pre.regs[FP as usize] + CallFrame::registers_offset() as u64 + (CGAS as u64) * 8;
            // the frame bytes are still in memory after the return
            if let Some(saved) = vm.memory().read(saved_off, 8usize).ok().map(|b| u64::from_be_bytes(b.try_into().unwrap_or([0; 8]))) {
                let unspent = c0 - consumed;
                if c1 as u128 != saved as u128 + unspent as u128 {
                    return Some(("return-gas-credit".into(), "return-gas-credit".into(), format!("step {step}: {opn} returned with {unspent} unspent; caller's saved $cgas={saved}; $cgas after return = {c1} (expected {})", saved as u128 + unspent as u128)));
                }
                if unspent > 0 {
                    self.nested_return_with_unspent = true;
                }
            }
        } else if c0 - c1 != consumed {
            return Some(("cgas-ggas-diverge".into(), format!("cgas-ggas-diverge:{opn}"), format!("step {step}: {opn} lowered $ggas by {consumed} but $cgas by {}", c0 - c1)));
        }
        stats.inc("probe.gas_step_checked");
        None
    }
}
