//! Scenario generator of the `vm` engine.

use super::pgen::{random_program, Mix, PGen};
use super::plan::{Plan, Replica};
use super::world::*;
use crate::kernel::{Rng, Tier};

fn gen_keys(g: &mut Rng) -> Vec<[u8; 32]> {
    // clustered: a base key, consecutive successors (so ranges overlap), a far key, the maximum
    let mut base = g.bytes32();
    if g.chance(1, 3) {
        base = [0u8; 32];
        base[31] = g.below(4) as u8;
    }
    if g.chance(1, 6) {
        // the pool straddles a carry out of the last byte (…00fd, …00ff, …0100, …) or out of
        // the last two bytes
        base[31] = 0xff - g.below(4) as u8;
        if g.bool() {
            base[30] = 0xff;
        }
    }
    if g.chance(1, 10) {
        // close to the 2^256 boundary
        base = [0xff; 32];
        base[31] = 0xff - g.range(2, 6) as u8;
    }
    let mut keys = Vec::new();
    let mut cur = base;
    for i in 0..NK {
        keys.push(cur);
        // increment (big-endian) for most, jump for some
        if i == NK - 2 && g.chance(1, 2) {
            cur = [0xff; 32];
            continue;
        }
        if g.chance(1, 5) {
            cur = g.bytes32();
            continue;
        }
        let mut carry = true;
        for b in (0..32).rev() {
            if carry {
                let (v, c) = cur[b].overflowing_add(1);
                cur[b] = v;
                carry = c;
            }
        }
        if carry {
            cur = [0u8; 32];
        }
    }
    keys
}

pub fn gas_limit(g: &mut Rng, f: &mut Rng, exhaust: bool) -> u64 {
    if exhaust {
        // land out-of-gas inside early instructions / inside calls
        match f.below(4) {
            0 => f.below(200),
            1 => f.range(200, 3_000),
            2 => f.range(3_000, 30_000),
            _ => f.range(30_000, 200_000),
        }
    } else {
        *g.pick(&[10_000u64, 30_000, 100_000, 100_000, 300_000, 1_000_000])
    }
}

pub fn generate(prop: &str, rng: &mut Rng, tier: Tier) -> Scenario {
    let mut g = rng.fork("gen");
    let mut f = rng.fork("fault");
    let mut s = rng.fork("sched");
    let faulty = g.below(3) != 0;
    let mut mix = Mix::draw(&mut g, prop);
    // C28: rare receipt-flood scenarios up to the 65 535-receipt limit. Their contracts are quiet
    // (no receipts of their own), so that a callee's RET / RETD / RVRT lands on a reserved slot.
    // C29 gets them too (run by one uninterrupted transact): the reserved receipt slots are where
    // "appending a panic receipt cannot fail" style assumptions live.
    let flood_run = (prop == "C28" && g.chance(1, if tier == Tier::Thorough { 200 } else { 1200 }))
        || (prop == "C29" && g.chance(1, 600));
    if flood_run {
        mix.log = 0;
        mix.transfer = 0;
        mix.call = 0;
        mix.code = 0;
        mix.meta = 0;
        mix.raw = 0;
        mix.fail = 0;
        mix.wild = 0;
        mix.storage = 0;
    }
    let mut gas = match (prop, g.below(11)) {
        ("C29", 0..=5) => GasSched::Default,
        (_, 0..=4) => GasSched::Default,
        (_, 5 | 6) => GasSched::Unit,
        (_, 7..=9) => GasSched::Randomized { seed: g.next_u64() },
        _ => GasSched::SparseZero { seed: g.next_u64() },
    };
    let base_nonzero = g.chance(1, 3);
    let gas_price = *g.pick(&[0u64, 0, 0, 1, 10, 1000]);
    let height = *g.pick(&[0u32, 1, 10, 1000, 70_000]);
    let keys = gen_keys(&mut g);

    // contracts: slots [0, n) deployed; slot n deployed but (mostly) not an input; others absent
    let n_dep = g.range(1, 4) as usize;
    let nblobs = g.below(3) as usize;
    let mut contracts = Vec::new();
    for i in 0..(n_dep + 1).min(NC) {
        let len = g.range(3, if tier == Tier::Thorough { 70 } else { 45 }) as usize;
        let code = if prop == "C29" && g.chance(1, 3) {
            random_program(&mut g, len)
        } else {
            let mut pg = PGen::new(&mut g, false, &mix, n_dep);
            pg.self_index = Some(i);
            pg.n_blobs = nblobs;
            pg.program(len)
        };
        let nslots = g.below(4);
        let slots = (0..nslots).map(|_| (g.below(NK as u64) as u8, g.below(8) as u8)).collect();
        let mut balances = Vec::new();
        for a in 0..NA as u8 {
            if a == 0 || g.chance(3, 4) {
                balances.push((
                    a,
                    match g.below(5) {
                        0 => g.below(100),
                        1 => g.range(1_000, 1_000_000),
                        2 => u64::MAX - g.below(1000),
                        _ => 10_000,
                    },
                ));
            }
        }
        contracts.push(ContractSpec { code, salt: i as u8 + 1, slots, balances, deployed: true });
    }
    let blobs = (0..nblobs).map(|i| (*g.pick(&[0u16, 8, 33, 200]), i as u8)).collect();

    let ntx = match prop {
        "C31" => g.range(2, 5),
        _ => g.range(1, 3),
    } as usize;
    let exhaust_some = faulty && f.chance(1, 2);
    let mut txs = Vec::new();
    for _ in 0..ntx {
        let max_fee = if gas_price == 0 && g.chance(2, 3) { 0 } else { *g.pick(&[1_000u64, 100_000, 10_000_000]) };
        let ncoins = g.range(1, 3);
        let mut coins: Vec<(u8, u64)> = Vec::new();
        // base asset first, large enough for the fee
        coins.push((0, max_fee + *g.pick(&[0u64, 1_000, 100_000, 1_000_000, u64::MAX / 4])));
        for _ in 1..ncoins {
            coins.push((
                g.below(NA as u64) as u8,
                match g.below(4) {
                    0 => g.below(10),
                    1 => g.below(1_000_000),
                    2 => u64::MAX / 2,
                    _ => 500,
                },
            ));
        }
        let messages = if g.chance(1, 4) { vec![(g.below(10_000), *g.pick(&[0u8, 0, 8, 40]))] } else { vec![] };
        // inputs: mostly all deployed callable contracts; sometimes a subset; rarely the extra one
        let drop_some = mix.wild >= 5;
        let mut input_contracts: Vec<u8> = (0..n_dep as u8).filter(|_| !(drop_some && g.chance(1, 6))).collect();
        // C31: one transaction in eight is refused by the VM at initialisation (it lists a
        // contract that does not exist), so that later transactions run on an instance that has
        // just reported an error
        if drop_some && g.chance(1, 6) {
            input_contracts.push(n_dep as u8);
        }
        if prop == "C31" && g.chance(1, 8) {
            input_contracts.push(ABSENT_INPUT);
        }
        let mut outputs = Vec::new();
        for a in 0..NA as u8 {
            if coins.iter().any(|c| c.0 == a) && !g.chance(1, 4) {
                outputs.push(OutSpec::Change { asset: a });
            }
        }
        for _ in 0..g.below(3) {
            outputs.push(OutSpec::Variable);
        }
        if g.chance(1, 4) {
            let a = coins[g.usize_below(coins.len())].0;
            outputs.push(OutSpec::Coin { asset: a, amount: g.below(400) });
            if g.chance(1, 2) {
                // a second coin output, mostly of the same asset
                let b = if g.chance(3, 4) { a } else { coins[g.usize_below(coins.len())].0 };
                outputs.push(OutSpec::Coin { asset: b, amount: g.below(400) });
            }
        }
        g.shuffle(&mut outputs);
        let n_contract_outputs = { let mut v = input_contracts.clone(); v.dedup(); v.len() };
        let variable_outputs: Vec<u8> = outputs.iter().enumerate().filter(|(_, o)| matches!(o, OutSpec::Variable)).map(|(k, _)| (k + n_contract_outputs) as u8).collect();
        let len = g.range(2, if tier == Tier::Thorough { 90 } else { 60 }) as usize;
        // C28: rare receipt floods up to the 65 535-receipt limit (cheap schedule, ample gas)
        let flood = flood_run;
        let script = if flood {
            gas = GasSched::Unit;
            // the Call receipt of the first call lands on one of the last six slots
            let logs = 65_535 - g.below(6);
            let mut call_mix = mix.clone();
            call_mix.call = 6;
            call_mix.log = 2;
            let mut pg = PGen::new(&mut g, true, &call_mix, n_dep);
            pg.n_blobs = nblobs;
            pg.variable_outputs = variable_outputs;
            let n = pg.g.below(4) as usize;
            let call_first = pg.g.chance(2, 3);
            pg.flood_program(logs, n, call_first)
        } else if prop == "C29" && g.chance(1, 2) {
            random_program(&mut g, len)
        } else {
            let mut pg = PGen::new(&mut g, true, &mix, n_dep);
            pg.n_blobs = nblobs;
            pg.variable_outputs = variable_outputs;
            pg.program(len)
        };
        let reg_pokes = if prop == "C29" && g.chance(1, 3) {
            (0..g.range(1, 4)).map(|_| (g.range(16, 63) as u8, g.word_biased())).collect()
        } else {
            vec![]
        };
        let exhaust = exhaust_some && f.chance(1, 2);
        txs.push(ScriptSpec {
            script,
            data_tail: {
                let n = g.below(24) as usize;
                g.bytes(n)
            },
            gas_limit: if flood { 3_000_000 } else { gas_limit(&mut g, &mut f, exhaust) },
            max_fee,
            tip: if g.chance(1, 5) { g.below(100) } else { 0 },
            coins,
            messages,
            input_contracts,
            outputs,
            reg_pokes,
            two_owners: ncoins >= 2 && g.chance(1, 5),
        });
    }

    // plan
    let mut plan = Plan { step_cap: if tier == Tier::Thorough { 20_000 } else { 6_000 }, ..Default::default() };
    match prop {
        "C31" => {
            plan.replicas.push(Replica::Reused);
            plan.replicas.push(Replica::PooledMemory);
            if faulty {
                for _ in 0..f.range(1, 2) {
                    plan.replicas.push(Replica::FaultRetry {
                        tx: f.below(ntx as u64) as u8,
                        at_call: if f.bool() { f.below(6) } else { f.below(60) } as u32,
                        crash: f.bool(),
                        reused: s.bool(),
                    });
                }
                if f.chance(1, 2) {
                    plan.replicas.push(Replica::AbandonDebug { tx: f.below(ntx as u64) as u8, steps: f.below(80) as u32 });
                }
            }
        }
        "C32" => {
            plan.replicas.push(Replica::Stepped);
            for _ in 0..s.range(1, 3) {
                let np = s.range(1, 6);
                let points = (0..np)
                    .map(|_| {
                        let slot = if s.chance(1, 2) { 255u8 } else { s.below(n_dep as u64 + 1) as u8 };
                        let idx = if s.chance(2, 3) { s.below(24) } else { s.below(90) } as u32;
                        (slot, idx)
                    })
                    .collect();
                plan.replicas.push(Replica::Breakpoints { points, reused: s.bool() });
            }
        }
        _ => {}
    }
    plan.reuse_vm = s.bool();
    if prop == "C29" {
        for t in 0..ntx {
            if flood_run || s.below(4) == 0 {
                plan.plain.push(t as u8);
            }
        }
    }
    if matches!(prop, "C33") {
        for _ in 0..s.below(4) {
            plan.evictions.push((s.below(ntx as u64) as u8, s.below(300) as u32, s.below(3) as u8));
        }
    }
    if faulty && matches!(prop, "C27" | "C28" | "C29" | "C33") {
        for _ in 0..f.below(3) {
            plan.observer_faults.push((f.below(ntx as u64) as u8, if f.bool() { f.below(8) } else { f.below(80) } as u32));
        }
    }

    Scenario {
        gas,
        gas_price,
        height,
        contracts,
        blobs,
        keys: keys.iter().map(hex::encode).collect(),
        txs,
        plan,
        base_nonzero,
    }
}
