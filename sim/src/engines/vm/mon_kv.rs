//! C33 — contract storage instructions behave like a key-value map. A plain map per contract is
//! the reference; expectations are computed from the pre-state of every storage instruction and
//! compared with registers, destination memory and the persistent table after it.

use super::asm::*;
use super::exec::{Pre, Vm};
use super::observer::*;
use crate::kernel::Stats;
use fuel_asm::{Opcode as O, PanicReason as P};
use std::collections::BTreeMap;

pub type Kv = BTreeMap<([u8; 32], [u8; 32]), Vec<u8>>;

/// Panics the KV model does not predict (memory, gas, register, context): allowed any time.
fn outside_model(p: P) -> bool {
    matches!(
        p,
        P::OutOfGas
            | P::MemoryOverflow
            | P::UninitalizedMemoryAccess
            | P::MemoryOwnership
            | P::ReservedRegisterNotWritable
            | P::ExpectedInternalContext
            | P::MemoryWriteOverlap
    )
}

#[derive(Debug, Clone)]
struct Effects {
    /// (register, value)
    regs: Vec<(u8, u64)>,
    /// (address, bytes) written to memory
    mem: Vec<(u64, Vec<u8>)>,
    /// (key, Some(value) | None = removed)
    writes: Vec<([u8; 32], Option<Vec<u8>>)>,
}

#[derive(Debug, Clone)]
enum Expect {
    Done(Effects),
    Panic(P),
    /// The model cannot tell (operands unreadable, …): only "outside model" panics or success.
    Unknown,
}

pub struct KvMonitor {
    pub kv: Kv,
    pub max_slot: u64,
    expect: Option<(O, [u8; 32], Expect)>,
    /// (tx step) eviction points of the slot cache: (step, mode)
    pub evictions: Vec<(u32, u8)>,
    pub legacy_read_of_dynamic: bool,
    pub range_clear_mixed_cache: bool,
    dyn_written: std::collections::BTreeSet<([u8; 32], [u8; 32])>,
}

impl KvMonitor {
    pub fn new(kv: Kv, max_slot: u64) -> Self {
        KvMonitor { kv, max_slot, expect: None, evictions: Vec::new(), legacy_read_of_dynamic: false, range_clear_mixed_cache: false, dyn_written: Default::default() }
    }
}

fn add_key(k: &[u8; 32], i: u64) -> Option<[u8; 32]> {
    let mut out = *k;
    let mut carry = i as u128;
    for b in (0..32).rev() {
        if carry == 0 {
            break;
        }
        let s = out[b] as u128 + (carry & 0xff);
        out[b] = s as u8;
        carry = (carry >> 8) + (s >> 8);
    }
    if carry != 0 { None } else { Some(out) }
}

fn read32(vm: &Vm, addr: u64) -> Option<[u8; 32]> {
    vm.memory().read(addr, 32usize).ok().map(|b| {
        let mut k = [0u8; 32];
        k.copy_from_slice(b);
        k
    })
}

impl Monitor for KvMonitor {
    fn before(&mut self, vm: &mut Vm, pre: &Pre) {
        self.expect = None;
        // buggify: evict the per-transaction slot cache between two instructions
        for (s, mode) in &self.evictions {
            if *s as u64 == pre.step {
                let cache = vm.bench_storage_slot_cache_mut();
                if *mode == 0 || cache.is_empty() {
                    cache.clear();
                } else {
                    let k = cache.keys().nth((*mode as usize) % cache.len()).cloned();
                    if let Some(k) = k {
                        cache.remove(&k);
                    }
                }
            }
        }
        let Some(word) = pre.word else { return };
        if !valid(word) {
            return;
        }
        let Some(op) = opcode_of(word) else { return };
        if !matches!(op, O::SRW | O::SRWQ | O::SWW | O::SWWQ | O::SCWQ | O::SCLR | O::SRDD | O::SRDI | O::SWRD | O::SWRI | O::SUPD | O::SUPI | O::SPLD) {
            return;
        }
        let d = dec(word);
        let r = |x: u8| pre.regs[x as usize & 63];
        let fp = pre.regs[FP as usize];
        if fp == 0 {
            self.expect = Some((op, [0; 32], Expect::Panic(P::ExpectedInternalContext)));
            return;
        }
        let Some(cid) = read32(vm, fp) else { return };
        if [d.a, d.b, d.c, d.d].iter().any(|x| *x == CGAS || *x == GGAS) {
            self.expect = Some((op, cid, Expect::Unknown));
            return;
        }
        let get = |kv: &Kv, k: &[u8; 32]| kv.get(&(cid, *k)).cloned();
        let key_ptr = match op {
            O::SRW | O::SRWQ => r(d.c),
            O::SRDD | O::SRDI | O::SPLD => r(d.b),
            _ => r(d.a),
        };
        let Some(key) = read32(vm, key_ptr) else {
            self.expect = Some((op, cid, Expect::Unknown));
            return;
        };
        let mut eff = Effects { regs: vec![], mem: vec![], writes: vec![] };
        let exp = match op {
            O::SRW => {
                if d.a == d.b {
                    Expect::Panic(P::ReservedRegisterNotWritable)
                } else {
                    match get(&self.kv, &key) {
                        Some(v) => {
                            let off = d.d as usize * 8;
                            if v.len() < off + 8 {
                                Expect::Panic(P::StorageOutOfBounds)
                            } else {
                                if self.dyn_written.contains(&(cid, key)) && v.len() != 32 {
                                    self.legacy_read_of_dynamic = true;
                                }
                                eff.regs.push((d.a, u64::from_be_bytes(v[off..off + 8].try_into().unwrap())));
                                eff.regs.push((d.b, 1));
                                Expect::Done(eff)
                            }
                        }
                        None => {
                            eff.regs.push((d.a, 0));
                            eff.regs.push((d.b, 0));
                            Expect::Done(eff)
                        }
                    }
                }
            }
            O::SRWQ => {
                let n = r(d.d);
                let mut all = true;
                let mut out = Expect::Unknown;
                let mut ok = true;
                if n > 64 {
                    ok = false;
                }
                for i in 0..n.min(64) {
                    let Some(k) = add_key(&key, i) else {
                        out = Expect::Panic(P::TooManySlots);
                        ok = false;
                        break;
                    };
                    match get(&self.kv, &k) {
                        Some(v) => {
                            if v.len() != 32 {
                                if self.dyn_written.contains(&(cid, k)) {
                                    self.legacy_read_of_dynamic = true;
                                }
                                out = Expect::Panic(P::StorageOutOfBounds);
                                ok = false;
                                break;
                            }
                            eff.mem.push((r(d.a).saturating_add(i * 32), v));
                        }
                        None => {
                            all = false;
                            eff.mem.push((r(d.a).saturating_add(i * 32), vec![0u8; 32]));
                        }
                    }
                }
                if ok {
                    eff.regs.push((d.b, all as u64));
                    Expect::Done(eff)
                } else {
                    out
                }
            }
            O::SWW => {
                let mut v = vec![0u8; 32];
                v[..8].copy_from_slice(&r(d.c).to_be_bytes());
                eff.regs.push((d.b, get(&self.kv, &key).is_none() as u64));
                eff.writes.push((key, Some(v)));
                Expect::Done(eff)
            }
            O::SWWQ => {
                let n = r(d.d);
                let mut unset = 0u64;
                let mut out = None;
                if n > 64 {
                    out = Some(Expect::Unknown);
                }
                for i in 0..n.min(64) {
                    let Some(k) = add_key(&key, i) else {
                        out = Some(Expect::Panic(P::TooManySlots));
                        break;
                    };
                    // earlier writes of this very instruction are visible to later slots
                    let existing = eff.writes.iter().rev().find(|w| w.0 == k).map(|w| w.1.is_some()).unwrap_or_else(|| get(&self.kv, &k).is_some());
                    if !existing {
                        unset += 1;
                    }
                    match vm.memory().read(r(d.c).saturating_add(i * 32), 32usize) {
                        Ok(b) => eff.writes.push((k, Some(b.to_vec()))),
                        Err(_) => {
                            out = Some(Expect::Unknown);
                            break;
                        }
                    }
                }
                match out {
                    Some(o) => o,
                    None => {
                        eff.regs.push((d.b, unset));
                        Expect::Done(eff)
                    }
                }
            }
            O::SCWQ | O::SCLR => {
                let n = if op == O::SCWQ { r(d.c) } else { r(d.b) };
                let mut all = true;
                let mut out = None;
                if n > 4096 {
                    out = Some(Expect::Unknown);
                }
                if n > 1 && add_key(&key, n.min(4096) - 1).is_none() {
                    out = Some(Expect::Panic(P::TooManySlots));
                } else {
                    for i in 0..n.min(4096) {
                        let Some(k) = add_key(&key, i) else { break };
                        if get(&self.kv, &k).is_none() {
                            all = false;
                        }
                        eff.writes.push((k, None));
                    }
                }
                match out {
                    Some(o) => o,
                    None => {
                        if op == O::SCWQ {
                            eff.regs.push((d.b, all as u64));
                        }
                        Expect::Done(eff)
                    }
                }
            }
            O::SRDD | O::SRDI => {
                let (off, len) = (r(d.c), if op == O::SRDD { r(d.d) } else { d.d as u64 });
                match get(&self.kv, &key) {
                    Some(v) => {
                        let end = off.checked_add(len);
                        match end {
                            Some(e) if e as u128 <= v.len() as u128 => {
                                eff.regs.push((ERR, 0));
                                if len > 0 {
                                    eff.mem.push((r(d.a), v[off as usize..e as usize].to_vec()));
                                }
                                Expect::Done(eff)
                            }
                            _ => Expect::Panic(P::StorageOutOfBounds),
                        }
                    }
                    None => {
                        eff.regs.push((ERR, 1));
                        Expect::Done(eff)
                    }
                }
            }
            O::SWRD | O::SWRI => {
                let len = if op == O::SWRD { r(d.c) } else { d.imm12 as u64 };
                if len > self.max_slot {
                    Expect::Panic(P::StorageOutOfBounds)
                } else {
                    match vm.memory().read(r(d.b), len as usize) {
                        Ok(b) => {
                            eff.writes.push((key, Some(b.to_vec())));
                            Expect::Done(eff)
                        }
                        Err(_) => Expect::Unknown,
                    }
                }
            }
            O::SUPD | O::SUPI => {
                let (off, len) = (r(d.c), if op == O::SUPD { r(d.d) } else { d.d as u64 });
                let mut v = get(&self.kv, &key).unwrap_or_default();
                let off = if off == u64::MAX { v.len() as u64 } else { off };
                if off > v.len() as u64 {
                    Expect::Panic(P::StorageOutOfBounds)
                } else {
                    let after = off.saturating_add(len);
                    if after > self.max_slot {
                        Expect::Panic(P::StorageOutOfBounds)
                    } else {
                        match vm.memory().read(r(d.b), len as usize) {
                            Ok(b) => {
                                if after as usize > v.len() {
                                    v.resize(after as usize, 0);
                                }
                                v[off as usize..after as usize].copy_from_slice(b);
                                eff.writes.push((key, Some(v)));
                                Expect::Done(eff)
                            }
                            Err(_) => Expect::Unknown,
                        }
                    }
                }
            }
            O::SPLD => {
                match get(&self.kv, &key) {
                    Some(v) => {
                        eff.regs.push((ERR, 0));
                        eff.regs.push((d.a, v.len() as u64));
                    }
                    None => {
                        eff.regs.push((ERR, 1));
                        eff.regs.push((d.a, 0));
                    }
                }
                Expect::Done(eff)
            }
            _ => Expect::Unknown,
        };
        // probe: a range clear that crosses cached and uncached slots
        if matches!(op, O::SCWQ | O::SCLR) {
            if let Expect::Done(e) = &exp {
                let cache = vm.bench_storage_slot_cache();
                let cid_t = fuel_types::ContractId::new(cid);
                let hits = e.writes.iter().filter(|w| cache.contains_key(&(cid_t, fuel_types::Bytes32::new(w.0)))).count();
                if hits > 0 && hits < e.writes.len() {
                    self.range_clear_mixed_cache = true;
                }
            }
        }
        self.expect = Some((op, cid, exp));
    }

    fn after(&mut self, vm: &mut Vm, info: &StepInfo, stats: &mut Stats) -> Option<Viol> {
        let Some((op, cid, exp)) = self.expect.take() else { return None };
        if info.errored {
            return None;
        }
        let step = info.pre.step;
        let opn = format!("{op:?}");
        let got_panic = info.panic.filter(|_| info.own_panic).map(|p| p.0);
        match (&exp, got_panic) {
            (_, Some(p)) if outside_model(p) => {
                stats.inc("probe.storage_op_outside_model_panic");
                return None;
            }
            (Expect::Unknown, _) => {
                stats.inc("probe.unmodelled_storage_step");
                // keep the model in step with reality for the touched contract if it completed
                if got_panic.is_none() {
                    resync(&mut self.kv, vm, &cid);
                }
                return None;
            }
            (Expect::Panic(want), Some(p)) => {
                // outside a contract every storage instruction must panic; which of several
                // applicable reasons comes first is not the property's business
                if p != *want && *want != P::ExpectedInternalContext {
                    return Some(("storage-panic".into(), format!("storage-panic:{opn}:{p:?}"), format!("step {step}: {opn} panicked with {p:?}, the key-value model expects {want:?}")));
                }
                return None;
            }
            (Expect::Panic(want), None) => {
                return Some(("storage-panic".into(), format!("storage-panic:{opn}:missing"), format!("step {step}: {opn} completed although the key-value model expects a {want:?} panic")));
            }
            (Expect::Done(_), Some(p)) => {
                return Some(("storage-panic".into(), format!("storage-panic:{opn}:{p:?}"), format!("step {step}: {opn} panicked with {p:?} although the key-value model predicts success")));
            }
            (Expect::Done(eff), None) => {
                for (r, v) in &eff.regs {
                    let got = info.post[*r as usize & 63];
                    if got != *v {
                        return Some((
                            "storage-read-value".into(),
                            format!("storage-read-value:{opn}:reg"),
                            format!("step {step}: {opn} left register {r} = {got}, a plain key-value map gives {v}"),
                        ));
                    }
                }
                for (addr, bytes) in &eff.mem {
                    let got = vm.memory().read(*addr, bytes.len()).map(|b| b.to_vec()).unwrap_or_default();
                    if got != *bytes {
                        return Some((
                            "storage-read-value".into(),
                            format!("storage-read-value:{opn}:memory"),
                            format!("step {step}: {opn} wrote {} to memory at {addr}, a plain key-value map gives {}", hex::encode(&got[..got.len().min(40)]), hex::encode(&bytes[..bytes.len().min(40)])),
                        ));
                    }
                }
                for (k, v) in &eff.writes {
                    match v {
                        Some(v) => {
                            if matches!(op, O::SWRD | O::SWRI | O::SUPD | O::SUPI) {
                                self.dyn_written.insert((cid, *k));
                            }
                            self.kv.insert((cid, *k), v.clone());
                        }
                        None => {
                            self.kv.remove(&(cid, *k));
                        }
                    }
                }
            }
        }
        // the persistent table equals the model (whole table, all contracts)
        if let Some(v) = compare_table(&self.kv, vm, step, &opn) {
            return Some(v);
        }
        stats.inc("probe.storage_step_checked");
        None
    }
}

pub fn table_of(vm: &Vm) -> Kv {
    let mut t = Kv::new();
    for (k, v) in vm.as_ref().inner.all_contract_state() {
        let c: [u8; 32] = (*k.contract_id()).into();
        let s: [u8; 32] = (*k.state_key()).into();
        t.insert((c, s), v.as_ref().to_vec());
    }
    t
}

fn resync(kv: &mut Kv, vm: &Vm, cid: &[u8; 32]) {
    let t = table_of(vm);
    kv.retain(|k, _| &k.0 != cid);
    for (k, v) in t {
        if &k.0 == cid {
            kv.insert(k, v);
        }
    }
}

pub fn compare_table(kv: &Kv, vm: &Vm, step: u64, opn: &str) -> Option<Viol> {
    let t = table_of(vm);
    if &t != kv {
        let diff = t
            .iter()
            .find(|(k, v)| kv.get(*k) != Some(*v))
            .map(|(k, v)| format!("slot {} holds {} bytes, model {:?}", hex::encode(&k.1[24..]), v.len(), kv.get(k).map(|x| x.len())))
            .or_else(|| kv.iter().find(|(k, _)| !t.contains_key(*k)).map(|(k, v)| format!("slot {} ({} bytes) missing from storage", hex::encode(&k.1[24..]), v.len())))
            .unwrap_or_default();
        return Some((
            "storage-table-differs".into(),
            format!("storage-table-differs:{opn}"),
            format!("step {step}: after {opn} the persistent ContractsState table differs from the key-value model: {diff}"),
        ));
    }
    None
}
