//! C07 — compressor node, decompressor node, fault plan, oracle.

use super::exec::{block_on, poll_n, run_interleaved, Task};
use super::registry::*;
use super::txgen::Pools;
use crate::kernel::rng::fnv1a;
use crate::kernel::*;
use fuel_compression::{CompressibleBy, DecompressibleBy};
use fuel_tx::field::{InputContract, Inputs, OutputContract, Outputs, ReceiptsRoot, TxPointer as TxPointerField, Witnesses};
use fuel_tx::{Cacheable, CompressedTransaction, Input, Output, Transaction, UniqueIdentifier, Witness};
use fuel_types::canonical::{Deserialize as _, Serialize as _};
use fuel_types::{Bytes32, ChainId};
use serde::{Deserialize, Serialize};
use serde_json::{json, Value};
use std::collections::{BTreeMap, BTreeSet, VecDeque};
use std::rc::Rc;

#[derive(Debug, Clone, Serialize, Deserialize, PartialEq)]
pub struct TxItem {
    /// Canonical bytes of the `Transaction`, hex (independent of the serde impls the compressed
    /// form travels through).
    pub tx: String,
    /// Indices of message inputs that use the `MessageData*` variant with empty data (the
    /// canonical form cannot tell them from `MessageCoin*`; the public constructors allow them).
    #[serde(default)]
    pub data_variant: Vec<u16>,
    /// Compute the cached metadata (cached id) before compressing.
    #[serde(default)]
    pub precompute: bool,
    /// Compress the transaction a second time right after it was acknowledged.
    #[serde(default)]
    pub recheck: bool,
}

#[derive(Debug, Clone, Serialize, Deserialize, PartialEq)]
pub enum FaultKind {
    /// Registry call number `k` of the attempt fails (after its write was applied when
    /// `after_effect`).
    FailCall { k: u32, after_effect: bool },
    /// The compression future is dropped after `polls` polls if it is still pending then.
    Cancel { polls: u32 },
}

#[derive(Debug, Clone, Serialize, Deserialize, PartialEq)]
pub struct Fault {
    /// Global number of the compression attempt the fault is armed for.
    pub attempt: u32,
    pub kind: FaultKind,
    /// The transaction is retried after this many other transactions.
    pub requeue: u8,
}

#[derive(Debug, Clone, Serialize, Deserialize, PartialEq)]
pub struct DFault {
    pub block: u32,
    /// Registry call number `k` of the block's (interleaved) decompression fails.
    pub k: u32,
}

#[derive(Debug, Clone, Serialize, Deserialize, PartialEq)]
pub struct Prefill {
    pub space: u8,
    pub key: u32,
    pub value: String,
}

#[derive(Debug, Clone, Serialize, Deserialize)]
pub struct Scenario {
    pub chain_id: u64,
    pub default_shortcut: bool,
    /// Per keyspace: the write cursor starts at MAX_WRITABLE - d.
    pub start_below_max: [u32; 5],
    pub prefill: Vec<Prefill>,
    pub txs: Vec<TxItem>,
    /// Block b holds `block_sizes[b % len]` (1–4) transactions; a mint closes its block.
    pub block_sizes: Vec<u8>,
    /// Block b is decompressed after `delays[b % len]` further blocks were compressed.
    pub delays: Vec<u8>,
    pub faults: Vec<Fault>,
    pub dfaults: Vec<DFault>,
    /// `Pending` counts of registry calls while compressing / decompressing (cyclic).
    pub pend: Vec<u8>,
    pub dpend: Vec<u8>,
    /// Poll schedule of concurrent decompressions (cyclic).
    pub sched: Vec<u8>,
    pub second_pass: bool,
}

pub struct Da;

const KINDS: [&str; 6] = ["script", "create", "mint", "upgrade", "upload", "blob"];

fn kind_of(t: &Transaction) -> usize {
    match t {
        Transaction::Script(_) => 0,
        Transaction::Create(_) => 1,
        Transaction::Mint(_) => 2,
        Transaction::Upgrade(_) => 3,
        Transaction::Upload(_) => 4,
        Transaction::Blob(_) => 5,
    }
}

fn inputs_of(t: &Transaction) -> &[Input] {
    match t {
        Transaction::Script(x) => x.inputs(),
        Transaction::Create(x) => x.inputs(),
        Transaction::Mint(_) => &[],
        Transaction::Upgrade(x) => x.inputs(),
        Transaction::Upload(x) => x.inputs(),
        Transaction::Blob(x) => x.inputs(),
    }
}

fn outputs_of(t: &Transaction) -> &[Output] {
    match t {
        Transaction::Script(x) => x.outputs(),
        Transaction::Create(x) => x.outputs(),
        Transaction::Mint(_) => &[],
        Transaction::Upgrade(x) => x.outputs(),
        Transaction::Upload(x) => x.outputs(),
        Transaction::Blob(x) => x.outputs(),
    }
}

fn witnesses_of(t: &Transaction) -> &[Witness] {
    match t {
        Transaction::Script(x) => x.witnesses(),
        Transaction::Create(x) => x.witnesses(),
        Transaction::Mint(_) => &[],
        Transaction::Upgrade(x) => x.witnesses(),
        Transaction::Upload(x) => x.witnesses(),
        Transaction::Blob(x) => x.witnesses(),
    }
}

fn inputs_mut_of(t: &mut Transaction) -> Option<&mut Vec<Input>> {
    match t {
        Transaction::Script(x) => Some(x.inputs_mut()),
        Transaction::Create(x) => Some(x.inputs_mut()),
        Transaction::Mint(_) => None,
        Transaction::Upgrade(x) => Some(x.inputs_mut()),
        Transaction::Upload(x) => Some(x.inputs_mut()),
        Transaction::Blob(x) => Some(x.inputs_mut()),
    }
}

fn outputs_mut_of(t: &mut Transaction) -> Option<&mut Vec<Output>> {
    match t {
        Transaction::Script(x) => Some(x.outputs_mut()),
        Transaction::Create(x) => Some(x.outputs_mut()),
        Transaction::Mint(_) => None,
        Transaction::Upgrade(x) => Some(x.outputs_mut()),
        Transaction::Upload(x) => Some(x.outputs_mut()),
        Transaction::Blob(x) => Some(x.outputs_mut()),
    }
}

fn witnesses_mut_of(t: &mut Transaction) -> Option<&mut Vec<Witness>> {
    match t {
        Transaction::Script(x) => Some(x.witnesses_mut()),
        Transaction::Create(x) => Some(x.witnesses_mut()),
        Transaction::Mint(_) => None,
        Transaction::Upgrade(x) => Some(x.witnesses_mut()),
        Transaction::Upload(x) => Some(x.witnesses_mut()),
        Transaction::Blob(x) => Some(x.witnesses_mut()),
    }
}

/// Simpler versions of one transaction (for the minimiser): fewer inputs / outputs / witnesses.
fn simpler_txs(item: &TxItem) -> Vec<TxItem> {
    let Some(t) = decode_tx(item) else { return Vec::new() };
    let mut out = Vec::new();
    let mut push = |f: &dyn Fn(&mut Transaction) -> bool| {
        let mut c = t.clone();
        if f(&mut c) {
            out.push(encode_tx(&c, item.precompute, item.recheck));
        }
    };
    let (ni, no, nw) = (inputs_of(&t).len(), outputs_of(&t).len(), witnesses_of(&t).len());
    if ni > 0 {
        push(&|c| inputs_mut_of(c).map(|v| v.clear()).is_some());
    }
    if no > 0 {
        push(&|c| outputs_mut_of(c).map(|v| v.clear()).is_some());
    }
    if nw > 0 {
        push(&|c| witnesses_mut_of(c).map(|v| v.clear()).is_some());
    }
    if ni > 1 {
        for i in (0..ni).rev() {
            push(&|c| inputs_mut_of(c).map(|v| drop(v.remove(i))).is_some());
        }
    }
    if no > 1 {
        for i in (0..no).rev() {
            push(&|c| outputs_mut_of(c).map(|v| { v.remove(i); }).is_some());
        }
    }
    if nw > 1 {
        for i in (0..nw).rev() {
            push(&|c| witnesses_mut_of(c).map(|v| drop(v.remove(i))).is_some());
        }
    }
    out
}

fn decode_tx(item: &TxItem) -> Option<Transaction> {
    let bytes = hex::decode(&item.tx).ok()?;
    let mut t = Transaction::from_bytes(&bytes).ok()?;
    if !item.data_variant.is_empty() {
        let ins = inputs_mut_of(&mut t)?;
        for i in &item.data_variant {
            let slot = ins.get_mut(*i as usize)?;
            let new = match &*slot {
                Input::MessageCoinSigned(m) => Input::message_data_signed(m.sender, m.recipient, m.amount, m.nonce, m.witness_index, vec![]),
                Input::MessageCoinPredicate(m) => Input::message_data_predicate(
                    m.sender,
                    m.recipient,
                    m.amount,
                    m.nonce,
                    m.predicate_gas_used,
                    vec![],
                    m.predicate.to_vec(),
                    m.predicate_data.to_vec(),
                ),
                _ => return None,
            };
            *slot = new;
        }
    }
    Some(t)
}

fn encode_tx(t: &Transaction, precompute: bool, recheck: bool) -> TxItem {
    let data_variant = inputs_of(t)
        .iter()
        .enumerate()
        .filter(|(_, i)| match i {
            Input::MessageDataSigned(m) => m.data.is_empty(),
            Input::MessageDataPredicate(m) => m.data.is_empty(),
            _ => false,
        })
        .map(|(n, _)| n as u16)
        .collect();
    TxItem { tx: hex::encode(t.to_bytes()), data_variant, precompute, recheck }
}

/// Register what the chain knows about the inputs of `t`. False: `t` contradicts the chain.
fn learn_chain(chain: &mut Chain, t: &Transaction) -> bool {
    let mut ok = true;
    for i in inputs_of(t) {
        match i {
            Input::CoinSigned(c) => ok &= chain.add_coin(c.utxo_id, CoinInfo { owner: c.owner, amount: c.amount, asset_id: c.asset_id }),
            Input::CoinPredicate(c) => ok &= chain.add_coin(c.utxo_id, CoinInfo { owner: c.owner, amount: c.amount, asset_id: c.asset_id }),
            Input::Contract(_) => {}
            Input::MessageCoinSigned(m) => {
                ok &= chain.add_message(m.nonce, MessageInfo { sender: m.sender, recipient: m.recipient, amount: m.amount, data: vec![] })
            }
            Input::MessageCoinPredicate(m) => {
                ok &= chain.add_message(m.nonce, MessageInfo { sender: m.sender, recipient: m.recipient, amount: m.amount, data: vec![] })
            }
            Input::MessageDataSigned(m) => {
                ok &= chain.add_message(m.nonce, MessageInfo { sender: m.sender, recipient: m.recipient, amount: m.amount, data: m.data.to_vec() })
            }
            Input::MessageDataPredicate(m) => {
                ok &= chain.add_message(m.nonce, MessageInfo { sender: m.sender, recipient: m.recipient, amount: m.amount, data: m.data.to_vec() })
            }
        }
    }
    ok
}

// ---------------------------------------------------------------------------------------------
// expected(t): t with exactly the `compress(skip)` sites defaulted / restored from the chain.
// Written field by field against the attribute sites in fuel-tx/src/transaction/types/** —
// deliberately not via `prepare_sign`.

fn exp_in_contract(c: &mut fuel_tx::input::contract::Contract) {
    c.utxo_id = Default::default(); // input/contract.rs: compress(skip)
    c.balance_root = Default::default(); // compress(skip)
    c.state_root = Default::default(); // compress(skip)
    c.tx_pointer = Default::default(); // compress(skip)
}

fn exp_out_contract(c: &mut fuel_tx::output::contract::Contract) {
    c.balance_root = Default::default(); // output/contract.rs: compress(skip)
    c.state_root = Default::default(); // compress(skip)
}

fn exp_inputs(ins: &mut [Input], chain: &Chain) -> Option<()> {
    for i in ins {
        match i {
            Input::CoinSigned(c) => {
                let info = &chain.coins.get(&c.utxo_id)?.1;
                c.owner = info.owner; // skip, restored
                c.amount = info.amount; // skip, restored
                c.asset_id = info.asset_id; // skip, restored
                c.tx_pointer = Default::default(); // skip
            }
            Input::CoinPredicate(c) => {
                let info = &chain.coins.get(&c.utxo_id)?.1;
                c.owner = info.owner;
                c.amount = info.amount;
                c.asset_id = info.asset_id;
                c.tx_pointer = Default::default();
            }
            Input::Contract(c) => exp_in_contract(c),
            Input::MessageCoinSigned(m) => {
                let info = chain.messages.get(&m.nonce)?;
                m.sender = info.sender;
                m.recipient = info.recipient;
                m.amount = info.amount;
            }
            Input::MessageCoinPredicate(m) => {
                let info = chain.messages.get(&m.nonce)?;
                m.sender = info.sender;
                m.recipient = info.recipient;
                m.amount = info.amount;
            }
            Input::MessageDataSigned(m) => {
                let info = chain.messages.get(&m.nonce)?;
                m.sender = info.sender;
                m.recipient = info.recipient;
                m.amount = info.amount;
                m.data = info.data.clone().into();
            }
            Input::MessageDataPredicate(m) => {
                let info = chain.messages.get(&m.nonce)?;
                m.sender = info.sender;
                m.recipient = info.recipient;
                m.amount = info.amount;
                m.data = info.data.clone().into();
            }
        }
    }
    Some(())
}

fn exp_outputs(outs: &mut [Output]) {
    for o in outs {
        match o {
            Output::Coin { .. } | Output::ContractCreated { .. } => {}
            Output::Contract(c) => exp_out_contract(c),
            Output::Change { amount, .. } => *amount = 0, // output.rs: compress(skip)
            Output::Variable { to, amount, asset_id } => {
                *to = Default::default(); // compress(skip)
                *amount = 0; // compress(skip)
                *asset_id = Default::default(); // compress(skip)
            }
        }
    }
}

fn expected(t: &Transaction, chain: &Chain) -> Option<Transaction> {
    let mut e = t.clone();
    match &mut e {
        Transaction::Script(x) => {
            *x.receipts_root_mut() = Bytes32::zeroed(); // script.rs: compress(skip)
            exp_inputs(x.inputs_mut(), chain)?;
            exp_outputs(x.outputs_mut());
        }
        Transaction::Create(x) => {
            exp_inputs(x.inputs_mut(), chain)?;
            exp_outputs(x.outputs_mut());
        }
        Transaction::Mint(m) => {
            // tx_pointer: compress(skip), restored from the block position held by the context.
            exp_in_contract(m.input_contract_mut());
            exp_out_contract(m.output_contract_mut());
        }
        Transaction::Upgrade(x) => {
            exp_inputs(x.inputs_mut(), chain)?;
            exp_outputs(x.outputs_mut());
        }
        Transaction::Upload(x) => {
            exp_inputs(x.inputs_mut(), chain)?;
            exp_outputs(x.outputs_mut());
        }
        Transaction::Blob(x) => {
            exp_inputs(x.inputs_mut(), chain)?;
            exp_outputs(x.outputs_mut());
        }
    }
    Some(e)
}

fn short<T: std::fmt::Debug>(x: &T) -> String {
    let s = format!("{x:?}");
    if s.chars().count() > 700 { format!("{}… ({} chars)", s.chars().take(700).collect::<String>(), s.len()) } else { s }
}

/// Where do two transactions of the same kind differ (first site)?
fn first_difference(want: &Transaction, got: &Transaction) -> String {
    let (wi, gi) = (inputs_of(want), inputs_of(got));
    if wi.len() != gi.len() {
        return format!("{} inputs expected, {} decompressed", wi.len(), gi.len());
    }
    for (n, (a, b)) in wi.iter().zip(gi).enumerate() {
        if a != b {
            return format!("inputs[{n}]: expected {} / decompressed {}", short(a), short(b));
        }
    }
    let (wo, go) = (outputs_of(want), outputs_of(got));
    if wo.len() != go.len() {
        return format!("{} outputs expected, {} decompressed", wo.len(), go.len());
    }
    for (n, (a, b)) in wo.iter().zip(go).enumerate() {
        if a != b {
            return format!("outputs[{n}]: expected {} / decompressed {}", short(a), short(b));
        }
    }
    let (ww, gw) = (witnesses_of(want), witnesses_of(got));
    if ww != gw {
        return format!("witnesses: expected {} / decompressed {}", short(&ww), short(&gw));
    }
    format!("body or policies: expected {} / decompressed {}", short(want), short(got))
}

/// The round-trip oracle for one acknowledged transaction. True: an unlisted violation.
fn judge(idx: usize, t: &Transaction, d: &Transaction, chain: &Chain, chain_id: &ChainId, ctx: &mut RunCtx) -> bool {
    let kind = KINDS[kind_of(t)];
    if kind_of(t) != kind_of(d) {
        return ctx.violate(
            "kind-changed",
            &format!("kind-changed:{kind}"),
            format!("tx {idx}: a {kind} transaction decompressed as {}", KINDS[kind_of(d)]),
        );
    }
    if witnesses_of(t) != witnesses_of(d) {
        return ctx.violate(
            "witness-changed",
            &format!("witness-changed:{kind}"),
            format!("tx {idx} ({kind}): witnesses {} came back as {}", short(&witnesses_of(t)), short(&witnesses_of(d))),
        );
    }
    let (ti, di) = (inputs_of(t), inputs_of(d));
    for (n, (a, b)) in ti.iter().zip(di).enumerate() {
        if a.predicate_gas_used() != b.predicate_gas_used() {
            return ctx.violate(
                "predicate-gas-lost",
                &format!("predicate-gas-lost:{kind}"),
                format!(
                    "tx {idx} ({kind}) inputs[{n}]: predicate_gas_used {:?} came back as {:?} (malleable, but not a skipped field)",
                    a.predicate_gas_used(),
                    b.predicate_gas_used()
                ),
            );
        }
    }
    let Some(want) = expected(t, chain) else {
        ctx.stats.inc("probe.unmodelled_missing_chain_data");
        return false;
    };
    if *d != want || d.to_bytes() != want.to_bytes() {
        return ctx.violate(
            "field-mismatch",
            &format!("field-mismatch:{kind}"),
            format!("tx {idx} ({kind}): decompressed transaction differs from the original with skipped fields defaulted/restored — {}", first_difference(&want, d)),
        );
    }
    let (a, b) = (t.id(chain_id), d.id(chain_id));
    if a != b {
        return ctx.violate(
            "id-mismatch",
            &format!("id-mismatch:{kind}"),
            format!("tx {idx} ({kind}): id {a} before compression, {b} after decompression"),
        );
    }
    ctx.event("dec", idx as u64, u64::from_le_bytes(b[..8].try_into().unwrap_or([0; 8])));
    false
}

fn flush(c: &Counters, stats: &mut Stats, totals: &mut Totals) {
    let take = |x: &std::cell::Cell<u64>| x.replace(0);
    let (hits, cross, allocs, wraps) = (take(&c.hits), take(&c.cross_tx_hits), take(&c.allocs), take(&c.wraps));
    let (el, ei, ks, dh, pe) = (take(&c.evict_live), take(&c.evict_idle), take(&c.keep_skips), take(&c.default_hits), take(&c.pendings));
    stats.add("probe.key_hit", hits);
    stats.add("probe.key_reuse_cross_tx", cross);
    stats.add("probe.key_alloc", allocs);
    stats.add("probe.cursor_wrap", wraps);
    stats.add("probe.evict_referenced_key", el);
    stats.add("probe.evict_idle_key", ei);
    stats.add("probe.keep_key_skip", ks);
    stats.add("probe.default_key", dh);
    stats.add("probe.pending_polls", pe);
    stats.add("time.registry_calls", c.calls.get() as u64);
    totals.cross += cross;
    totals.wraps += wraps;
    totals.evictions += el + ei;
}

#[derive(Default)]
struct Totals {
    cross: u64,
    wraps: u64,
    evictions: u64,
    faults: u64,
}

struct Acked {
    idx: usize,
    bytes: Vec<u8>,
}

struct Block {
    no: u32,
    snap: RegState,
    items: Vec<Acked>,
    due: u64,
    delayed: bool,
}

type DecResult = Result<Transaction, SimCtxError>;

fn stuck() -> ! {
    // Registry calls pend at most 3 times each; an unfinished future after 2^20 polls is a
    // defect of this executor, not of the code under test.
    panic!("da engine: poll bound hit — executor stuck")
}

/// Decompressor node: one block, all its transactions polled concurrently over one context.
/// Returns true on an unlisted violation.
#[allow(clippy::too_many_arguments)]
fn decompress_block(
    sc: &Scenario,
    block: Block,
    txs: &[Option<Transaction>],
    chain: &Rc<Chain>,
    chain_id: &ChainId,
    latest: &RegState,
    dpend: &Rc<Vec<u8>>,
    totals: &mut Totals,
    ctx: &mut RunCtx,
) -> bool {
    let mut items: Vec<(usize, CompressedTransaction)> = Vec::new();
    for a in &block.items {
        match postcard::from_bytes::<CompressedTransaction>(&a.bytes) {
            Ok(c) => items.push((a.idx, c)),
            Err(e) => {
                return ctx.violate("postcard-roundtrip", "postcard-roundtrip:deserialize", format!("tx {}: stored compressed bytes no longer deserialize: {e}", a.idx));
            }
        }
    }
    let snap_differs = block.delayed && !block.snap.same_content(latest);
    let mut dctx = SimRegistry::new(block.snap, chain.clone());
    let base = block.no as usize * 13;

    // Sequential, fault-free baseline (only needed when there is something to interleave).
    let mut baseline: Vec<Option<DecResult>> = Vec::new();
    if items.len() > 1 {
        dctx.arm(Plan { pend: dpend.clone(), pend_base: base, fail: None }, 0);
        for (_, c) in &items {
            baseline.push(Some(block_on(Transaction::decompress_with(c.clone(), &dctx)).unwrap_or_else(|| stuck())));
        }
        flush(&dctx.c, ctx.stats, totals);
    }

    let fail = sc.dfaults.iter().find(|f| f.block == block.no).map(|f| (f.k, false));
    dctx.arm(Plan { pend: dpend.clone(), pend_base: base, fail }, 0);
    let (outs, switches) = {
        let tasks: Vec<Task<'_, DecResult>> =
            items.iter().map(|(_, c)| Box::pin(Transaction::decompress_with(c.clone(), &dctx)) as Task<'_, DecResult>).collect();
        run_interleaved(tasks, &sc.sched)
    };
    let fired = dctx.c.fired.get();
    flush(&dctx.c, ctx.stats, totals);
    ctx.stats.add("probe.task_switches", switches);
    if items.len() > 1 {
        ctx.stats.inc("probe.concurrent_blocks");
    }

    let mut results: Vec<Transaction> = Vec::new();
    let mut injected_seen = 0;
    for (n, out) in outs.into_iter().enumerate() {
        let idx = items[n].0;
        match out.unwrap_or_else(|| stuck()) {
            Ok(t) => results.push(t),
            Err(e) => {
                let want = fail.map(|(k, _)| SimCtxError::Injected { call: k });
                if fired && Some(&e) == want.as_ref() && injected_seen == 0 {
                    injected_seen += 1;
                    totals.faults += 1;
                    ctx.stats.inc("fault.io_error_read");
                    ctx.event("dec-fault", idx as u64, 0);
                    // The read failed, nothing was acknowledged: the decompressor retries.
                    dctx.arm(Plan { pend: dpend.clone(), pend_base: base + 1, fail: None }, 0);
                    match block_on(Transaction::decompress_with(items[n].1.clone(), &dctx)).unwrap_or_else(|| stuck()) {
                        Ok(t) => {
                            ctx.stats.inc("probe.decompress_retry_ok");
                            results.push(t)
                        }
                        Err(e2) => {
                            return ctx.violate(
                                "retry-not-acknowledged",
                                "retry-not-acknowledged:decompress",
                                format!("tx {idx}: decompression failed with {e2:?} on the fault-free retry after an injected read error"),
                            );
                        }
                    }
                    flush(&dctx.c, ctx.stats, totals);
                } else {
                    return ctx.violate(
                        "decompress-error",
                        &format!("decompress-error:{}", if fired { "wrong-error-under-fault" } else { "without-fault" }),
                        format!("tx {idx} (block {}): decompress_with against the snapshot of its block returned {e:?} (injected: {want:?})", block.no),
                    );
                }
            }
        }
    }
    if fired && injected_seen == 0 {
        return ctx.violate(
            "error-swallowed",
            "error-swallowed:decompress",
            format!("block {}: registry call {:?} failed but every decompress_with returned Ok", block.no, fail.map(|f| f.0)),
        );
    }
    // Independence of the interleaving.
    for (n, b) in baseline.into_iter().enumerate() {
        if let Some(Ok(b)) = b {
            if results.get(n) != Some(&b) {
                return ctx.violate(
                    "interleaving-dependence",
                    "interleaving-dependence:decompress",
                    format!("tx {} (block {}): result of the interleaved decompression differs from the sequential one", items[n].0, block.no),
                );
            }
        } else if let Some(Err(e)) = b {
            return ctx.violate(
                "decompress-error",
                "decompress-error:without-fault",
                format!("tx {} (block {}): sequential decompress_with returned {e:?}", items[n].0, block.no),
            );
        }
    }
    // The round-trip oracle proper.
    for (n, d) in results.iter().enumerate() {
        let idx = items[n].0;
        if let Some(Some(t)) = txs.get(idx) {
            if judge(idx, t, d, chain, chain_id, ctx) {
                return true;
            }
        }
    }
    // Reach probe: would the *latest* registry have given a different answer?
    if snap_differs {
        ctx.stats.inc("probe.delayed_block_registry_moved");
        let mut stale = SimRegistry::new(latest.clone(), chain.clone());
        stale.st.mint_pointer = dctx.st.mint_pointer;
        stale.arm(Plan::default(), 0);
        let mut differs = false;
        for (n, (_, c)) in items.iter().enumerate() {
            match block_on(Transaction::decompress_with(c.clone(), &stale)) {
                Some(Ok(t)) if Some(&t) == results.get(n) => {}
                _ => differs = true,
            }
        }
        if differs {
            ctx.stats.inc("probe.latest_registry_would_be_wrong");
        }
    }
    ctx.stats.inc("time.blocks");
    false
}

impl Engine for Da {
    type Scenario = Scenario;

    fn generate(_prop: &str, rng: &mut Rng, tier: Tier) -> Scenario {
        let mut g = rng.fork("gen");
        let mut f = rng.fork("fault");
        let mut s = rng.fork("sched");
        let faulty = g.below(3) != 0; // a third of all runs has no injected error / cancellation
        let pools = Pools::new(&mut g);
        let n = match g.below(if tier == Tier::Thorough { 4 } else { 6 }) {
            0 => g.range(33, 64),
            1 | 2 => g.range(8, 32),
            _ => g.range(8, 16),
        } as usize;
        // swarm: kind mix
        let mut w = [0u32; 6];
        for (k, x) in w.iter_mut().enumerate() {
            *x = *g.pick(if k == 2 { &[0u32, 1, 1, 2] } else { &[0u32, 1, 3, 6] });
        }
        if w.iter().all(|x| *x == 0) {
            w[g.usize_below(6)] = 1;
        }
        let mut start_below_max = [0u32; 5];
        for d in start_below_max.iter_mut() {
            *d = match g.below(11) {
                0 => 0,
                1 => 1,
                2 => 2,
                3 | 4 => g.range(3, 12) as u32,
                5 | 6 => g.range(12, 60) as u32,
                // a few keys below a carry into the top byte (any top byte) or into the middle byte
                7 | 8 => {
                    let first = (((g.below(255) as u32) << 16) | 0xffff) - g.below(12) as u32;
                    (super::registry::WRITABLE_KEYS - 1).saturating_sub(first)
                }
                9 => {
                    let first = (((g.below(0xffff) as u32) << 8) | 0xff) - g.below(12) as u32;
                    (super::registry::WRITABLE_KEYS - 1).saturating_sub(first)
                }
                _ => 1_000_000,
            };
        }
        let default_shortcut = g.below(4) != 0;
        // A registry that has been running: low keys already hold pool values.
        let mut prefill = Vec::new();
        if g.below(5) != 0 {
            let per_space: [Vec<Vec<u8>>; 5] = [
                pools.addrs.iter().map(|a| a.to_vec()).collect(),
                pools.assets.iter().map(|a| a.to_vec()).collect(),
                pools.contracts.iter().map(|a| a.to_vec()).collect(),
                pools.scripts.clone(),
                pools.preds.clone(),
            ];
            for (sp, mut vals) in per_space.into_iter().enumerate() {
                g.shuffle(&mut vals);
                let take = g.usize_below(vals.len() + 1);
                let stride = *g.pick(&[1u32, 1, 2]);
                for (j, v) in vals.into_iter().take(take).enumerate() {
                    prefill.push(Prefill { space: sp as u8, key: j as u32 * stride, value: hex::encode(v) });
                }
            }
        }
        let txs: Vec<TxItem> = (0..n)
            .map(|_| {
                let kind = g.weighted(&w);
                let t = pools.tx(&mut g, kind);
                encode_tx(&t, g.chance(1, 4), g.chance(1, 4))
            })
            .collect();
        let block_sizes: Vec<u8> = (0..4).map(|_| s.range(1, 4) as u8).collect();
        let delays: Vec<u8> = if s.below(3) == 0 { vec![0] } else { (0..5).map(|_| s.below(5) as u8).collect() };
        let mk_pend = |s: &mut Rng| -> Vec<u8> {
            if s.below(3) == 0 { vec![] } else { (0..s.range(1, 8)).map(|_| s.below(4) as u8).collect() }
        };
        let mut pend = mk_pend(&mut s);
        let dpend = mk_pend(&mut s);
        let sched: Vec<u8> = (0..s.range(4, 32)).map(|_| s.next_u32() as u8).collect();

        let mut faults = Vec::new();
        let mut dfaults = Vec::new();
        if faulty {
            let (en_before, en_after, en_cancel, en_read) = (f.bool(), f.bool(), f.bool(), f.bool());
            let any = en_before || en_after || en_cancel || en_read;
            let (en_before, en_read) = if any { (en_before, en_read) } else { (true, true) };
            let count = match f.below(3) {
                0 => f.range(1, 2),
                1 => (n as u64 / 8).max(1),
                _ => (n as u64 / 3).max(2),
            };
            let mut kinds = Vec::new();
            if en_before {
                kinds.push(0);
            }
            if en_after {
                kinds.push(1);
            }
            if en_cancel {
                kinds.push(2);
                if pend.iter().all(|p| *p == 0) {
                    pend = (0..f.range(1, 6)).map(|_| f.range(0, 3) as u8).collect();
                    pend[0] = pend[0].max(1);
                }
            }
            if !kinds.is_empty() {
                let mut used = BTreeSet::new();
                for _ in 0..count {
                    let attempt = f.below(n as u64 + count) as u32;
                    if !used.insert(attempt) {
                        continue;
                    }
                    let k = match f.below(4) {
                        0 => 0,
                        1 => f.below(4),
                        2 => f.below(12),
                        _ => f.below(40),
                    } as u32;
                    let kind = match *f.pick(&kinds) {
                        0 => FaultKind::FailCall { k, after_effect: false },
                        1 => FaultKind::FailCall { k, after_effect: true },
                        _ => FaultKind::Cancel { polls: f.range(1, 24) as u32 },
                    };
                    faults.push(Fault { attempt, kind, requeue: f.below(4) as u8 });
                }
                faults.sort_by_key(|x| x.attempt);
            }
            if en_read {
                let mut used = BTreeSet::new();
                for _ in 0..count.min(6) {
                    let block = f.below((n as u64 / 2).max(1)) as u32;
                    if used.insert(block) {
                        dfaults.push(DFault { block, k: f.below(24) as u32 });
                    }
                }
                dfaults.sort_by_key(|x| x.block);
            }
        }
        Scenario {
            chain_id: if g.bool() { g.below(4) } else { g.next_u64() },
            default_shortcut,
            start_below_max,
            prefill,
            txs,
            block_sizes,
            delays,
            faults,
            dfaults,
            pend,
            dpend,
            sched,
            second_pass: g.bool(),
        }
    }

    fn run(_prop: &str, sc: &Scenario, ctx: &mut RunCtx) {
        let chain_id = ChainId::new(sc.chain_id);
        // --- the stream and what the chain knows about its inputs --------------------------
        let mut chain = Chain::default();
        let mut txs: Vec<Option<Transaction>> = Vec::with_capacity(sc.txs.len());
        for item in &sc.txs {
            match decode_tx(item) {
                None => {
                    ctx.stats.inc("probe.unmodelled_undecodable_tx");
                    txs.push(None);
                }
                Some(mut t) => {
                    if !learn_chain(&mut chain, &t) {
                        ctx.stats.inc("probe.unmodelled_contradicting_chain_data");
                        txs.push(None);
                        continue;
                    }
                    if !item.data_variant.is_empty() {
                        ctx.stats.inc("probe.message_data_variant_with_empty_data");
                    }
                    if item.precompute {
                        match t.precompute(&chain_id) {
                            Ok(()) => ctx.stats.inc("probe.cached_metadata"),
                            Err(_) => ctx.stats.inc("probe.precompute_refused"),
                        }
                    }
                    txs.push(Some(t));
                }
            }
        }
        let chain = Rc::new(chain);

        // --- the registry ------------------------------------------------------------------
        let mut st = RegState::new(&sc.start_below_max, sc.default_shortcut);
        for p in &sc.prefill {
            if let (Some(sp), Ok(v)) = (Space::from_index(p.space), hex::decode(&p.value)) {
                if st.prefill(sp, p.key, v) {
                    ctx.stats.inc("probe.prefilled_key");
                }
            }
        }
        let mut reg = SimRegistry::new(st, chain.clone());
        let pend = Rc::new(sc.pend.iter().map(|p| (*p).min(3)).collect::<Vec<u8>>());
        let dpend = Rc::new(sc.dpend.iter().map(|p| (*p).min(3)).collect::<Vec<u8>>());
        let mut faults: BTreeMap<u32, &Fault> = BTreeMap::new();
        for f in &sc.faults {
            faults.entry(f.attempt).or_insert(f);
        }

        // --- compressor node ---------------------------------------------------------------
        let mut queue: VecDeque<usize> = (0..txs.len()).filter(|i| txs[*i].is_some()).collect();
        let mut failed_before: BTreeSet<usize> = BTreeSet::new();
        let mut totals = Totals::default();
        let mut cur_block: Vec<Acked> = Vec::new();
        let mut pending: VecDeque<Block> = VecDeque::new();
        let mut block_no: u32 = 0;
        let mut attempt: u32 = 0;
        let mut acked: Vec<Acked> = Vec::new();
        let attempt_cap = (txs.len() + sc.faults.len() + 8) as u32;

        while let Some(idx) = queue.pop_front() {
            if attempt > attempt_cap {
                panic!("da engine: attempt bound hit — retry loop does not terminate");
            }
            let Some(Some(t)) = txs.get(idx) else { continue };
            let fault = faults.get(&attempt).copied();
            let pre = reg.st.clone();
            if let Transaction::Mint(m) = t {
                reg.st.mint_pointer = Some(*m.tx_pointer());
            }
            let fail = match fault.map(|f| &f.kind) {
                Some(FaultKind::FailCall { k, after_effect }) => Some((*k, *after_effect)),
                _ => None,
            };
            reg.arm(Plan { pend: pend.clone(), pend_base: attempt as usize * 7, fail }, idx as u32);
            ctx.stats.inc("time.attempts");
            // Some(result) = finished, None = dropped while pending.
            let outcome = {
                let fut = t.compress_with(&mut reg);
                match fault.map(|f| &f.kind) {
                    Some(FaultKind::Cancel { polls }) => {
                        let mut fut = Box::pin(fut);
                        let (r, _) = poll_n(fut.as_mut(), (*polls).clamp(1, 1 << 16) as usize);
                        drop(fut); // cancellation: the half-finished future is dropped here
                        r
                    }
                    _ => Some(block_on(fut).unwrap_or_else(|| stuck())),
                }
            };
            let fired = reg.c.fired.get();
            let calls = reg.c.calls.get();
            let calls_after = reg.c.calls_after_fire.get();
            flush(&reg.c, ctx.stats, &mut totals);
            if let Some(m) = reg.c.next_mismatch.borrow_mut().take() {
                if ctx.violate("key-sequence", "key-sequence:next", format!("attempt {attempt} (tx {idx}): {m}")) {
                    return;
                }
            }
            let requeue = |queue: &mut VecDeque<usize>, by: u8| {
                let pos = (by as usize).min(queue.len());
                queue.insert(pos, idx);
            };
            match outcome {
                None => {
                    totals.faults += 1;
                    ctx.stats.inc("fault.cancel");
                    ctx.event("cancelled", idx as u64, calls as u64);
                    reg.st = pre;
                    failed_before.insert(idx);
                    requeue(&mut queue, fault.map(|f| f.requeue).unwrap_or(0));
                }
                Some(Err(e)) => {
                    let want = fail.map(|(k, _)| SimCtxError::Injected { call: k });
                    if !fired {
                        let (inv, sig) = if failed_before.contains(&idx) {
                            ("retry-not-acknowledged", "retry-not-acknowledged:compress")
                        } else {
                            ("compress-error", "compress-error:without-fault")
                        };
                        ctx.violate(inv, sig, format!("attempt {attempt} (tx {idx}, {}): compress_with returned {e:?} although no registry call failed", KINDS[kind_of(t)]));
                        return;
                    }
                    if Some(&e) != want.as_ref() {
                        ctx.violate(
                            "error-not-propagated",
                            "error-not-propagated:compress",
                            format!("attempt {attempt} (tx {idx}): registry call failed with {want:?} but compress_with returned {e:?}"),
                        );
                        return;
                    }
                    totals.faults += 1;
                    if matches!(fail, Some((_, true))) {
                        ctx.stats.inc("fault.io_error_after_write");
                    } else {
                        ctx.stats.inc("fault.io_error_write");
                    }
                    if calls_after > 0 {
                        ctx.stats.inc("probe.calls_after_failed_call");
                    }
                    ctx.event("failed", idx as u64, calls as u64);
                    reg.st = pre; // roll back to the pre-transaction snapshot
                    failed_before.insert(idx);
                    requeue(&mut queue, fault.map(|f| f.requeue).unwrap_or(0));
                }
                Some(Ok(c)) => {
                    if fired {
                        ctx.violate(
                            "error-swallowed",
                            "error-swallowed:compress",
                            format!("attempt {attempt} (tx {idx}, {}): registry call {:?} failed but compress_with returned Ok", KINDS[kind_of(t)], fail.map(|f| f.0)),
                        );
                        return;
                    }
                    if matches!(fault.map(|f| &f.kind), Some(FaultKind::Cancel { .. })) {
                        ctx.stats.inc("probe.cancel_too_late");
                    }
                    // The wire: postcard, as upstream does.
                    let bytes = match postcard::to_allocvec(&c) {
                        Ok(b) => b,
                        Err(e) => {
                            ctx.violate("postcard-roundtrip", "postcard-roundtrip:serialize", format!("tx {idx}: compressed transaction does not serialize: {e}"));
                            return;
                        }
                    };
                    match postcard::from_bytes::<CompressedTransaction>(&bytes) {
                        Ok(c2) if c2 == c => {}
                        Ok(_) => {
                            ctx.violate("postcard-roundtrip", "postcard-roundtrip:value", format!("tx {idx} ({}): compressed transaction changes across postcard", KINDS[kind_of(t)]));
                            return;
                        }
                        Err(e) => {
                            ctx.violate("postcard-roundtrip", "postcard-roundtrip:deserialize", format!("tx {idx} ({}): compressed bytes do not deserialize: {e}", KINDS[kind_of(t)]));
                            return;
                        }
                    }
                    ctx.event("ack", idx as u64, fnv1a(&bytes));
                    ctx.stats.inc("time.transactions");
                    ctx.stats.add("time.compressed_bytes", bytes.len() as u64);
                    ctx.stats.inc_dyn(format!("probe.kind_{}", KINDS[kind_of(t)]));
                    if failed_before.remove(&idx) {
                        ctx.stats.inc("probe.retry_acknowledged");
                    }
                    // Re-compressing right away must find every value and change nothing.
                    if sc.txs.get(idx).map(|i| i.recheck).unwrap_or(false) {
                        let mut again = SimRegistry::new(reg.st.clone(), chain.clone());
                        again.arm(Plan::default(), idx as u32);
                        let r = block_on(t.compress_with(&mut again)).unwrap_or_else(|| stuck());
                        let same = match &r {
                            Ok(c3) => *c3 == c && again.st.same_content(&reg.st),
                            Err(_) => false,
                        };
                        ctx.stats.inc("probe.recompress_checked");
                        if !same {
                            ctx.violate(
                                "recompress-not-idempotent",
                                "recompress-not-idempotent:tx",
                                format!("tx {idx} ({}): compressing it again against the registry it just updated gave {} and {} the registry", KINDS[kind_of(t)], if matches!(&r, Ok(c3) if *c3 == c) { "the same value" } else { "a different value / an error" }, if again.st.same_content(&reg.st) { "did not change" } else { "changed" }),
                            );
                            return;
                        }
                    }
                    let is_mint = matches!(t, Transaction::Mint(_));
                    acked.push(Acked { idx, bytes: bytes.clone() });
                    cur_block.push(Acked { idx, bytes });
                    let size = if sc.block_sizes.is_empty() { 1 } else { sc.block_sizes[block_no as usize % sc.block_sizes.len()].clamp(1, 4) } as usize;
                    if cur_block.len() >= size || is_mint || queue.is_empty() {
                        let delay = if sc.delays.is_empty() { 0 } else { sc.delays[block_no as usize % sc.delays.len()].min(8) } as u64;
                        pending.push_back(Block { no: block_no, snap: reg.st.clone(), items: std::mem::take(&mut cur_block), due: block_no as u64 + delay, delayed: delay > 0 });
                        reg.st.touched.clear();
                        reg.st.mint_pointer = None;
                        // decompressor node: everything that is due
                        let mut keep = VecDeque::new();
                        while let Some(b) = pending.pop_front() {
                            if b.due <= block_no as u64 {
                                if decompress_block(sc, b, &txs, &chain, &chain_id, &reg.st, &dpend, &mut totals, ctx) {
                                    return;
                                }
                            } else {
                                keep.push_back(b);
                            }
                        }
                        pending = keep;
                        block_no += 1;
                    }
                }
            }
            attempt += 1;
        }
        // A trailing partial block can only exist if the last attempts were skipped entries.
        if !cur_block.is_empty() {
            pending.push_back(Block { no: block_no, snap: reg.st.clone(), items: std::mem::take(&mut cur_block), due: 0, delayed: false });
            reg.st.touched.clear();
            reg.st.mint_pointer = None;
        }
        while let Some(b) = pending.pop_front() {
            if decompress_block(sc, b, &txs, &chain, &chain_id, &reg.st, &dpend, &mut totals, ctx) {
                return;
            }
        }
        if !failed_before.is_empty() {
            // Every transaction that failed must have been retried and acknowledged by now.
            ctx.violate("retry-not-acknowledged", "retry-not-acknowledged:lost", format!("transactions {failed_before:?} failed and were never acknowledged"));
            return;
        }

        // --- second pass over the same stream ----------------------------------------------
        // Sound only if nothing was evicted: then every value is still registered, the second
        // pass allocates nothing and must reproduce the same compressed bytes.
        if sc.second_pass && totals.faults == 0 && totals.evictions == 0 && !acked.is_empty() {
            let before = reg.st.clone();
            for a in &acked {
                let Some(Some(t)) = txs.get(a.idx) else { continue };
                reg.arm(Plan::default(), a.idx as u32);
                let r = block_on(t.compress_with(&mut reg)).unwrap_or_else(|| stuck());
                let ok = match r {
                    Ok(c) => postcard::to_allocvec(&c).map(|b| b == a.bytes).unwrap_or(false),
                    Err(_) => false,
                };
                if !ok {
                    ctx.violate("second-pass-changed", "second-pass-changed:bytes", format!("tx {}: second compression of the stream gave different compressed bytes (no eviction happened)", a.idx));
                    return;
                }
            }
            if !reg.st.same_content(&before) {
                ctx.violate("second-pass-changed", "second-pass-changed:registry", format!("compressing the stream a second time changed the registry ({} -> {} entries) although nothing had been evicted", before.entries(), reg.st.entries()));
                return;
            }
            ctx.stats.inc("probe.second_pass_checked");
        }
        let cursors: u64 = reg.st.tables.iter().map(|t| t.next.as_u32() as u64).sum();
        ctx.event("final", reg.st.entries() as u64, cursors);
        if totals.cross >= 1 && (totals.wraps >= 1 || totals.faults >= 1) {
            ctx.nontrivial = true;
        }
        if totals.faults == 0 {
            ctx.stats.inc("probe.fault_free_run");
        }
    }

    fn shrink(_prop: &str, sc: &Scenario) -> Vec<Scenario> {
        let mut out = Vec::new();
        let n = sc.txs.len();
        let with = |f: &dyn Fn(&mut Scenario)| {
            let mut s = sc.clone();
            f(&mut s);
            s
        };
        // Remove txs[a..b]; with `shift` the fault plan follows the transactions behind the cut
        // (attempt numbers equal stream positions as long as nothing is retried).
        let cut = |a: usize, b: usize, shift: bool| {
            with(&|s| {
                s.txs.drain(a..b);
                if shift {
                    let w = (b - a) as u32;
                    s.faults.retain(|f| (f.attempt as usize) < a || f.attempt as usize >= b);
                    for f in &mut s.faults {
                        if f.attempt as usize >= b {
                            f.attempt -= w;
                        }
                    }
                }
            })
        };
        let has_faults = !sc.faults.is_empty();
        if n > 1 {
            out.push(cut(n / 2, n, false));
            if has_faults {
                out.push(cut(0, n / 2, true));
            }
            out.push(cut(0, n / 2, false));
        }
        if has_faults || !sc.dfaults.is_empty() {
            out.push(with(&|s| {
                s.faults.clear();
                s.dfaults.clear();
            }));
        }
        if n > 4 {
            for q in 0..4 {
                if has_faults {
                    out.push(cut(q * n / 4, (q + 1) * n / 4, true));
                }
                out.push(cut(q * n / 4, (q + 1) * n / 4, false));
            }
        }
        for i in (0..n).rev() {
            if has_faults {
                out.push(cut(i, i + 1, true));
            }
            out.push(cut(i, i + 1, false));
        }
        for i in 0..sc.faults.len() {
            out.push(with(&|s| {
                s.faults.remove(i);
            }));
        }
        for i in 0..sc.faults.len() {
            if sc.faults[i].requeue != 0 {
                out.push(with(&|s| s.faults[i].requeue = 0));
            }
            match sc.faults[i].kind {
                FaultKind::FailCall { k, after_effect } if k > 0 => {
                    out.push(with(&|s| s.faults[i].kind = FaultKind::FailCall { k: k / 2, after_effect }));
                }
                FaultKind::Cancel { polls } if polls > 1 => {
                    out.push(with(&|s| s.faults[i].kind = FaultKind::Cancel { polls: polls / 2 }));
                }
                _ => {}
            }
        }
        for i in 0..sc.dfaults.len() {
            out.push(with(&|s| {
                s.dfaults.remove(i);
            }));
        }
        if !sc.pend.is_empty() {
            out.push(with(&|s| s.pend.clear()));
        }
        if !sc.dpend.is_empty() {
            out.push(with(&|s| s.dpend.clear()));
        }
        if !sc.sched.is_empty() {
            out.push(with(&|s| s.sched.clear()));
        }
        if !sc.prefill.is_empty() {
            out.push(with(&|s| s.prefill.clear()));
            for i in 0..sc.prefill.len() {
                out.push(with(&|s| {
                    s.prefill.remove(i);
                }));
            }
        }
        if sc.delays.iter().any(|d| *d != 0) {
            out.push(with(&|s| s.delays = vec![0]));
        }
        if sc.block_sizes.iter().any(|d| *d != 1) {
            out.push(with(&|s| s.block_sizes = vec![1]));
        }
        if sc.second_pass {
            out.push(with(&|s| s.second_pass = false));
        }
        if sc.txs.iter().any(|t| t.precompute || t.recheck) {
            out.push(with(&|s| {
                for t in &mut s.txs {
                    t.precompute = false;
                    t.recheck = false;
                }
            }));
        }
        if sc.start_below_max.iter().any(|d| *d != 1_000_000) {
            out.push(with(&|s| s.start_below_max = [1_000_000; 5]));
            for i in 0..5 {
                if sc.start_below_max[i] != 1_000_000 {
                    out.push(with(&|s| s.start_below_max[i] = 1_000_000));
                }
            }
        }
        if sc.chain_id != 0 {
            out.push(with(&|s| s.chain_id = 0));
        }
        // Last: simplify the transactions themselves once the stream is short.
        if n <= 4 {
            for i in 0..n {
                for simpler in simpler_txs(&sc.txs[i]) {
                    out.push(with(&|s| s.txs[i] = simpler.clone()));
                }
            }
        }
        out
    }

    fn summarize(_prop: &str, sc: &Scenario) -> Value {
        let kinds: Vec<String> = sc
            .txs
            .iter()
            .map(|i| match decode_tx(i) {
                Some(t) => format!("{}({}in,{}out,{}w)", KINDS[kind_of(&t)], inputs_of(&t).len(), outputs_of(&t).len(), witnesses_of(&t).len()),
                None => "undecodable".into(),
            })
            .collect();
        truncate_value(
            &json!({
                "txs": kinds,
                "start_below_max": sc.start_below_max,
                "default_shortcut": sc.default_shortcut,
                "prefilled_keys": sc.prefill.len(),
                "block_sizes": sc.block_sizes,
                "delays": sc.delays,
                "faults": sc.faults,
                "dfaults": sc.dfaults,
                "pend": sc.pend,
                "dpend": sc.dpend,
                "sched_len": sc.sched.len(),
                "second_pass": sc.second_pass,
            }),
            0,
        )
    }
}
