//! Transaction stream generator: all six kinds, built from per-run pools so that addresses,
//! asset ids, contract ids, script and predicate code, UTXOs and messages repeat across
//! transactions. Only the kernel PRNG is used. Every field the codec skips is filled with a
//! non-default value, so "comes back as its default" is observable.

use crate::kernel::Rng;
use fuel_tx::input::contract::Contract as InContract;
use fuel_tx::output::contract::Contract as OutContract;
use fuel_tx::policies::Policies;
use fuel_tx::{
    BlobBody, Input, Output, StorageSlot, Transaction, TxPointer, UpgradePurpose, UploadBody, UtxoId, Witness,
};
use fuel_tx::field::ReceiptsRoot;
use fuel_types::{Address, AssetId, BlobId, Bytes32, ContractId, Nonce, Salt};

pub struct PoolCoin {
    pub utxo: UtxoId,
    pub owner: Address,
    pub amount: u64,
    pub asset: AssetId,
}

pub struct PoolMsg {
    pub nonce: Nonce,
    pub sender: Address,
    pub recipient: Address,
    pub amount: u64,
    pub data: Vec<u8>,
}

pub struct Pools {
    pub addrs: Vec<Address>,
    pub assets: Vec<AssetId>,
    pub contracts: Vec<ContractId>,
    pub scripts: Vec<Vec<u8>>,
    pub preds: Vec<Vec<u8>>,
    pub coins: Vec<PoolCoin>,
    pub msgs: Vec<PoolMsg>,
    /// Chance (in 16) that an id is drawn fresh instead of from the pool (drives the cursor).
    pub fresh16: u64,
}

fn b32(g: &mut Rng) -> Bytes32 {
    Bytes32::new(g.bytes32())
}

fn ptr(g: &mut Rng) -> TxPointer {
    TxPointer::new((g.next_u32() | 1).into(), g.next_u32() as u16 | 1)
}

fn code(g: &mut Rng, allow_empty: bool) -> Vec<u8> {
    let n = match g.below(8) {
        0 if allow_empty => 0,
        0 | 1 => 4,
        2 => 8,
        3 => g.range(1, 40) as usize,
        4 => g.range(40, 200) as usize,
        _ => 4 * g.range(1, 16) as usize,
    };
    g.bytes(n)
}

impl Pools {
    pub fn new(g: &mut Rng) -> Pools {
        let mut addrs: Vec<Address> = (0..g.range(2, 8)).map(|_| Address::new(g.bytes32())).collect();
        let mut assets: Vec<AssetId> = (0..g.range(1, 4)).map(|_| AssetId::new(g.bytes32())).collect();
        let mut contracts: Vec<ContractId> = (0..g.range(1, 4)).map(|_| ContractId::new(g.bytes32())).collect();
        // The default values are ordinary members of the pools (base asset = zero id, …).
        if g.chance(1, 2) {
            assets.push(AssetId::zeroed());
        }
        if g.chance(1, 3) {
            addrs.push(Address::zeroed());
        }
        if g.chance(1, 4) {
            contracts.push(ContractId::zeroed());
        }
        let scripts: Vec<Vec<u8>> = (0..g.range(1, 4)).map(|_| code(g, true)).collect();
        let preds: Vec<Vec<u8>> = (0..g.range(1, 4)).map(|_| code(g, false)).collect();
        let coins = (0..g.range(2, 12))
            .map(|_| PoolCoin {
                utxo: UtxoId::new(b32(g), g.next_u32() as u16),
                owner: *g.pick(&addrs),
                amount: g.word_biased(),
                asset: *g.pick(&assets),
            })
            .collect();
        let msgs = (0..g.range(1, 8))
            .map(|_| PoolMsg {
                nonce: Nonce::new(g.bytes32()),
                sender: *g.pick(&addrs),
                recipient: *g.pick(&addrs),
                amount: g.word_biased(),
                data: if g.chance(1, 2) { Vec::new() } else { let n = g.range(1, 48) as usize; g.bytes(n) },
            })
            .collect();
        let fresh16 = *g.pick(&[0u64, 1, 1, 2, 4, 8]);
        Pools { addrs, assets, contracts, scripts, preds, coins, msgs, fresh16 }
    }

    fn addr(&self, g: &mut Rng) -> Address {
        if g.chance(self.fresh16, 16) { Address::new(g.bytes32()) } else { *g.pick(&self.addrs) }
    }
    fn asset(&self, g: &mut Rng) -> AssetId {
        if g.chance(self.fresh16, 32) { AssetId::new(g.bytes32()) } else { *g.pick(&self.assets) }
    }
    fn contract(&self, g: &mut Rng) -> ContractId {
        if g.chance(self.fresh16, 16) { ContractId::new(g.bytes32()) } else { *g.pick(&self.contracts) }
    }
    fn script(&self, g: &mut Rng) -> Vec<u8> {
        if g.chance(self.fresh16, 32) { code(g, true) } else { g.pick(&self.scripts).clone() }
    }
    fn pred(&self, g: &mut Rng) -> Vec<u8> {
        if g.chance(self.fresh16, 32) { code(g, false) } else { g.pick(&self.preds).clone() }
    }

    fn in_contract(&self, g: &mut Rng) -> InContract {
        InContract {
            utxo_id: UtxoId::new(b32(g), g.next_u32() as u16 | 1),
            balance_root: b32(g),
            state_root: b32(g),
            tx_pointer: ptr(g),
            contract_id: self.contract(g),
        }
    }

    fn input(&self, g: &mut Rng) -> Input {
        let gas = if g.chance(1, 8) { 0 } else { g.word_biased() };
        let pdata = |g: &mut Rng| {
            let n = g.below(40) as usize;
            g.bytes(n)
        };
        match g.weighted(&[6, 5, 4, 2, 2, 2, 2]) {
            0 => {
                let c = g.pick(&self.coins);
                Input::coin_signed(c.utxo, c.owner, c.amount, c.asset, ptr(g), g.below(6) as u16)
            }
            1 => {
                let c = g.pick(&self.coins);
                Input::coin_predicate(c.utxo, c.owner, c.amount, c.asset, ptr(g), gas, self.pred(g), pdata(g))
            }
            2 => Input::Contract(self.in_contract(g)),
            k => {
                let m = g.pick(&self.msgs);
                // A message without data is a message coin; (rarely) the data variant is used
                // with empty data, which the public constructors allow.
                let as_data = !m.data.is_empty() || g.chance(1, 6);
                let signed = k % 2 == 1;
                match (as_data, signed) {
                    (false, true) => Input::message_coin_signed(m.sender, m.recipient, m.amount, m.nonce, g.below(6) as u16),
                    (false, false) => {
                        Input::message_coin_predicate(m.sender, m.recipient, m.amount, m.nonce, gas, self.pred(g), pdata(g))
                    }
                    (true, true) => {
                        Input::message_data_signed(m.sender, m.recipient, m.amount, m.nonce, g.below(6) as u16, m.data.clone())
                    }
                    (true, false) => Input::message_data_predicate(
                        m.sender,
                        m.recipient,
                        m.amount,
                        m.nonce,
                        gas,
                        m.data.clone(),
                        self.pred(g),
                        pdata(g),
                    ),
                }
            }
        }
    }

    fn output(&self, g: &mut Rng) -> Output {
        match g.weighted(&[5, 3, 4, 3, 2]) {
            0 => Output::coin(self.addr(g), g.word_biased(), self.asset(g)),
            1 => Output::Contract(OutContract { input_index: g.below(8) as u16, balance_root: b32(g), state_root: b32(g) }),
            2 => Output::change(self.addr(g), g.word_biased() | 1, self.asset(g)),
            3 => Output::variable(Address::new(g.bytes32()), g.word_biased() | 1, AssetId::new(g.bytes32())),
            _ => Output::contract_created(self.contract(g), b32(g)),
        }
    }

    fn policies(&self, g: &mut Rng) -> Policies {
        let mut p = Policies::new();
        let mask = match g.below(4) {
            0 => 0,
            1 => 0x3f,
            _ => g.below(64),
        };
        if mask & 1 != 0 {
            p = p.with_tip(g.word_biased());
        }
        if mask & 2 != 0 {
            p = p.with_witness_limit(g.word_biased());
        }
        if mask & 4 != 0 {
            p = p.with_maturity(g.next_u32().into());
        }
        if mask & 8 != 0 {
            p = p.with_max_fee(g.word_biased());
        }
        if mask & 16 != 0 {
            p = p.with_expiration(g.next_u32().into());
        }
        if mask & 32 != 0 {
            p = p.with_owner(g.below(8));
        }
        p
    }

    fn witnesses(&self, g: &mut Rng) -> Vec<Witness> {
        (0..g.below(4))
            .map(|_| {
                let n = match g.below(10) {
                    0 => 0,
                    1 => 64,
                    2 => g.range(200, 1500) as usize,
                    _ => g.range(1, 96) as usize,
                };
                Witness::from(g.bytes(n))
            })
            .collect()
    }

    /// kind: 0 Script, 1 Create, 2 Mint, 3 Upgrade, 4 Upload, 5 Blob.
    pub fn tx(&self, g: &mut Rng, kind: usize) -> Transaction {
        if kind == 2 {
            return Transaction::mint(
                ptr(g),
                self.in_contract(g),
                OutContract { input_index: g.below(3) as u16, balance_root: b32(g), state_root: b32(g) },
                g.word_biased(),
                self.asset(g),
                g.word_biased(),
            )
            .into();
        }
        let max_io = *g.pick(&[1u64, 3, 6, 10]);
        // one transaction in 48 carries one list of 254..300 items (around the one-byte boundary)
        let long = if g.below(48) == 0 { Some((g.below(5), g.range(254, 300) as usize)) } else { None };
        let n_of = |which: u64, dflt: u64| -> u64 { match long { Some((w, n)) if w == which => n as u64, _ => dflt } };
        let n_in = n_of(0, g.below(max_io + 1));
        let inputs: Vec<Input> = (0..n_in).map(|_| self.input(g)).collect();
        let n_out = n_of(1, g.below(max_io + 1));
        let outputs: Vec<Output> = (0..n_out).map(|_| self.output(g)).collect();
        let policies = self.policies(g);
        let witnesses = match long {
            Some((2, n)) => (0..n)
                .map(|_| {
                    let k = g.below(4) as usize;
                    Witness::from(g.bytes(k))
                })
                .collect(),
            _ => self.witnesses(g),
        };
        let n_slots = n_of(3, g.below(4));
        let n_proof = n_of(4, g.below(5));
        match kind {
            0 => {
                let n = g.below(64) as usize;
                let mut s = Transaction::script(g.word_biased(), self.script(g), g.bytes(n), policies, inputs, outputs, witnesses);
                *s.receipts_root_mut() = b32(g);
                s.into()
            }
            1 => {
                let slots = (0..n_slots).map(|_| StorageSlot::new(b32(g), b32(g))).collect();
                Transaction::create(g.below(4) as u16, policies, Salt::new(g.bytes32()), slots, inputs, outputs, witnesses).into()
            }
            3 => {
                let purpose = if g.bool() {
                    UpgradePurpose::ConsensusParameters { witness_index: g.below(4) as u16, checksum: b32(g) }
                } else {
                    UpgradePurpose::StateTransition { root: b32(g) }
                };
                Transaction::upgrade(purpose, policies, inputs, outputs, witnesses).into()
            }
            4 => {
                let body = UploadBody {
                    root: b32(g),
                    witness_index: g.below(4) as u16,
                    subsection_index: g.below(300) as u16,
                    subsections_number: g.below(300) as u16 | 1,
                    proof_set: (0..n_proof).map(|_| b32(g)).collect(),
                };
                Transaction::upload(body, policies, inputs, outputs, witnesses).into()
            }
            _ => {
                let body = BlobBody { id: BlobId::new(g.bytes32()), witness_index: g.below(4) as u16 };
                Transaction::blob(body, policies, inputs, outputs, witnesses).into()
            }
        }
    }
}
