//! `SimRegistry` — the compression context the simulator puts behind the seam
//! `Ctx: ContextError` + `CompressibleBy<Ctx>` / `DecompressibleBy<Ctx>` (fuel-compression).
//!
//! It plays the part of fuel-core's temporal registry database:
//! * five keyspaces (Address, AssetId, ContractId, ScriptCode, PredicateCode), each with its
//!   own write cursor advanced by the **real** `RegistryKey::next`; a write on an occupied key
//!   evicts the old value; keys touched in the current block are never evicted (the
//!   decompressor applies a block's registrations before it reads any of them);
//! * optional shortcut: a default value compresses to `RegistryKey::DEFAULT_VALUE` and is never
//!   written;
//! * a chain view (UTXO id <-> compressed UTXO id, coin info, message info) used for the
//!   fields the codec deliberately skips;
//! * every call goes through a gate that can return `Pending` a planned number of times and
//!   fail the k-th call of an operation with an injected error.
//!
//! Nothing here panics on missing data: a missing key / coin / message is an error value.

use super::exec::Pend;
use fuel_compression::{Compressible, CompressibleBy, ContextError, DecompressibleBy, RegistryKey};
use fuel_tx::input::coin::{Coin, CoinSpecification};
use fuel_tx::input::message::{Message, MessageSpecification};
use fuel_tx::input::{AsField, PredicateCode};
use fuel_tx::{CompressedUtxoId, Mint, ScriptCode, Transaction, TxPointer, UtxoId};
use fuel_types::bytes::Bytes;
use fuel_types::{Address, AssetId, ContractId, Nonce, Word};
use std::cell::{Cell, RefCell};
use std::collections::{BTreeMap, BTreeSet};
use std::rc::Rc;

/// Number of writable keys: 0 ..= 0xFFFFFE. 0xFFFFFF is `DEFAULT_VALUE` and reserved.
pub const WRITABLE_KEYS: u32 = 0x00FF_FFFF;
pub const NO_USER: u32 = u32::MAX;

#[derive(Clone, Copy, PartialEq, Eq, PartialOrd, Ord, Debug)]
pub enum Space {
    Address = 0,
    AssetId = 1,
    ContractId = 2,
    ScriptCode = 3,
    PredicateCode = 4,
}

impl Space {
    pub const ALL: [Space; 5] = [Space::Address, Space::AssetId, Space::ContractId, Space::ScriptCode, Space::PredicateCode];
    pub fn from_index(i: u8) -> Option<Space> {
        Self::ALL.get(i as usize).copied()
    }
    fn is_code(self) -> bool {
        matches!(self, Space::ScriptCode | Space::PredicateCode)
    }
    pub fn is_default(self, bytes: &[u8]) -> bool {
        if self.is_code() { bytes.is_empty() } else { bytes.len() == 32 && bytes.iter().all(|b| *b == 0) }
    }
    pub fn default_bytes(self) -> Vec<u8> {
        if self.is_code() { Vec::new() } else { vec![0u8; 32] }
    }
}

#[derive(Debug, Clone, PartialEq, Eq)]
pub enum SimCtxError {
    /// The injected I/O error of the fault plan: call number `call` of the operation failed.
    Injected { call: u32 },
    MissingKey { space: Space, key: u32 },
    UnknownUtxo,
    UnknownPointer,
    UnknownCoin,
    UnknownMessage,
    NoMintPointer,
    BadValue { space: Space },
    KeyspaceExhausted,
}

#[derive(Clone, Debug)]
pub struct Entry {
    pub value: Vec<u8>,
    /// Sequence number of the last transaction that referenced this key (NO_USER: none yet).
    pub last_user: u32,
}

#[derive(Clone, Debug)]
pub struct Table {
    pub next: RegistryKey,
    pub by_key: BTreeMap<u32, Entry>,
    pub by_val: BTreeMap<Vec<u8>, u32>,
}

/// The versioned part of the registry: cloned for snapshots and rollback.
#[derive(Clone, Debug)]
pub struct RegState {
    pub tables: [Table; 5],
    /// Keys referenced in the current block; they must stay readable until the block is closed.
    pub touched: BTreeSet<(u8, u32)>,
    /// Position of the block's mint transaction (the codec skips it; the block header has it).
    pub mint_pointer: Option<TxPointer>,
    pub default_shortcut: bool,
}

impl RegState {
    pub fn new(start_below_max: &[u32; 5], default_shortcut: bool) -> RegState {
        let mk = |d: u32| {
            let first = (WRITABLE_KEYS - 1).saturating_sub(d % WRITABLE_KEYS);
            Table {
                next: RegistryKey::try_from(first).unwrap_or(RegistryKey::ZERO),
                by_key: BTreeMap::new(),
                by_val: BTreeMap::new(),
            }
        };
        RegState {
            tables: [mk(start_below_max[0]), mk(start_below_max[1]), mk(start_below_max[2]), mk(start_below_max[3]), mk(start_below_max[4])],
            touched: BTreeSet::new(),
            mint_pointer: None,
            default_shortcut,
        }
    }

    /// Pre-existing entry (a registry that has been running before this stream started).
    pub fn prefill(&mut self, sp: Space, key: u32, value: Vec<u8>) -> bool {
        let t = &mut self.tables[sp as usize];
        if key >= WRITABLE_KEYS || t.by_key.contains_key(&key) || t.by_val.contains_key(&value) {
            return false;
        }
        if self.default_shortcut && sp.is_default(&value) {
            return false;
        }
        t.by_val.insert(value.clone(), key);
        t.by_key.insert(key, Entry { value, last_user: NO_USER });
        true
    }

    /// Same keys, same values, same write cursors (bookkeeping such as `last_user`, the
    /// touched set and the mint pointer is not registry content).
    pub fn same_content(&self, other: &RegState) -> bool {
        self.tables.iter().zip(other.tables.iter()).all(|(a, b)| {
            a.next == b.next
                && a.by_key.len() == b.by_key.len()
                && a.by_key.iter().zip(b.by_key.iter()).all(|((ka, ea), (kb, eb))| ka == kb && ea.value == eb.value)
        })
    }

    pub fn entries(&self) -> usize {
        self.tables.iter().map(|t| t.by_key.len()).sum()
    }
}

#[derive(Clone, Debug, PartialEq)]
pub struct CoinInfo {
    pub owner: Address,
    pub amount: Word,
    pub asset_id: AssetId,
}

#[derive(Clone, Debug, PartialEq)]
pub struct MessageInfo {
    pub sender: Address,
    pub recipient: Address,
    pub amount: Word,
    pub data: Vec<u8>,
}

/// What the chain knows and the codec therefore does not transmit.
#[derive(Default, Debug)]
pub struct Chain {
    pub coins: BTreeMap<UtxoId, (CompressedUtxoId, CoinInfo)>,
    pub by_ptr: BTreeMap<CompressedUtxoId, UtxoId>,
    pub messages: BTreeMap<Nonce, MessageInfo>,
}

impl Chain {
    /// Register a coin; false when the UTXO is already known with different data.
    pub fn add_coin(&mut self, utxo: UtxoId, info: CoinInfo) -> bool {
        if let Some((_, have)) = self.coins.get(&utxo) {
            return *have == info;
        }
        let n = self.coins.len() as u32;
        let ptr = CompressedUtxoId {
            tx_pointer: TxPointer::new((n / 5 + 1).into(), (n % 5) as u16),
            output_index: (n.wrapping_mul(7) % 11) as u16,
        };
        self.by_ptr.insert(ptr, utxo);
        self.coins.insert(utxo, (ptr, info));
        true
    }
    pub fn add_message(&mut self, nonce: Nonce, info: MessageInfo) -> bool {
        if let Some(have) = self.messages.get(&nonce) {
            return *have == info;
        }
        self.messages.insert(nonce, info);
        true
    }
}

/// Pending / failure plan of one operation (one compression attempt, one block decompression).
#[derive(Clone, Debug, Default)]
pub struct Plan {
    /// Call i pends `pend[(pend_base + i) % len]` times (empty: never pends).
    pub pend: Rc<Vec<u8>>,
    pub pend_base: usize,
    /// (k, after_effect): call number k fails; with `after_effect` the call's write is applied
    /// before the error is reported (lost acknowledgement).
    pub fail: Option<(u32, bool)>,
}

#[derive(Default, Debug)]
pub struct Counters {
    pub calls: Cell<u32>,
    pub fired: Cell<bool>,
    pub calls_after_fire: Cell<u32>,
    pub pendings: Cell<u64>,
    pub allocs: Cell<u64>,
    pub hits: Cell<u64>,
    pub cross_tx_hits: Cell<u64>,
    pub default_hits: Cell<u64>,
    pub evict_live: Cell<u64>,
    pub evict_idle: Cell<u64>,
    pub wraps: Cell<u64>,
    pub keep_skips: Cell<u64>,
    /// First disagreement between `RegistryKey::next` and the successor model.
    pub next_mismatch: RefCell<Option<String>>,
}

fn bump(c: &Cell<u64>) {
    c.set(c.get() + 1);
}

pub struct SimRegistry {
    pub st: RegState,
    pub chain: Rc<Chain>,
    pub plan: Plan,
    /// Sequence number of the transaction being compressed (for cross-transaction reuse).
    pub cur_tx: u32,
    pub c: Counters,
}

struct Gate {
    before: u8,
    after: u8,
    fail_before: Option<SimCtxError>,
    fail_after: Option<SimCtxError>,
}

impl SimRegistry {
    pub fn new(st: RegState, chain: Rc<Chain>) -> SimRegistry {
        SimRegistry { st, chain, plan: Plan::default(), cur_tx: 0, c: Counters::default() }
    }

    /// Arm the plan for the next operation and reset the per-operation call counter.
    pub fn arm(&mut self, plan: Plan, cur_tx: u32) {
        self.plan = plan;
        self.cur_tx = cur_tx;
        self.c.calls.set(0);
        self.c.fired.set(false);
        self.c.calls_after_fire.set(0);
    }

    fn gate(&self) -> Gate {
        let i = self.c.calls.get();
        self.c.calls.set(i + 1);
        if self.c.fired.get() {
            self.c.calls_after_fire.set(self.c.calls_after_fire.get() + 1);
        }
        let p = if self.plan.pend.is_empty() { 0 } else { self.plan.pend[(self.plan.pend_base + i as usize) % self.plan.pend.len()] };
        self.c.pendings.set(self.c.pendings.get() + p as u64);
        let (fail_before, fail_after) = match self.plan.fail {
            Some((k, after)) if k == i => {
                self.c.fired.set(true);
                let e = SimCtxError::Injected { call: k };
                if after { (None, Some(e)) } else { (Some(e), None) }
            }
            _ => (None, None),
        };
        Gate { before: p - p / 2, after: p / 2, fail_before, fail_after }
    }

    /// A read-only call (chain lookups, key resolution).
    async fn read_gate(&self) -> Result<(), SimCtxError> {
        let g = self.gate();
        Pend(g.before).await;
        if let Some(e) = g.fail_before.or(g.fail_after) {
            return Err(e);
        }
        Pend(g.after).await;
        Ok(())
    }

    /// value -> key, registering the value if needed.
    async fn intern(&mut self, sp: Space, bytes: &[u8]) -> Result<RegistryKey, SimCtxError> {
        let g = self.gate();
        Pend(g.before).await;
        if let Some(e) = g.fail_before {
            return Err(e);
        }
        let r = self.do_intern(sp, bytes);
        Pend(g.after).await;
        if let Some(e) = g.fail_after {
            return Err(e);
        }
        r
    }

    fn do_intern(&mut self, sp: Space, bytes: &[u8]) -> Result<RegistryKey, SimCtxError> {
        if self.st.default_shortcut && sp.is_default(bytes) {
            bump(&self.c.default_hits);
            return Ok(RegistryKey::DEFAULT_VALUE);
        }
        let cur = self.cur_tx;
        let t = &mut self.st.tables[sp as usize];
        if let Some(k) = t.by_val.get(bytes).copied() {
            bump(&self.c.hits);
            if let Some(e) = t.by_key.get_mut(&k) {
                if e.last_user != NO_USER && e.last_user != cur {
                    bump(&self.c.cross_tx_hits);
                }
                e.last_user = cur;
            }
            self.st.touched.insert((sp as u8, k));
            return RegistryKey::try_from(k).map_err(|_| SimCtxError::BadValue { space: sp });
        }
        // Allocate: advance the cursor with the real successor function; never hand out a key
        // that the current block still references.
        let mut guard = self.st.touched.len() + 2;
        let key = loop {
            let k = t.next;
            let n = k.next(); // code under test
            let model = (k.as_u32() + 1) % WRITABLE_KEYS;
            if n.as_u32() != model && self.c.next_mismatch.borrow().is_none() {
                *self.c.next_mismatch.borrow_mut() = Some(format!(
                    "RegistryKey({:#08x}).next() = {:#08x}, successor modulo the {} writable keys is {:#08x}",
                    k.as_u32(),
                    n.as_u32(),
                    WRITABLE_KEYS,
                    model
                ));
            }
            if n.as_u32() <= k.as_u32() {
                bump(&self.c.wraps);
            }
            t.next = n;
            if self.st.touched.contains(&(sp as u8, k.as_u32())) {
                bump(&self.c.keep_skips);
                guard -= 1;
                if guard == 0 {
                    return Err(SimCtxError::KeyspaceExhausted);
                }
                continue;
            }
            break k;
        };
        let ku = key.as_u32();
        if let Some(old) = t.by_key.insert(ku, Entry { value: bytes.to_vec(), last_user: cur }) {
            t.by_val.remove(&old.value);
            if old.last_user != NO_USER { bump(&self.c.evict_live) } else { bump(&self.c.evict_idle) }
        }
        t.by_val.insert(bytes.to_vec(), ku);
        self.st.touched.insert((sp as u8, ku));
        bump(&self.c.allocs);
        Ok(key)
    }

    /// key -> value.
    async fn resolve(&self, sp: Space, key: RegistryKey) -> Result<Vec<u8>, SimCtxError> {
        self.read_gate().await?;
        if self.st.default_shortcut && key == RegistryKey::DEFAULT_VALUE {
            return Ok(sp.default_bytes());
        }
        self.st.tables[sp as usize]
            .by_key
            .get(&key.as_u32())
            .map(|e| e.value.clone())
            .ok_or(SimCtxError::MissingKey { space: sp, key: key.as_u32() })
    }

    async fn coin_info(&self, utxo: &UtxoId) -> Result<CoinInfo, SimCtxError> {
        self.read_gate().await?;
        self.chain.coins.get(utxo).map(|(_, i)| i.clone()).ok_or(SimCtxError::UnknownCoin)
    }

    async fn message_info(&self, nonce: &Nonce) -> Result<MessageInfo, SimCtxError> {
        self.read_gate().await?;
        self.chain.messages.get(nonce).cloned().ok_or(SimCtxError::UnknownMessage)
    }
}

impl ContextError for SimRegistry {
    type Error = SimCtxError;
}

macro_rules! id_key {
    ($t:ty, $sp:expr) => {
        impl CompressibleBy<SimRegistry> for $t {
            async fn compress_with(&self, ctx: &mut SimRegistry) -> Result<RegistryKey, SimCtxError> {
                let b: &[u8] = self.as_ref();
                ctx.intern($sp, b).await
            }
        }
        impl DecompressibleBy<SimRegistry> for $t {
            async fn decompress_with(key: RegistryKey, ctx: &SimRegistry) -> Result<$t, SimCtxError> {
                let v = ctx.resolve($sp, key).await?;
                <$t>::try_from(v.as_slice()).map_err(|_| SimCtxError::BadValue { space: $sp })
            }
        }
    };
}

id_key!(Address, Space::Address);
id_key!(AssetId, Space::AssetId);
id_key!(ContractId, Space::ContractId);

macro_rules! code_key {
    ($t:ty, $sp:expr) => {
        impl CompressibleBy<SimRegistry> for $t {
            async fn compress_with(&self, ctx: &mut SimRegistry) -> Result<RegistryKey, SimCtxError> {
                ctx.intern($sp, self.as_slice()).await
            }
        }
        impl DecompressibleBy<SimRegistry> for $t {
            async fn decompress_with(key: RegistryKey, ctx: &SimRegistry) -> Result<$t, SimCtxError> {
                Ok(<$t>::from(ctx.resolve($sp, key).await?))
            }
        }
    };
}

code_key!(ScriptCode, Space::ScriptCode);
code_key!(PredicateCode, Space::PredicateCode);

impl CompressibleBy<SimRegistry> for UtxoId {
    async fn compress_with(&self, ctx: &mut SimRegistry) -> Result<CompressedUtxoId, SimCtxError> {
        ctx.read_gate().await?;
        ctx.chain.coins.get(self).map(|(p, _)| *p).ok_or(SimCtxError::UnknownUtxo)
    }
}

impl DecompressibleBy<SimRegistry> for UtxoId {
    async fn decompress_with(key: CompressedUtxoId, ctx: &SimRegistry) -> Result<UtxoId, SimCtxError> {
        ctx.read_gate().await?;
        ctx.chain.by_ptr.get(&key).copied().ok_or(SimCtxError::UnknownPointer)
    }
}

// `Coin`, `Message` and `Mint` derive only `Compress`: putting the skipped fields back is the
// context's job (same shape as the in-memory context of fuel-tx/src/tests/da_compression.rs).

impl<S> DecompressibleBy<SimRegistry> for Coin<S>
where
    S: CoinSpecification,
    S::Predicate: DecompressibleBy<SimRegistry>,
    S::PredicateData: DecompressibleBy<SimRegistry>,
    S::PredicateGasUsed: DecompressibleBy<SimRegistry>,
    S::Witness: DecompressibleBy<SimRegistry>,
{
    async fn decompress_with(c: <Coin<S> as Compressible>::Compressed, ctx: &SimRegistry) -> Result<Coin<S>, SimCtxError> {
        let utxo_id = UtxoId::decompress_with(c.utxo_id, ctx).await?;
        let info = ctx.coin_info(&utxo_id).await?;
        let witness_index = <S::Witness as DecompressibleBy<SimRegistry>>::decompress_with(c.witness_index, ctx).await?;
        let predicate_gas_used =
            <S::PredicateGasUsed as DecompressibleBy<SimRegistry>>::decompress_with(c.predicate_gas_used, ctx).await?;
        let predicate = <S::Predicate as DecompressibleBy<SimRegistry>>::decompress_with(c.predicate, ctx).await?;
        let predicate_data = <S::PredicateData as DecompressibleBy<SimRegistry>>::decompress_with(c.predicate_data, ctx).await?;
        Ok(Coin {
            utxo_id,
            owner: info.owner,
            amount: info.amount,
            asset_id: info.asset_id,
            tx_pointer: Default::default(),
            witness_index,
            predicate_gas_used,
            predicate,
            predicate_data,
        })
    }
}

impl<S> DecompressibleBy<SimRegistry> for Message<S>
where
    S: MessageSpecification,
    S::Data: DecompressibleBy<SimRegistry> + Default,
    S::Predicate: DecompressibleBy<SimRegistry>,
    S::PredicateData: DecompressibleBy<SimRegistry>,
    S::PredicateGasUsed: DecompressibleBy<SimRegistry>,
    S::Witness: DecompressibleBy<SimRegistry>,
{
    async fn decompress_with(c: <Message<S> as Compressible>::Compressed, ctx: &SimRegistry) -> Result<Message<S>, SimCtxError> {
        let info = ctx.message_info(&c.nonce).await?;
        let witness_index = <S::Witness as DecompressibleBy<SimRegistry>>::decompress_with(c.witness_index, ctx).await?;
        let predicate_gas_used =
            <S::PredicateGasUsed as DecompressibleBy<SimRegistry>>::decompress_with(c.predicate_gas_used, ctx).await?;
        let predicate = <S::Predicate as DecompressibleBy<SimRegistry>>::decompress_with(c.predicate, ctx).await?;
        let predicate_data = <S::PredicateData as DecompressibleBy<SimRegistry>>::decompress_with(c.predicate_data, ctx).await?;
        let mut m: Message<S> = Message {
            sender: info.sender,
            recipient: info.recipient,
            amount: info.amount,
            nonce: c.nonce,
            witness_index,
            predicate_gas_used,
            data: Default::default(),
            predicate,
            predicate_data,
        };
        if let Some(d) = m.data.as_mut_field() {
            *d = Bytes::new(info.data);
        }
        Ok(m)
    }
}

impl DecompressibleBy<SimRegistry> for Mint {
    async fn decompress_with(c: <Mint as Compressible>::Compressed, ctx: &SimRegistry) -> Result<Mint, SimCtxError> {
        ctx.read_gate().await?;
        let ptr = ctx.st.mint_pointer.ok_or(SimCtxError::NoMintPointer)?;
        Ok(Transaction::mint(
            ptr,
            <fuel_tx::input::contract::Contract as DecompressibleBy<SimRegistry>>::decompress_with(c.input_contract, ctx).await?,
            <fuel_tx::output::contract::Contract as DecompressibleBy<SimRegistry>>::decompress_with(c.output_contract, ctx).await?,
            <Word as DecompressibleBy<SimRegistry>>::decompress_with(c.mint_amount, ctx).await?,
            <AssetId as DecompressibleBy<SimRegistry>>::decompress_with(c.mint_asset_id, ctx).await?,
            <Word as DecompressibleBy<SimRegistry>>::decompress_with(c.gas_price, ctx).await?,
        ))
    }
}
