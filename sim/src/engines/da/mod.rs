//! `da` engine — C07: DA compression round-trip over transaction streams that share one
//! registry context, under failing / pending / cancelled registry calls, key wrap-around and
//! eviction, delayed and interleaved decompression.
pub mod exec;
pub mod registry;
pub mod sim;
pub mod txgen;

use crate::kernel::*;

fn da_describe(_prop: &str) -> EngineDescription {
    EngineDescription {
        rule: "Seeded streams of 8–64 transactions (Script, Create, Mint, Upgrade, Upload, Blob; inputs of all seven variants, outputs of all five; addresses, asset ids, contract ids, script and predicate code, UTXOs and messages drawn from small per-run pools so they repeat; every skipped field filled with a non-default value) are compressed with the derived compress_with into one SimRegistry whose five key cursors start a seeded distance below RegistryKey::MAX_WRITABLE, or a few keys below a carry into the middle or top key byte, over a pre-populated low key range (one transaction in 48 carries one list — inputs, outputs, witnesses, storage slots or proof set — of 254–300 items), travel as postcard bytes, and are decompressed block-wise (1–4 transactions polled in a seeded interleaving over one shared context) against the registry snapshot of their block, 0–4 blocks later. Faults: k-th registry call of a compression fails before or after its write (error must surface unchanged, registry rolled back, transaction re-queued 0–3 places later and acknowledged at the first fault-free attempt), compression future dropped after p polls, k-th call of a block decompression fails, every call pends 0–3 times. Oracle per acknowledged transaction: same kind, witnesses, per-input predicate_gas_used, equality with the original in which exactly the 23 compress(skip) field sites are defaulted and coin/message data restored from the chain tables (value and canonical bytes), same id; plus RegistryKey::next against a successor model, immediate re-compression idempotence, whole-stream second pass unchanged when nothing was evicted, interleaved == sequential. A run is non-trivial when a registry key is reused by a later transaction and (a key cursor wrapped or an injected fault fired); distinct = distinct event digests among non-trivial runs.".into(),
        real_components: vec![
            "fuel_compression::RegistryKey (next, as_u32, TryFrom<u32>, DEFAULT_VALUE, MAX_WRITABLE)".into(),
            "derive(Compress, Decompress) output for Transaction, Script/Create/Upgrade/Upload/Blob bodies, ChargeableTransaction, Input, Output, Contract input/output, Witness, StorageSlot, TxPointer, UpgradePurpose, Empty<T>; derive(Compress) for Coin<S>, Message<S>, Mint".into(),
            "fuel_compression identity / Vec / Bytes impls, Policies and PoliciesBits impls".into(),
            "postcard + serde impls of the compressed types (incl. hand-written Policies serde)".into(),
            "UniqueIdentifier::id, canonical Serialize::to_bytes, Cacheable::precompute".into(),
        ],
        stub_components: vec![
            "SimRegistry: five keyspaces with eviction and keep-keys-per-block, default-key shortcut (per run), versioned snapshots, failing / pending calls".into(),
            "chain tables (UTXO id <-> compressed id, coin info, message info, mint position) derived from the scenario's transactions".into(),
            "context-side DecompressibleBy impls for Coin<S>, Message<S>, Mint (shape of fuel-tx/src/tests/da_compression.rs)".into(),
            "single-threaded executor with no-op waker, explicit poll schedule".into(),
        ],
        assumptions: vec![
            "The eviction policy (overwrite at the write cursor, never a key referenced in the current block) is the simulator's; fuel-core's registry is not in this repository.".into(),
            "A UTXO id / message nonce has one owner/amount/asset resp. sender/recipient/amount/data for the whole stream; transactions contradicting an earlier one are skipped and counted.".into(),
            "After a failed or cancelled compression the embedder rolls the registry back to the pre-transaction snapshot.".into(),
            "Transactions are generated structurally (not necessarily valid for execution); sizes: ≤ 10 inputs/outputs, ≤ 3 witnesses ≤ 1.5 KiB, code ≤ 200 bytes.".into(),
        ],
        distinct_state_measure: "distinct event digests (attempt outcomes, compressed-bytes hashes, decompressed ids, final cursors) of non-trivial runs".into(),
        simulated_time_keys: vec!["transactions".into(), "attempts".into(), "registry_calls".into(), "blocks".into(), "compressed_bytes".into()],
    }
}

pub static DA: EngineDef = EngineDef {
    name: "da",
    props: &["C07"],
    generate: gen_erased::<sim::Da>,
    run: run_erased::<sim::Da>,
    shrink: shrink_erased::<sim::Da>,
    summarize: summarize_erased::<sim::Da>,
    describe: da_describe,
    runs: |_| (320_000, 6_000_000),
};
