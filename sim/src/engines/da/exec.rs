//! A single-threaded executor for the compression futures: no reactor, no timers, no threads.
//! A future that returns `Pending` is simply polled again; *which* future is polled next is
//! decided by an explicit schedule, so a run is a pure function of its scenario.

use std::future::Future;
use std::pin::Pin;
use std::task::{Context, Poll, Waker};

/// Upper bound of polls of one future / one group; a registry call pends at most a few times,
/// so hitting this means the harness (not the code under test) is stuck.
pub const MAX_POLLS: usize = 1 << 20;

/// A future that returns `Pending` `n` times before it completes.
pub struct Pend(pub u8);

impl Future for Pend {
    type Output = ();
    fn poll(mut self: Pin<&mut Self>, cx: &mut Context<'_>) -> Poll<()> {
        if self.0 == 0 {
            Poll::Ready(())
        } else {
            self.0 -= 1;
            cx.waker().wake_by_ref();
            Poll::Pending
        }
    }
}

/// Poll `f` at most `n` times. `None` = still pending after `n` polls.
pub fn poll_n<F: Future + ?Sized>(mut f: Pin<&mut F>, n: usize) -> (Option<F::Output>, usize) {
    let mut cx = Context::from_waker(Waker::noop());
    for i in 0..n {
        if let Poll::Ready(v) = f.as_mut().poll(&mut cx) {
            return (Some(v), i + 1);
        }
    }
    (None, n)
}

/// Drive one future to completion. `None` only if the poll bound is hit.
pub fn block_on<F: Future>(f: F) -> Option<F::Output> {
    let mut f = std::pin::pin!(f);
    poll_n(f.as_mut(), MAX_POLLS).0
}

pub type Task<'a, T> = Pin<Box<dyn Future<Output = T> + 'a>>;

/// Drive several futures that share borrowed state; at every step the schedule picks which
/// live task is polled (`sched[i % len] % live`). Returns the outputs in task order and the
/// number of task switches that happened while more than one task was live.
pub fn run_interleaved<T>(tasks: Vec<Task<'_, T>>, sched: &[u8]) -> (Vec<Option<T>>, u64) {
    let mut cx = Context::from_waker(Waker::noop());
    let n = tasks.len();
    let mut out: Vec<Option<T>> = (0..n).map(|_| None).collect();
    let mut live: Vec<(usize, Task<'_, T>)> = tasks.into_iter().enumerate().collect();
    let mut step = 0usize;
    let mut last = usize::MAX;
    let mut switches = 0u64;
    while !live.is_empty() && step < MAX_POLLS {
        let pick = if sched.is_empty() { 0 } else { sched[step % sched.len()] as usize % live.len() };
        step += 1;
        let id = live[pick].0;
        if live.len() > 1 && last != usize::MAX && last != id {
            switches += 1;
        }
        last = id;
        if let Poll::Ready(v) = live[pick].1.as_mut().poll(&mut cx) {
            out[id] = Some(v);
            drop(live.remove(pick));
        }
    }
    (out, switches)
}
