//! C23 — execution of a pool life against real `MemoryInstance`s, judged operation by
//! operation by the `flatmem` model.

use super::{Op, Own, Scenario};
use crate::kernel::*;
use crate::models::flatmem::{first_nonzero, Access, FlatMem, SIZE};
use fuel_asm::PanicReason;
use fuel_vm::constraints::reg_key::{Reg, RegMut, HP, SP};
use fuel_vm::consts::{MEM_SIZE, VM_MAX_RAM};
use fuel_vm::interpreter::{MemoryInstance, OwnershipRegisters};
use std::panic::{catch_unwind, AssertUnwindSafe};

pub const MAX_SNAPSHOTS: usize = 4;
const NTASKS: usize = 3;

/// Deterministic write data: tag 0 is all zeros, any other tag gives non-zero bytes that
/// change from position to position.
pub fn pattern(tag: u32, len: usize) -> Vec<u8> {
    if tag == 0 {
        return vec![0u8; len];
    }
    let t = tag.wrapping_mul(0x85EB_CA6B);
    (0..len)
        .map(|i| ((((i as u32).wrapping_mul(0x9E37_79B1) ^ t) >> 24) as u8) | 1)
        .collect()
}

/// What a call on the real instance returned.
#[derive(Clone, Copy, Debug, PartialEq, Eq)]
struct Res {
    ok: bool,
    /// PanicReason as u8 (0 on Ok).
    reason: u8,
    /// Extra outputs (verify: range start/end; slices: length).
    a: u64,
    b: u64,
}

impl Res {
    fn ok() -> Res {
        Res { ok: true, reason: 0, a: 0, b: 0 }
    }
    fn err(r: PanicReason) -> Res {
        Res { ok: false, reason: r as u8, a: 0, b: 0 }
    }
}

fn owner(o: &Own) -> OwnershipRegisters {
    OwnershipRegisters::verif_new(o.sp, o.ssp, o.hp, o.prev_hp)
}

fn norm_read_n(n: u8) -> u64 {
    match n {
        1 => 1,
        32 => 32,
        _ => 8,
    }
}

fn norm_write_n(n: u8) -> u64 {
    if n == 32 { 32 } else { 8 }
}

/// Apply a plain memory operation to a real instance. `data` is what a successful write
/// stores; `on_read` sees what a successful read returned.
fn exec_real(
    mem: &mut MemoryInstance,
    hp_reg: &mut u64,
    op: &Op,
    data: &[u8],
    mut on_read: impl FnMut(u64, &[u8]),
) -> Res {
    fn fill(dst: &mut [u8], data: &[u8]) -> Res {
        let n = dst.len() as u64;
        if dst.len() == data.len() {
            dst.copy_from_slice(data);
        }
        Res { ok: true, reason: 0, a: n, b: 0 }
    }
    match op {
        Op::GrowStack { sp } => match mem.grow_stack(*sp) {
            Ok(()) => Res::ok(),
            Err(e) => Res::err(e),
        },
        Op::GrowHeap { sp, amount } => {
            let spv: u64 = *sp;
            match mem.grow_heap_by(Reg::<SP>::new(&spv), RegMut::<HP>::new(hp_reg), *amount) {
                Ok(()) => Res::ok(),
                Err(e) => Res::err(e),
            }
        }
        Op::Verify { addr, len } => match mem.verify(*addr, *len) {
            Ok(r) => Res { ok: true, reason: 0, a: r.start() as u64, b: r.end() as u64 },
            Err(e) => Res::err(e),
        },
        Op::Read { addr, len } => match mem.read(*addr, *len) {
            Ok(s) => {
                on_read(*addr, s);
                Res { ok: true, reason: 0, a: s.len() as u64, b: 0 }
            }
            Err(e) => Res::err(e),
        },
        Op::ReadBytes { addr, n } => {
            let r: Result<Vec<u8>, PanicReason> = match norm_read_n(*n) {
                1 => mem.read_bytes::<_, 1>(*addr).map(|a| a.to_vec()),
                32 => mem.read_bytes::<_, 32>(*addr as usize).map(|a| a.to_vec()),
                _ => mem.read_bytes::<_, 8>(*addr).map(|a| a.to_vec()),
            };
            match r {
                Ok(v) => {
                    on_read(*addr, &v);
                    Res { ok: true, reason: 0, a: v.len() as u64, b: 0 }
                }
                Err(e) => Res::err(e),
            }
        }
        Op::WriteRaw { addr, len, .. } => match mem.write_noownerchecks(*addr, *len) {
            Ok(s) => fill(s, data),
            Err(e) => Res::err(e),
        },
        Op::Write { own, addr, len, .. } => match mem.write(owner(own), *addr, *len) {
            Ok(s) => fill(s, data),
            Err(e) => Res::err(e),
        },
        Op::WriteBytes { own, addr, n, .. } => {
            let r = if norm_write_n(*n) == 32 {
                let mut a = [0u8; 32];
                if data.len() == 32 {
                    a.copy_from_slice(data);
                }
                mem.write_bytes(owner(own), *addr, a)
            } else {
                let mut a = [0u8; 8];
                if data.len() == 8 {
                    a.copy_from_slice(data);
                }
                mem.write_bytes(owner(own), *addr as usize, a)
            };
            match r {
                Ok(()) => Res { ok: true, reason: 0, a: norm_write_n(*n), b: 0 },
                Err(e) => Res::err(e),
            }
        }
        Op::Memcopy { own, dst, src, len } => match mem.memcopy(*dst, *src, *len, owner(own)) {
            Ok(()) => Res::ok(),
            Err(e) => Res::err(e),
        },
        Op::Reset => {
            // Interpreter::init_inner: memory.reset(), registers[HP] = VM_MAX_RAM.
            mem.reset();
            *hp_reg = VM_MAX_RAM;
            Res::ok()
        }
        Op::Snapshot | Op::Rollback { .. } | Op::EqSnap { .. } | Op::EqTouched { .. } => Res::ok(),
    }
}

fn op_code(op: &Op) -> u64 {
    match op {
        Op::GrowStack { .. } => 1,
        Op::GrowHeap { .. } => 2,
        Op::Verify { .. } => 3,
        Op::Read { .. } => 4,
        Op::ReadBytes { .. } => 5,
        Op::WriteRaw { .. } => 6,
        Op::Write { .. } => 7,
        Op::WriteBytes { .. } => 8,
        Op::Memcopy { .. } => 9,
        Op::Reset => 10,
        Op::Snapshot => 11,
        Op::Rollback { .. } => 12,
        Op::EqSnap { .. } => 13,
        Op::EqTouched { .. } => 14,
    }
}

/// A pooled instance with what the harness knows about its past.
struct Inst {
    mem: MemoryInstance,
    /// The HP register the embedder keeps next to the instance.
    hp_reg: u64,
    uses: u32,
    resets: u32,
    /// Lowest heap address that may still hold non-zero bytes of an earlier epoch
    /// (before the last reset); SIZE when none.
    garbage_lo: u64,
    /// Same, left behind by a rollback in the current epoch.
    rolled_lo: u64,
    /// Lowest heap address written with non-zero bytes in the current epoch.
    epoch_lo: u64,
}

impl Inst {
    fn fresh() -> Inst {
        Inst { mem: MemoryInstance::new(), hp_reg: VM_MAX_RAM, uses: 0, resets: 0, garbage_lo: SIZE, rolled_lo: SIZE, epoch_lo: SIZE }
    }
    fn note_reset(&mut self) {
        self.garbage_lo = self.garbage_lo.min(self.epoch_lo).min(self.rolled_lo);
        self.epoch_lo = SIZE;
        self.rolled_lo = SIZE;
        self.resets += 1;
    }
}

struct Snap {
    mem: MemoryInstance,
    twin: Option<MemoryInstance>,
    model: FlatMem,
    meets: u32,
    /// resets of the instance when the snapshot was taken
    resets: u32,
}

struct Twin {
    mem: MemoryInstance,
    hp_reg: u64,
}

struct Live {
    session: usize,
    next_op: usize,
    inst: Inst,
    model: FlatMem,
    twin: Option<Twin>,
    snaps: Vec<Snap>,
    /// Number of times stack and heap met / the heap overtook stack extent so far.
    meets: u32,
    was_met: bool,
    touched: Vec<u64>,
}

fn acc_name(a: Access) -> &'static str {
    match a {
        Access::Ok => "accessible",
        Access::OutOfBounds => "out of the 64 MiB array",
        Access::Gap => "touching the gap",
        Access::EmptyInGap => "empty in the gap",
    }
}

/// Compare the whole accessible content with the model.
fn full_check(mem: &MemoryInstance, m: &FlatMem, inv: &str, sig: &str, at: &str, ctx: &mut RunCtx) -> bool {
    let regions = [(0u64, m.stack_hwm), (m.hp, SIZE - m.hp)];
    for (start, len) in regions {
        match mem.read(start, len) {
            Ok(s) => {
                ctx.stats.add("time.bytes_compared", s.len() as u64);
                if s.len() as u64 != len {
                    return ctx.violate(inv, sig, format!("{at}: read({start:#x}, {len:#x}) returned {} bytes", s.len()));
                }
                if let Some((off, want, got)) = m.diff(start, s) {
                    return ctx.violate(
                        inv,
                        sig,
                        format!(
                            "{at}: byte at {:#x} is {got:#04x}, flat model has {want:#04x} (stack extent {:#x}, hp {:#x})",
                            start + off,
                            m.stack_hwm,
                            m.hp
                        ),
                    );
                }
            }
            Err(e) => {
                return ctx.violate(
                    "access",
                    "access:region-refused",
                    format!("{at}: read({start:#x}, {len:#x}) of a whole accessible region failed with {e:?} (stack extent {:#x}, hp {:#x})", m.stack_hwm, m.hp),
                );
            }
        }
    }
    false
}

/// Sampled sweep: accessibility and content at the region borders and at seeded addresses.
fn sweep(mem: &MemoryInstance, m: &FlatMem, seed: u64, touched: &[u64], at: &str, ctx: &mut RunCtx) -> bool {
    let mut r = Rng::new(seed);
    let (hwm, hp) = (m.stack_hwm, m.hp);
    let borders = [0u64, hwm, hp, SIZE];
    let mut addrs: Vec<u64> = Vec::with_capacity(64);
    for b in borders {
        for d in 0..=2u64 {
            addrs.push(b + d);
            if b >= d {
                addrs.push(b - d);
            }
        }
    }
    for i in 0..32u64 {
        let a = match i % 4 {
            0 if hwm > 0 => r.below(hwm),
            1 if hp < SIZE => hp + r.below(SIZE - hp),
            2 if !touched.is_empty() => {
                let t = touched[r.usize_below(touched.len())];
                (t + r.below(5)).saturating_sub(2)
            }
            _ => r.below(SIZE + 2),
        };
        addrs.push(a);
    }
    ctx.stats.add("time.sweep_points", addrs.len() as u64);
    for &a in &addrs {
        let acc = m.access(a, 1);
        match (acc, mem.read(a, 1u64)) {
            (Access::Ok, Ok(s)) => {
                if s.len() != 1 || s[0] != m.byte(a) {
                    return ctx.violate(
                        "content",
                        "content:sweep-byte",
                        format!("{at}: byte at {a:#x} reads {:?}, flat model has {:#04x} (stack extent {hwm:#x}, hp {hp:#x})", s, m.byte(a)),
                    );
                }
            }
            (Access::Ok, Err(e)) => {
                return ctx.violate(
                    "access",
                    "access:accessible-byte-refused",
                    format!("{at}: read({a:#x}, 1) failed with {e:?} but the byte is accessible (stack extent {hwm:#x}, hp {hp:#x})"),
                );
            }
            (_, Ok(_)) => {
                return ctx.violate(
                    "access",
                    "access:inaccessible-byte-granted",
                    format!("{at}: read({a:#x}, 1) succeeded but the byte is {} (stack extent {hwm:#x}, hp {hp:#x})", acc_name(acc)),
                );
            }
            (_, Err(_)) => {}
        }
    }
    // Ranges around the borders, the straddling ranges, whole regions.
    let mut ranges: Vec<(u64, u64)> = Vec::with_capacity(48);
    for b in borders {
        for (back, len) in [(2u64, 2u64), (2, 3), (1, 1), (1, 2), (0, 0), (0, 1), (1, 0), (2, 5)] {
            if b >= back {
                ranges.push((b - back, len));
            }
        }
        ranges.push((b + 1, 0));
    }
    ranges.push((0, hwm));
    ranges.push((0, hwm + 1));
    ranges.push((hp, SIZE - hp));
    ranges.push((hp, SIZE - hp + 1));
    if hp > 0 {
        ranges.push((hp - 1, SIZE - hp + 1));
    }
    ranges.push((0, SIZE));
    ranges.push((0, SIZE + 1));
    if hwm > 0 {
        // from inside the stack into the heap
        ranges.push((hwm - 1, (hp - (hwm - 1)) + 1));
        ranges.push((hwm - 1, SIZE - (hwm - 1)));
        ranges.push((r.below(hwm), SIZE));
    }
    let mut unmodelled = 0u64;
    for &(start, len) in &ranges {
        let acc = m.access(start, len);
        let got = mem.verify(start, len);
        match acc {
            Access::EmptyInGap => unmodelled += 1,
            Access::Ok => {
                if let Err(e) = got {
                    return ctx.violate(
                        "access",
                        "access:accessible-range-refused",
                        format!("{at}: verify({start:#x}, {len:#x}) failed with {e:?} but the range is accessible (stack extent {hwm:#x}, hp {hp:#x})"),
                    );
                }
            }
            Access::Gap | Access::OutOfBounds => {
                if got.is_ok() {
                    return ctx.violate(
                        "access",
                        "access:inaccessible-range-granted",
                        format!("{at}: verify({start:#x}, {len:#x}) succeeded but the range is {} (stack extent {hwm:#x}, hp {hp:#x})", acc_name(acc)),
                    );
                }
            }
        }
    }
    if unmodelled > 0 {
        ctx.stats.add("probe.unmodelled_empty_range_in_gap", unmodelled);
    }
    // A few short multi-byte reads with content.
    for _ in 0..8 {
        let a = addrs[r.usize_below(addrs.len())].saturating_sub(r.below(4));
        let len = r.range(2, 40);
        let acc = m.access(a, len);
        match (acc, mem.read(a, len)) {
            (Access::Ok, Ok(s)) => {
                if s.len() as u64 != len {
                    return ctx.violate("content", "content:sweep-range", format!("{at}: read({a:#x}, {len}) returned {} bytes", s.len()));
                }
                if let Some((off, want, got)) = m.diff(a, s) {
                    return ctx.violate(
                        "content",
                        "content:sweep-range",
                        format!("{at}: read({a:#x}, {len}): byte at {:#x} is {got:#04x}, flat model has {want:#04x} (stack extent {hwm:#x}, hp {hp:#x})", a + off),
                    );
                }
            }
            (Access::Ok, Err(e)) => {
                return ctx.violate(
                    "access",
                    "access:accessible-range-refused",
                    format!("{at}: read({a:#x}, {len}) failed with {e:?} but the range is accessible (stack extent {hwm:#x}, hp {hp:#x})"),
                );
            }
            (Access::EmptyInGap, _) => {}
            (_, Ok(_)) => {
                return ctx.violate(
                    "access",
                    "access:inaccessible-range-granted",
                    format!("{at}: read({a:#x}, {len}) succeeded but the range is {} (stack extent {hwm:#x}, hp {hp:#x})", acc_name(acc)),
                );
            }
            (_, Err(_)) => {}
        }
    }
    false
}

fn digest_read(ctx: &mut RunCtx, bytes: &[u8]) {
    let shown = if bytes.len() > 256 { &bytes[..256] } else { bytes };
    ctx.event_bytes("rd", shown);
}

/// Outcome kind of a rollback attempt on one real instance.
#[derive(PartialEq, Eq, Debug, Clone, Copy)]
enum Rb {
    Panicked,
    Equal,
    Applied,
}

fn panic_text(payload: Box<dyn std::any::Any + Send>) -> String {
    let msg = if let Some(s) = payload.downcast_ref::<&str>() {
        s.to_string()
    } else if let Some(s) = payload.downcast_ref::<String>() {
        s.clone()
    } else {
        "<non-string panic payload>".to_string()
    };
    // the kernel's hook (when installed) also knows the location
    match take_last_panic() {
        Some(full) => full,
        None => msg,
    }
}

fn real_rollback(mem: &mut MemoryInstance, target: &MemoryInstance) -> (Rb, Option<String>) {
    let data = match catch_unwind(AssertUnwindSafe(|| mem.collect_rollback_data(target))) {
        Ok(d) => d,
        Err(p) => return (Rb::Panicked, Some(format!("collect_rollback_data panicked: {}", panic_text(p)))),
    };
    match data {
        None => (Rb::Equal, None),
        Some(d) => match catch_unwind(AssertUnwindSafe(|| mem.rollback(&d))) {
            Ok(()) => (Rb::Applied, None),
            Err(p) => (Rb::Panicked, Some(format!("rollback panicked: {}", panic_text(p)))),
        },
    }
}

/// One operation of a session. Returns true when the run must stop.
fn step(live: &mut Live, op: &Op, big: bool, sweep_seed: u64, gstep: u64, ctx: &mut RunCtx) -> bool {
    let at = format!("session {} op {} {:?}", live.session, live.next_op, op);
    let at = at.as_str();
    ctx.event("op", gstep, op_code(op));
    ctx.stats.inc("time.mem_ops");
    let old_hwm = live.model.stack_hwm;
    let old_hp = live.model.hp;
    // Snapshot / rollback / == handle the twin themselves (or do not concern it).
    let mut twin_checked = false;
    // What the primary returned and which data a write stored, for the twin.
    let mut main_res: Option<Res> = None;
    let mut data_used: Vec<u8> = Vec::new();

    // --- the operation on the real instance and on the model -------------------------
    match op {
        Op::GrowStack { sp } => {
            let want = live.model.grow_stack(*sp);
            let got = exec_real(&mut live.inst.mem, &mut live.inst.hp_reg, op, &[], |_, _| {});
            main_res = Some(got);
            ctx.event("res", got.reason as u64, 0);
            if want.is_ok() != got.ok {
                return ctx.violate(
                    "growth",
                    "growth:stack",
                    format!("{at}: grow_stack({sp:#x}) returned reason {} but the model says {want:?} (stack extent {old_hwm:#x}, hp {old_hp:#x})", got.reason),
                );
            }
            if got.ok && live.model.stack_hwm > old_hwm {
                match live.inst.mem.read(old_hwm, live.model.stack_hwm - old_hwm) {
                    Ok(s) => {
                        if let Some(k) = first_nonzero(s) {
                            return ctx.violate(
                                "content",
                                "content:new-stack-bytes-nonzero",
                                format!("{at}: stack byte {:#x} reads {:#04x} right after the extent grew over it", old_hwm + k as u64, s[k]),
                            );
                        }
                    }
                    Err(e) => {
                        return ctx.violate("access", "access:accessible-range-refused", format!("{at}: new stack range refused with {e:?}"));
                    }
                }
            }
        }
        Op::GrowHeap { sp, amount } => {
            let retained = live.inst.mem.heap_raw().len() as u64;
            let want = live.model.grow_heap(*sp, *amount);
            let got = exec_real(&mut live.inst.mem, &mut live.inst.hp_reg, op, &[], |_, _| {});
            main_res = Some(got);
            ctx.event("res", got.reason as u64, live.inst.hp_reg);
            if want.is_ok() != got.ok {
                return ctx.violate(
                    "growth",
                    "growth:heap",
                    format!("{at}: grow_heap_by(sp={sp:#x}, {amount:#x}) returned reason {} but the model says {want:?} (stack extent {old_hwm:#x}, hp {old_hp:#x})", got.reason),
                );
            }
            if live.inst.hp_reg != live.model.hp {
                return ctx.violate(
                    "hp-register",
                    "hp-register:after-grow-heap",
                    format!("{at}: HP register is {:#x}, model hp {:#x}", live.inst.hp_reg, live.model.hp),
                );
            }
            if got.ok {
                let new_hp = live.model.hp;
                match live.inst.mem.read(new_hp, *amount) {
                    Ok(s) => {
                        if let Some(k) = first_nonzero(s) {
                            return ctx.violate(
                                "heap-zero",
                                "heap-zero:newly-allocated-byte-nonzero",
                                format!(
                                    "{at}: heap byte {:#x} reads {:#04x} right after being allocated (hp {old_hp:#x} -> {new_hp:#x}; instance used {} times, {} resets)",
                                    new_hp + k as u64,
                                    s[k],
                                    live.inst.uses,
                                    live.inst.resets
                                ),
                            );
                        }
                    }
                    Err(e) => {
                        return ctx.violate("access", "access:accessible-range-refused", format!("{at}: freshly allocated heap range refused with {e:?}"));
                    }
                }
                if *amount > 0 {
                    let new_len = SIZE - new_hp;
                    if retained >= new_len {
                        // served from the retained buffer
                        if live.inst.resets > 0 && live.inst.garbage_lo < old_hp {
                            ctx.stats.inc("probe.heap_regrow_after_reset_dirty");
                            ctx.nontrivial = true;
                        }
                        if live.inst.rolled_lo < old_hp {
                            ctx.stats.inc("probe.heap_regrow_after_rollback_dirty");
                        }
                    } else {
                        ctx.stats.inc("probe.heap_realloc");
                        if live.inst.garbage_lo < SIZE || live.inst.rolled_lo < SIZE {
                            ctx.stats.inc("probe.heap_realloc_over_garbage");
                        }
                        // the reallocating branch clears everything below hp
                        live.inst.garbage_lo = SIZE;
                        live.inst.rolled_lo = SIZE;
                    }
                }
                if live.model.stack_hwm < old_hwm {
                    live.meets += 1;
                    ctx.stats.inc("probe.heap_overtakes_stack_extent");
                }
            }
        }
        Op::Verify { addr, len } => {
            let acc = live.model.access(*addr, *len);
            let got = exec_real(&mut live.inst.mem, &mut live.inst.hp_reg, op, &[], |_, _| {});
            main_res = Some(got);
            ctx.event("res", got.reason as u64, got.b);
            match acc {
                Access::EmptyInGap => ctx.stats.inc("probe.unmodelled_empty_range_in_gap"),
                Access::Ok => {
                    if !got.ok {
                        return ctx.violate("access", "access:accessible-range-refused", format!("{at}: refused with reason {} but the range is accessible (stack extent {old_hwm:#x}, hp {old_hp:#x})", got.reason));
                    }
                    if got.a != *addr || got.b != *addr + *len {
                        return ctx.violate("access", "access:verify-range", format!("{at}: verify returned the range {:#x}..{:#x}", got.a, got.b));
                    }
                }
                _ => {
                    if got.ok {
                        return ctx.violate("access", "access:inaccessible-range-granted", format!("{at}: granted but the range is {} (stack extent {old_hwm:#x}, hp {old_hp:#x})", acc_name(acc)));
                    }
                }
            }
        }
        Op::Read { .. } | Op::ReadBytes { .. } => {
            let (addr, len) = match op {
                Op::Read { addr, len } => (*addr, *len),
                Op::ReadBytes { addr, n } => (*addr, norm_read_n(*n)),
                _ => (0, 0),
            };
            let acc = live.model.access(addr, len);
            let mut bad: Option<(u64, u8, u8)> = None;
            let mut got_len = 0u64;
            let model = &live.model;
            let mut head: Vec<u8> = Vec::new();
            let got = exec_real(&mut live.inst.mem, &mut live.inst.hp_reg, op, &[], |start, bytes| {
                got_len = bytes.len() as u64;
                head = bytes[..bytes.len().min(256)].to_vec();
                if acc == Access::Ok {
                    bad = model.diff(start, bytes);
                }
            });
            main_res = Some(got);
            ctx.event("res", got.reason as u64, got_len);
            digest_read(ctx, &head);
            match acc {
                Access::EmptyInGap => ctx.stats.inc("probe.unmodelled_empty_range_in_gap"),
                Access::Ok => {
                    if !got.ok {
                        return ctx.violate("access", "access:accessible-range-refused", format!("{at}: refused with reason {} but the range is accessible (stack extent {old_hwm:#x}, hp {old_hp:#x})", got.reason));
                    }
                    ctx.stats.add("time.bytes_compared", got_len);
                    if got_len != len {
                        return ctx.violate("content", "content:read", format!("{at}: returned {got_len} bytes"));
                    }
                    if let Some((off, want, g)) = bad {
                        return ctx.violate(
                            "content",
                            "content:read",
                            format!("{at}: byte at {:#x} is {g:#04x}, flat model has {want:#04x} (stack extent {old_hwm:#x}, hp {old_hp:#x})", addr + off),
                        );
                    }
                }
                _ => {
                    if got.ok {
                        return ctx.violate("access", "access:inaccessible-range-granted", format!("{at}: granted but the range is {} (stack extent {old_hwm:#x}, hp {old_hp:#x})", acc_name(acc)));
                    }
                }
            }
        }
        Op::WriteRaw { .. } | Op::Write { .. } | Op::WriteBytes { .. } => {
            let (addr, len, tag, owned) = match op {
                Op::WriteRaw { addr, len, tag } => (*addr, *len, *tag, false),
                Op::Write { addr, len, tag, .. } => (*addr, *len, *tag, true),
                Op::WriteBytes { addr, n, tag, .. } => (*addr, norm_write_n(*n), *tag, true),
                _ => (0, 0, 0, false),
            };
            let acc = live.model.access(addr, len);
            if acc == Access::Ok {
                data_used = pattern(tag, len as usize);
            }
            let data = &data_used;
            let got = exec_real(&mut live.inst.mem, &mut live.inst.hp_reg, op, data, |_, _| {});
            main_res = Some(got);
            ctx.event("res", got.reason as u64, got.a);
            match acc {
                Access::EmptyInGap => ctx.stats.inc("probe.unmodelled_empty_range_in_gap"),
                Access::Ok => {
                    if got.ok {
                        if got.a != len {
                            return ctx.violate("access", "access:write-slice-length", format!("{at}: the writable slice has {} bytes", got.a));
                        }
                        live.model.write(addr, data);
                        if len > 0 {
                            live.touched.push(addr);
                            live.touched.push(addr + len - 1);
                            if live.touched.len() > 16 {
                                live.touched.drain(..2);
                            }
                            if tag != 0 && addr >= live.model.hp {
                                live.inst.epoch_lo = live.inst.epoch_lo.min(addr);
                            }
                        }
                    } else if owned {
                        // ownership is C24's subject; here the refusal must only leave memory alone
                        ctx.stats.inc("probe.ownership_refused_write");
                    } else {
                        return ctx.violate("access", "access:accessible-range-refused", format!("{at}: refused with reason {} but the range is accessible (stack extent {old_hwm:#x}, hp {old_hp:#x})", got.reason));
                    }
                }
                _ => {
                    if got.ok {
                        return ctx.violate("access", "access:inaccessible-range-granted", format!("{at}: granted but the range is {} (stack extent {old_hwm:#x}, hp {old_hp:#x})", acc_name(acc)));
                    }
                }
            }
        }
        Op::Memcopy { dst, src, len, .. } => {
            let ad = live.model.access(*dst, *len);
            let asrc = live.model.access(*src, *len);
            let got = exec_real(&mut live.inst.mem, &mut live.inst.hp_reg, op, &[], |_, _| {});
            main_res = Some(got);
            ctx.event("res", got.reason as u64, 0);
            let refused = |a: Access| matches!(a, Access::Gap | Access::OutOfBounds);
            if refused(ad) || refused(asrc) {
                if got.ok {
                    return ctx.violate(
                        "access",
                        "access:inaccessible-range-granted",
                        format!("{at}: copy performed although dst is {} and src is {} (stack extent {old_hwm:#x}, hp {old_hp:#x})", acc_name(ad), acc_name(asrc)),
                    );
                }
            } else if ad == Access::EmptyInGap || asrc == Access::EmptyInGap {
                ctx.stats.inc("probe.unmodelled_empty_range_in_gap");
            } else if FlatMem::ranges_share_byte(*dst, *src, *len) {
                ctx.stats.inc("probe.memcopy_overlap_refused");
                if got.ok {
                    return ctx.violate(
                        "overlap",
                        "overlap:copy-performed",
                        format!("{at}: the ranges share a byte but the copy was performed"),
                    );
                }
                if got.reason != PanicReason::MemoryWriteOverlap as u8 {
                    return ctx.violate(
                        "overlap",
                        "overlap:reason",
                        format!("{at}: the ranges share a byte; refused with reason {} instead of MemoryWriteOverlap", got.reason),
                    );
                }
            } else if got.ok {
                live.model.copy(*dst, *src, *len);
                ctx.stats.inc("probe.memcopy_done");
                if *len > 0 {
                    live.touched.push(*dst);
                    live.touched.push(*dst + *len - 1);
                    if live.touched.len() > 16 {
                        live.touched.drain(..2);
                    }
                    if *dst >= live.model.hp {
                        live.inst.epoch_lo = live.inst.epoch_lo.min(*dst);
                    }
                }
            } else if got.reason == PanicReason::MemoryWriteOverlap as u8 {
                return ctx.violate(
                    "overlap",
                    "overlap:disjoint-refused",
                    format!("{at}: the ranges share no byte but the copy was refused with MemoryWriteOverlap"),
                );
            } else {
                ctx.stats.inc("probe.ownership_refused_copy");
            }
        }
        Op::Reset => {
            live.model.reset();
            main_res = Some(exec_real(&mut live.inst.mem, &mut live.inst.hp_reg, op, &[], |_, _| {}));
            live.inst.note_reset();
            ctx.event("res", 0, 0);
            ctx.stats.inc("probe.reset_in_history");
        }
        Op::Snapshot => {
            if live.snaps.len() < MAX_SNAPSHOTS {
                live.snaps.push(Snap {
                    mem: live.inst.mem.clone(),
                    twin: live.twin.as_ref().map(|t| t.mem.clone()),
                    model: live.model.clone(),
                    meets: live.meets,
                    resets: live.inst.resets,
                });
                ctx.stats.inc("probe.snapshot");
            } else {
                ctx.stats.inc("probe.snapshot_skipped");
            }
            twin_checked = true;
        }
        Op::Rollback { snap } => {
            twin_checked = true;
            if live.snaps.is_empty() {
                ctx.stats.inc("probe.rollback_without_snapshot");
            } else {
                let k = *snap as usize % live.snaps.len();
                let s = &live.snaps[k];
                if s.model.hp < live.model.hp {
                    // the API only allows the heap to shrink
                    ctx.stats.inc("probe.rollback_not_permitted_heap_would_grow");
                } else {
                    let stack_longer = s.model.stack_hwm > live.model.stack_hwm;
                    let (rb, msg) = real_rollback(&mut live.inst.mem, &s.mem);
                    ctx.event("res", rb as u64, k as u64);
                    match rb {
                        Rb::Panicked => {
                            let m = msg.unwrap_or_default();
                            let collect = m.starts_with("collect");
                            let sig = if collect && stack_longer {
                                "rollback-panic:snapshot-stack-extent-above-current"
                            } else if collect {
                                "rollback-panic:collect"
                            } else {
                                "rollback-panic:apply"
                            };
                            let stop = ctx.violate(
                                "rollback-panic",
                                sig,
                                format!(
                                    "{at}: rolling back to snapshot {k} (stack extent {:#x}, hp {:#x}) from (stack extent {old_hwm:#x}, hp {old_hp:#x}; {}): {m}",
                                    s.model.stack_hwm,
                                    s.model.hp,
                                    if live.inst.resets > s.resets { "a reset lies in between" } else { "no reset in between: the heap overtook stack extent" }
                                ),
                            );
                            if stop || !collect {
                                return true;
                            }
                            // listed known finding: collect_rollback_data takes &self, nothing changed
                            ctx.stats.inc(if live.inst.resets > s.resets { "probe.rollback_known_panic_across_reset" } else { "probe.rollback_known_panic_heap_overtook_stack" });
                        }
                        Rb::Equal => {
                            ctx.stats.inc("probe.rollback_nothing_to_do");
                            if !live.model.same_accessible(&s.model) {
                                return ctx.violate(
                                    "eq",
                                    "eq:different-states-reported-equal",
                                    format!("{at}: collect_rollback_data found the instance equal to snapshot {k}, the model states differ"),
                                );
                            }
                        }
                        Rb::Applied => {
                            if live.model.same_accessible(&s.model) {
                                return ctx.violate(
                                    "eq",
                                    "eq:equal-states-reported-different",
                                    format!("{at}: collect_rollback_data found the instance different from snapshot {k}, the model states are the same"),
                                );
                            }
                            live.inst.rolled_lo = live.inst.rolled_lo.min(live.inst.epoch_lo).min(old_hp);
                            live.model = s.model.clone();
                            // the VM restores the registers from its own diff
                            live.inst.hp_reg = live.model.hp;
                            ctx.stats.inc("probe.rollback_applied");
                            if live.inst.mem != s.mem {
                                return ctx.violate(
                                    "rollback",
                                    "rollback:not-equal-to-snapshot",
                                    format!("{at}: after rollback the instance is != snapshot {k}"),
                                );
                            }
                            if full_check(&live.inst.mem, &live.model, "rollback", "rollback:content", at, ctx) {
                                return true;
                            }
                            if s.meets < live.meets {
                                ctx.stats.inc("probe.rollback_across_meeting_point");
                                ctx.nontrivial = true;
                            }
                            if s.model.stack_hwm < old_hwm {
                                ctx.stats.inc("probe.rollback_shrinks_stack_extent");
                            }
                            if s.model.hp > old_hp {
                                ctx.stats.inc("probe.rollback_shrinks_heap");
                            }
                        }
                    }
                    // the fresh twin must go the same way
                    if let (Some(t), Some(ts)) = (live.twin.as_mut(), s.twin.as_ref()) {
                        let (trb, _) = if rb == Rb::Panicked { (Rb::Panicked, None) } else { real_rollback(&mut t.mem, ts) };
                        if trb != rb {
                            return ctx.violate(
                                "reuse-differs",
                                "reuse-differs:rollback",
                                format!("{at}: rollback went {rb:?} on the reused instance and {trb:?} on a fresh instance with the same history"),
                            );
                        }
                        if rb == Rb::Applied {
                            t.hp_reg = live.model.hp;
                        }
                        twin_checked = false;
                    }
                }
            }
        }
        Op::EqSnap { snap } => {
            twin_checked = true;
            if live.snaps.is_empty() {
                ctx.stats.inc("probe.eq_without_snapshot");
            } else {
                let k = *snap as usize % live.snaps.len();
                let s = &live.snaps[k];
                let got = live.inst.mem == s.mem;
                let want = live.model.same_accessible(&s.model);
                ctx.event("res", got as u64, k as u64);
                ctx.stats.inc(if want { "probe.eq_true" } else { "probe.eq_false" });
                if got != want {
                    return ctx.violate(
                        "eq",
                        "eq:snapshot",
                        format!("{at}: instance == snapshot {k} is {got}, the model's accessible states are {}", if want { "the same" } else { "different" }),
                    );
                }
            }
        }
        Op::EqTouched { addr } => {
            twin_checked = true;
            if live.model.access(*addr, 1) == Access::Ok {
                let mut c = live.inst.mem.clone();
                if c != live.inst.mem {
                    return ctx.violate("eq", "eq:clone", format!("{at}: a clone is != its original"));
                }
                let flip = |c: &mut MemoryInstance| -> bool {
                    match c.write_noownerchecks(*addr, 1usize) {
                        Ok(s) if s.len() == 1 => {
                            s[0] ^= 0x5A;
                            true
                        }
                        _ => false,
                    }
                };
                if !flip(&mut c) {
                    return ctx.violate("access", "access:accessible-range-refused", format!("{at}: byte {addr:#x} not writable in a clone"));
                }
                if c == live.inst.mem {
                    return ctx.violate("eq", "eq:one-byte-difference-unseen", format!("{at}: instances differing in accessible byte {addr:#x} compare equal"));
                }
                flip(&mut c);
                if c != live.inst.mem {
                    return ctx.violate("eq", "eq:clone", format!("{at}: clone with byte {addr:#x} restored is != its original"));
                }
                ctx.stats.inc("probe.eq_one_byte");
                ctx.event("res", 1, 0);
            } else {
                ctx.event("res", 0, 0);
            }
        }
    }

    // --- the fresh twin executes the same history (reused instances only) --------------
    if let Some(t) = live.twin.as_mut() {
        if !twin_checked {
            if let Some(mr) = main_res {
                let tr = exec_real(&mut t.mem, &mut t.hp_reg, op, &data_used, |_, _| {});
                if tr != mr {
                    return ctx.violate(
                        "reuse-differs",
                        "reuse-differs:result",
                        format!("{at}: returned {mr:?} on the reused instance and {tr:?} on a fresh instance with the same history"),
                    );
                }
            }
            if t.hp_reg != live.inst.hp_reg {
                return ctx.violate(
                    "reuse-differs",
                    "reuse-differs:hp-register",
                    format!("{at}: HP register {:#x} on the reused instance, {:#x} on a fresh instance with the same history", live.inst.hp_reg, t.hp_reg),
                );
            }
            if t.mem != live.inst.mem {
                return ctx.violate(
                    "reuse-differs",
                    "reuse-differs:not-equal-to-fresh-twin",
                    format!("{at}: the reused instance is != a fresh instance that executed the same history"),
                );
            }
            ctx.stats.inc("probe.twin_compared");
        }
    }

    // --- after every operation -----------------------------------------------------------
    let met = live.model.stack_hwm == live.model.hp;
    if met && !live.was_met {
        live.meets += 1;
        ctx.stats.inc("probe.stack_heap_meet");
    }
    live.was_met = met;
    ctx.event("st", live.model.stack_hwm, live.model.hp);
    if sweep(&live.inst.mem, &live.model, sweep_seed ^ gstep.wrapping_mul(0x9E37_79B9_7F4A_7C15), &live.touched, at, ctx) {
        return true;
    }
    if matches!(op, Op::Reset) || (!big && gstep % 16 == 15) {
        if full_check(&live.inst.mem, &live.model, "content", "content:full", at, ctx) {
            return true;
        }
    }
    false
}

/// Performance only: keep freed 64 MiB buffers inside the process (no mmap/munmap per
/// allocation), so that the near-limit runs do not pay 16 384 page faults for every big
/// `Vec`. Has no influence on any result.
fn tune_allocator() {
    #[cfg(all(target_os = "linux", target_env = "gnu"))]
    {
        static ONCE: std::sync::Once = std::sync::Once::new();
        ONCE.call_once(|| unsafe {
            libc::mallopt(libc::M_MMAP_MAX, 0);
            libc::mallopt(libc::M_TRIM_THRESHOLD, i32::MAX);
            libc::mallopt(libc::M_TOP_PAD, 64 << 20);
        });
    }
}

pub fn run(sc: &Scenario, ctx: &mut RunCtx) {
    tune_allocator();
    if MEM_SIZE as u64 != SIZE || VM_MAX_RAM != SIZE {
        ctx.violate("mem-size", "mem-size", format!("MEM_SIZE = {MEM_SIZE}, VM_MAX_RAM = {VM_MAX_RAM}, the property says 64 MiB"));
        return;
    }
    // per task: indices of its sessions, in order
    let mut queues: [std::collections::VecDeque<usize>; NTASKS] = Default::default();
    for (i, s) in sc.sessions.iter().enumerate() {
        queues[s.task as usize % NTASKS].push_back(i);
    }
    let mut cur: [Option<Live>; NTASKS] = [None, None, None];
    let mut pool: Vec<Inst> = Vec::new();
    let mut gstep = 0u64;
    let mut sched = sc.schedule.iter();

    loop {
        let has_work = |t: usize, cur: &[Option<Live>; NTASKS], queues: &[std::collections::VecDeque<usize>; NTASKS]| cur[t].is_some() || !queues[t].is_empty();
        // next task: from the schedule while it lasts, then task by task
        let mut t_opt = None;
        for e in sched.by_ref() {
            let t = *e as usize % NTASKS;
            if has_work(t, &cur, &queues) {
                t_opt = Some(t);
                break;
            }
        }
        if t_opt.is_none() {
            t_opt = (0..NTASKS).find(|t| has_work(*t, &cur, &queues));
        }
        let t = match t_opt {
            Some(t) => t,
            None => break,
        };

        if cur[t].is_none() {
            // acquire
            let si = match queues[t].pop_front() {
                Some(si) => si,
                None => continue,
            };
            let pick = sc.sessions[si].pick as usize;
            let mut inst = if pick == 0 || pool.is_empty() {
                Inst::fresh()
            } else {
                let k = (pick - 1) % pool.len();
                pool.remove(k)
            };
            let reused = inst.uses > 0;
            let retained_heap = inst.mem.heap_raw().len() as u64;
            // what the pool user does before running on the instance (Interpreter::init_inner)
            inst.mem.reset();
            inst.hp_reg = VM_MAX_RAM;
            inst.note_reset();
            inst.uses += 1;
            ctx.event("acq", si as u64, ((reused as u64) << 32) | retained_heap.min(u32::MAX as u64));
            ctx.stats.inc("time.sessions");
            if reused {
                ctx.stats.inc("probe.dirty_handout");
                if retained_heap > 0 || inst.garbage_lo < SIZE {
                    ctx.stats.inc("fault.dirty_memory");
                }
            }
            let twin = if reused && !sc.big { Some(Twin { mem: MemoryInstance::new(), hp_reg: VM_MAX_RAM }) } else { None };
            let live = Live {
                session: si,
                next_op: 0,
                inst,
                model: FlatMem::new(),
                twin,
                snaps: Vec::new(),
                meets: 0,
                was_met: false,
                touched: Vec::new(),
            };
            // a just-acquired instance is an empty memory
            if full_check(&live.inst.mem, &live.model, "content", "content:full", &format!("session {si} acquire"), ctx) {
                return;
            }
            if sweep(&live.inst.mem, &live.model, sc.sweep_seed ^ (si as u64) << 40, &[], &format!("session {si} acquire"), ctx) {
                return;
            }
            cur[t] = Some(live);
            continue;
        }

        let live = cur[t].as_mut().expect("checked above");
        let ops = &sc.sessions[live.session].ops;
        if live.next_op < ops.len() {
            let op = &ops[live.next_op];
            if step(live, op, sc.big, sc.sweep_seed, gstep, ctx) {
                return;
            }
            live.next_op += 1;
            gstep += 1;
        } else {
            // release dirty
            let at = format!("session {} release", live.session);
            if full_check(&live.inst.mem, &live.model, "content", "content:full", &at, ctx) {
                return;
            }
            if !live.model.gap_is_zero() {
                eprintln!("harness error: flatmem gap invariant broken");
                std::process::exit(2);
            }
            ctx.event("rel", live.session as u64, live.model.hp);
            let live = cur[t].take().expect("checked above");
            pool.push(live.inst);
        }
    }
}
