//! C23 — scenario generator and shrinker. The generator keeps its own prediction of the
//! two borders (stack extent, hp) and of the live stack pointer so that addresses and
//! sizes can be aimed at them; `run` never depends on that prediction.

use super::exec::MAX_SNAPSHOTS;
use super::{Op, Own, Scenario, Session};
use crate::kernel::*;

const SIZE: u64 = 1 << 26;
/// Successful growth in ordinary runs stays below this (per region).
const SMALL_REGION_CAP: u64 = 160 * 1024;
/// Longest successful write / copy generated (model pages are materialised for it).
const WRITE_CAP_SMALL: u64 = 64 * 1024;
const WRITE_CAP_BIG: u64 = 512 * 1024;

struct G {
    g: Rng,
    big: bool,
    hwm: u64,
    hp: u64,
    /// live stack pointer register (≤ hwm unless deliberately inconsistent)
    sp: u64,
    snaps: Vec<(u64, u64)>,
    touched: Vec<u64>,
    /// remaining budget of operations that move ≈ 64 MiB
    heavy_left: u32,
    tag: u32,
    // swarm weights
    w: [u32; 14],
}

impl G {
    fn next_tag(&mut self) -> u32 {
        self.tag = self.tag.wrapping_add(1);
        if self.g.chance(1, 12) { 0 } else { self.tag | 1 }
    }

    fn size(&mut self) -> u64 {
        match self.g.below(12) {
            0 => 0,
            1 => 1,
            2 => *self.g.pick(&[7u64, 8, 255, 256, 257]),
            3 => {
                let k = self.g.range(1, 16);
                (1u64 << k) + self.g.below(3) - 1
            }
            4 => self.g.below(64),
            5 => self.g.below(4096),
            6 => self.g.below(1 << 16),
            7 => 8,
            8 => 32,
            9 => self.g.below(600),
            _ => self.g.below(40),
        }
    }

    fn border(&mut self) -> u64 {
        match self.g.below(8) {
            0 => 0,
            1 | 2 | 3 => self.hwm,
            4 | 5 | 6 => self.hp,
            _ => SIZE,
        }
    }

    fn addr(&mut self) -> u64 {
        match self.g.below(16) {
            0 | 1 | 2 if self.hwm > 0 => self.g.below(self.hwm),
            3 | 4 | 5 if self.hp < SIZE => self.hp + self.g.below(SIZE - self.hp),
            6 | 7 | 8 => {
                let b = self.border();
                (b + self.g.below(5)).saturating_sub(2)
            }
            9 | 10 if !self.touched.is_empty() => {
                let t = *self.g.pick(&self.touched);
                (t + self.g.below(5)).saturating_sub(2)
            }
            11 => *self.g.pick(&[0u64, 1, 7, 8, 255, 256, 257]),
            12 => {
                let k = self.g.range(1, 26);
                (1u64 << k) + self.g.below(3) - 1
            }
            13 => self.g.below(SIZE + 3),
            14 => self.g.word_biased(),
            _ => self.sp,
        }
    }

    /// The accessible memory is large enough that whole-memory operations (clone,
    /// rollback diff, ==, full reads) cost tens of milliseconds.
    fn large(&self) -> bool {
        self.hwm + (SIZE - self.hp) > (1 << 20)
    }

    /// Spend one unit of the heavy budget if there is one.
    fn afford(&mut self) -> bool {
        if self.heavy_left > 0 {
            self.heavy_left -= 1;
            true
        } else {
            false
        }
    }

    fn cap(&self) -> u64 {
        if self.big { WRITE_CAP_BIG } else { WRITE_CAP_SMALL }
    }

    /// A range for verify / read / write.
    fn range(&mut self) -> (u64, u64) {
        match self.g.below(10) {
            0 | 1 => (self.addr(), self.size()),
            2 | 3 => {
                // ends at (or one off) a border
                let end = (self.border() + self.g.below(3)).saturating_sub(1);
                let len = self.size().min(end);
                (end - len, len)
            }
            4 | 5 if self.hwm > 0 => {
                let len = self.size().min(self.hwm);
                (self.g.below(self.hwm - len + 1), len)
            }
            6 | 7 if self.hp < SIZE => {
                let room = SIZE - self.hp;
                let len = self.size().min(room);
                (self.hp + self.g.below(room - len + 1), len)
            }
            8 => match self.g.below(6) {
                0 => (0, self.hwm),
                1 => (self.hp, SIZE - self.hp),
                2 => (0, SIZE),
                3 => (self.hwm, self.hp - self.hwm),
                4 => (self.hwm.saturating_sub(1), self.hp - self.hwm + 2),
                _ => (0, self.hwm + 1),
            },
            _ => {
                let a = self.addr();
                (a, self.g.below(64))
            }
        }
    }

    fn accessible(&self, start: u64, len: u64) -> bool {
        match start.checked_add(len) {
            Some(end) => end <= SIZE && (end <= self.hwm || start >= self.hp),
            None => false,
        }
    }

    /// Keep successful bulk operations affordable: shorten ranges that would succeed with
    /// a length above the cap (failing ones cost nothing).
    fn tame(&self, (a, len): (u64, u64)) -> (u64, u64) {
        if len > self.cap() && self.accessible(a, len) { (a, self.cap()) } else { (a, len) }
    }

    fn own(&mut self) -> Own {
        match self.g.below(10) {
            // everything accessible is owned: stack from 0 to the extent, the whole heap
            0 | 1 | 2 | 3 => Own { sp: self.hwm, ssp: 0, hp: self.hp, prev_hp: SIZE },
            // the registers of a running script: live sp, some ssp below it
            4 | 5 => {
                let ssp = self.g.below(self.sp + 1);
                Own { sp: self.sp, ssp, hp: self.hp, prev_hp: SIZE }
            }
            // stack only (predicate / only_allow_stack_write)
            6 => Own { sp: self.hwm, ssp: 0, hp: self.hp, prev_hp: self.hp },
            // an external context that owns only the heap below the caller's hp
            7 => {
                let prev = self.hp + self.g.below(SIZE - self.hp + 1);
                Own { sp: self.sp, ssp: self.sp, hp: self.hp, prev_hp: prev }
            }
            // whole memory as stack
            8 => Own { sp: SIZE, ssp: 0, hp: SIZE, prev_hp: SIZE },
            _ => Own { sp: self.g.word_biased(), ssp: self.g.word_biased(), hp: self.g.word_biased(), prev_hp: self.g.word_biased() },
        }
    }

    fn note_write(&mut self, a: u64, len: u64) {
        if len > 0 && self.accessible(a, len) {
            self.touched.push(a);
            self.touched.push(a + len - 1);
            if self.touched.len() > 12 {
                self.touched.drain(..2);
            }
        }
    }

    fn grow_stack(&mut self, force_meet: bool) -> Op {
        let choice = if force_meet { 9 } else { self.g.below(10) };
        let mut sp = match choice {
            0 | 1 | 2 | 3 => self.hwm + self.size(),
            4 => self.sp + self.size(),
            // shrink: live sp below the extent
            5 | 6 => self.g.below(self.hwm + 1),
            // refused targets
            7 => match self.g.below(4) {
                0 => self.hp + 1,
                1 => SIZE + 1,
                2 => self.g.word_biased(),
                _ => self.hp + self.size(),
            },
            // meet the heap
            _ => self.hp - self.g.below(3).min(self.hp),
        };
        let succeeds = sp <= SIZE && (sp <= self.hwm || sp <= self.hp);
        if succeeds && sp > self.hwm {
            let heavy = sp > SMALL_REGION_CAP;
            if heavy && !(self.big && self.heavy_left > 0) {
                // too expensive here: make it an ordinary step instead
                sp = (self.hwm + self.g.below(4096)).min(self.hp).min(SMALL_REGION_CAP.max(self.hwm));
            } else if heavy {
                self.heavy_left -= 1;
            }
        }
        let succeeds = sp <= SIZE && (sp <= self.hwm || sp <= self.hp);
        if succeeds {
            self.hwm = self.hwm.max(sp);
            self.sp = sp;
        }
        Op::GrowStack { sp }
    }

    fn grow_heap(&mut self, force_meet: bool) -> Op {
        let choice = if force_meet { 8 + self.g.below(3) } else { self.g.below(12) };
        let mut sp = self.sp;
        let gap_sp = self.hp - self.sp.min(self.hp);
        let mut amount = match choice {
            0 | 1 | 2 | 3 | 4 => self.size(),
            5 => 0,
            // refused amounts
            6 => gap_sp + 1,
            7 => match self.g.below(4) {
                0 => self.hp + 1,
                1 => u64::MAX - self.g.below(3),
                2 => SIZE + self.g.below(2),
                _ => self.g.word_biased(),
            },
            // down to the stack extent (meet), or one short / one too far
            8 => (self.hp - self.hwm + self.g.below(3)).saturating_sub(1),
            // with a live sp below the extent, the heap overtakes old stack extent
            9 | 10 => {
                sp = self.g.below(self.hwm + 1);
                let x = sp + self.g.below(self.hwm - sp + 1);
                self.hp - x
            }
            // a live sp above the extent (inconsistent, legal)
            _ => {
                sp = self.hwm + self.g.below(300);
                self.size()
            }
        };
        let ok = |amount: u64, sp: u64, hp: u64| amount <= hp && hp - amount >= sp;
        if ok(amount, sp, self.hp) && amount > 0 {
            let new_len = SIZE - (self.hp - amount);
            if new_len > SMALL_REGION_CAP {
                if self.big && self.heavy_left > 0 {
                    self.heavy_left -= 1;
                } else {
                    sp = self.sp;
                    amount = self.g.below(2048).min(SMALL_REGION_CAP.saturating_sub(SIZE - self.hp));
                }
            }
        }
        if ok(amount, sp, self.hp) {
            self.hp -= amount;
            self.hwm = self.hwm.min(self.hp);
            self.sp = self.sp.min(self.hp);
        }
        Op::GrowHeap { sp, amount }
    }

    fn memcopy(&mut self) -> Op {
        let own = self.own();
        let len = self.size().min(self.cap());
        // a source inside one of the regions when possible
        let src = match self.g.below(6) {
            0 | 1 | 2 if self.hwm >= len && self.hwm > 0 => self.g.below(self.hwm - len + 1),
            3 | 4 if SIZE - self.hp >= len && self.hp < SIZE => self.hp + self.g.below(SIZE - self.hp - len + 1),
            _ => self.addr(),
        };
        let dst = match self.g.below(12) {
            // the edge cases of "share a byte"
            0 => src,
            1 => src.saturating_add(1),
            2 => src.saturating_sub(1),
            3 => src.saturating_add(len.saturating_sub(1)),
            4 => src.saturating_sub(len.saturating_sub(1)),
            // adjacent: no shared byte
            5 => src.saturating_add(len),
            6 => src.saturating_sub(len),
            7 => src.saturating_add(len + 1),
            // elsewhere
            8 if self.hwm >= len && self.hwm > 0 => self.g.below(self.hwm - len + 1),
            9 if SIZE - self.hp >= len && self.hp < SIZE => self.hp + self.g.below(SIZE - self.hp - len + 1),
            10 => src.saturating_add(self.g.below(2 * len + 2)).saturating_sub(len),
            _ => self.addr(),
        };
        self.note_write(dst, len);
        Op::Memcopy { own, dst, src, len }
    }

    fn snapshot_or_verify(&mut self) -> Op {
        let cap = if self.big { 2 } else { MAX_SNAPSHOTS };
        if self.snaps.len() < cap && (!self.large() || self.afford()) {
            self.snaps.push((self.hwm, self.hp));
            Op::Snapshot
        } else {
            let (addr, len) = self.range();
            Op::Verify { addr, len }
        }
    }

    fn op(&mut self) -> Op {
        let w = self.w;
        match self.g.weighted(&w) {
            0 => {
                let force = self.big && self.heavy_left > 0 && self.g.chance(1, 3);
                self.grow_stack(force)
            }
            1 => {
                let force = self.big && self.heavy_left > 0 && self.g.chance(1, 2);
                self.grow_heap(force)
            }
            2 => {
                let (addr, len) = self.range();
                Op::Verify { addr, len }
            }
            3 => {
                let (addr, mut len) = self.range();
                if len > (1 << 20) && self.accessible(addr, len) && !self.afford() {
                    len = 1 << 16;
                }
                Op::Read { addr, len }
            }
            4 => {
                let n = *self.g.pick(&[1u8, 8, 32]);
                let addr = if self.g.bool() {
                    (self.border() + self.g.below(3)).saturating_sub(n as u64 + 1)
                } else {
                    self.addr()
                };
                Op::ReadBytes { addr, n }
            }
            5 => {
                let r = self.range();
                let (addr, len) = self.tame(r);
                self.note_write(addr, len);
                Op::WriteRaw { addr, len, tag: self.next_tag() }
            }
            6 => {
                let r = self.range();
                let (addr, len) = self.tame(r);
                self.note_write(addr, len);
                Op::Write { own: self.own(), addr, len, tag: self.next_tag() }
            }
            7 => {
                let n = *self.g.pick(&[8u8, 32]);
                let addr = if self.g.bool() {
                    (self.border() + self.g.below(3)).saturating_sub(n as u64 + 1)
                } else {
                    self.addr()
                };
                self.note_write(addr, n as u64);
                Op::WriteBytes { own: self.own(), addr, n, tag: self.next_tag() }
            }
            8 => self.memcopy(),
            9 => {
                self.hwm = 0;
                self.hp = SIZE;
                self.sp = 0;
                Op::Reset
            }
            10 => self.snapshot_or_verify(),
            11 => {
                let snap = self.g.below(MAX_SNAPSHOTS as u64) as u8;
                if self.snaps.is_empty() && self.g.chance(7, 8) {
                    return self.snapshot_or_verify();
                }
                if !self.snaps.is_empty() {
                    let (shwm, shp) = self.snaps[snap as usize % self.snaps.len()];
                    // the diff walks min(stack extents) + the snapshot's heap byte by byte
                    let walk = shwm.min(self.hwm) + (SIZE - shp);
                    if walk > (1 << 20) && !self.afford() {
                        let (addr, len) = self.range();
                        return Op::Verify { addr, len };
                    }
                    // performed only when the heap does not have to grow and (as the code
                    // stands) the snapshot's stack extent is not above the current one
                    if shp >= self.hp && shwm <= self.hwm && (shwm, shp) != (self.hwm, self.hp) {
                        self.hwm = shwm;
                        self.hp = shp;
                        self.sp = self.sp.min(shwm);
                    }
                }
                Op::Rollback { snap }
            }
            12 => {
                let snap = self.g.below(MAX_SNAPSHOTS as u64) as u8;
                if self.snaps.is_empty() && self.g.chance(7, 8) {
                    return self.snapshot_or_verify();
                }
                if self.large() && !self.snaps.is_empty() {
                    let (shwm, shp) = self.snaps[snap as usize % self.snaps.len()];
                    if shwm + (SIZE - shp) > (1 << 20) && !self.afford() {
                        let (addr, len) = self.range();
                        return Op::Verify { addr, len };
                    }
                }
                Op::EqSnap { snap }
            }
            _ => {
                if self.big {
                    let (addr, len) = self.range();
                    Op::Verify { addr, len }
                } else {
                    Op::EqTouched { addr: self.addr() }
                }
            }
        }
    }
}

fn session_ops(g: &mut Rng, big: bool, heavy: u32, nops: usize) -> Vec<Op> {
    let w = [
        *g.pick(&[4u32, 8, 14]),  // grow_stack
        *g.pick(&[4u32, 8, 14]),  // grow_heap
        *g.pick(&[1u32, 3]),      // verify
        *g.pick(&[2u32, 6]),      // read
        *g.pick(&[1u32, 3]),      // read_bytes
        *g.pick(&[4u32, 10]),     // write_noownerchecks
        *g.pick(&[1u32, 4]),      // write
        *g.pick(&[0u32, 2]),      // write_bytes
        *g.pick(&[2u32, 6, 10]),  // memcopy
        *g.pick(&[0u32, 1, 3]),   // reset
        *g.pick(&[0u32, 2, 4]),   // snapshot
        *g.pick(&[0u32, 3, 6]),   // rollback
        *g.pick(&[0u32, 1, 2]),   // == snapshot
        *g.pick(&[0u32, 1]),      // == after touching one byte
    ];
    let mut w = w;
    if big {
        w[10] = w[10].max(2);
        w[11] = w[11].max(4);
    }
    let mut st = G {
        g: g.fork("ops"),
        big,
        hwm: 0,
        hp: SIZE,
        sp: 0,
        snaps: Vec::new(),
        touched: Vec::new(),
        heavy_left: heavy,
        tag: g.next_u32() & 0xffff,
        w,
    };
    let mut ops = Vec::with_capacity(nops);
    // most histories start like a script: some stack, often some heap
    if st.g.chance(3, 4) {
        ops.push(st.grow_stack(false));
    }
    if big && st.g.chance(3, 4) {
        // a cheap rollback target from before stack and heap meet
        if st.g.bool() {
            ops.push(st.grow_heap(false));
        }
        ops.push(st.snapshot_or_verify());
    }
    while ops.len() < nops {
        let op = st.op();
        ops.push(op);
    }
    ops.truncate(nops.max(1));
    ops
}

pub fn generate(rng: &mut Rng, tier: Tier) -> Scenario {
    let mut g = rng.fork("gen");
    let mut f = rng.fork("fault");
    let mut s = rng.fork("sched");
    let _ = tier;
    // a third of all runs hands out only fresh instances (no dirty memory)
    let faulty = g.below(3) != 0;
    let big = g.chance(1, 50);
    let ntasks = g.range(1, 3) as u8;
    let nsessions = if big { g.range(1, 3) } else { g.range(1, 6) } as usize;
    let max_ops = if big { 20 } else { *g.pick(&[6u64, 12, 24, 40, 64]) };
    let mut sessions = Vec::with_capacity(nsessions);
    let mut heavy_budget: u32 = if big { g.range(2, 4) as u32 } else { 0 };
    for i in 0..nsessions {
        let nops = g.range(1, max_ops) as usize;
        let pick = if faulty && i > 0 && f.below(4) != 0 { 1 + f.below(6) as u8 } else { 0 };
        let heavy = if big { heavy_budget.min(1 + g.below(3) as u32) } else { 0 };
        heavy_budget -= heavy;
        let ops = session_ops(&mut g, big, heavy, nops);
        sessions.push(Session { task: s.below(ntasks as u64) as u8, pick, ops });
    }
    // schedule: either task after task (empty) or an interleaving
    let total: usize = sessions.iter().map(|x| x.ops.len() + 2).sum();
    let schedule: Vec<u8> = match s.below(3) {
        0 => Vec::new(),
        1 => (0..total).map(|_| s.below(ntasks as u64) as u8).collect(),
        _ => {
            // bursts
            let mut v = Vec::with_capacity(total);
            while v.len() < total {
                let t = s.below(ntasks as u64) as u8;
                for _ in 0..s.range(1, 12) {
                    v.push(t);
                }
            }
            v
        }
    };
    Scenario { big, sweep_seed: g.next_u64(), sessions, schedule }
}

fn simpler_num(x: u64) -> Vec<u64> {
    let mut v = Vec::new();
    if x > 0 {
        v.push(0);
    }
    if x > 1 {
        v.push(1);
        v.push(x / 2);
    }
    if x > 8 {
        v.push(8);
    }
    v
}

fn simpler_ops(op: &Op) -> Vec<Op> {
    let full = |hp: u64| Own { sp: SIZE, ssp: 0, hp, prev_hp: SIZE };
    let mut out = Vec::new();
    match op {
        Op::GrowStack { sp } => {
            for x in simpler_num(*sp) {
                out.push(Op::GrowStack { sp: x });
            }
        }
        Op::GrowHeap { sp, amount } => {
            for x in simpler_num(*amount) {
                out.push(Op::GrowHeap { sp: *sp, amount: x });
            }
            for x in simpler_num(*sp) {
                out.push(Op::GrowHeap { sp: x, amount: *amount });
            }
        }
        Op::Verify { addr, len } => {
            for x in simpler_num(*len) {
                out.push(Op::Verify { addr: *addr, len: x });
            }
        }
        Op::Read { addr, len } => {
            for x in simpler_num(*len) {
                out.push(Op::Read { addr: *addr, len: x });
            }
        }
        Op::ReadBytes { addr, n } if *n != 1 => out.push(Op::ReadBytes { addr: *addr, n: 1 }),
        Op::WriteRaw { addr, len, tag } => {
            for x in simpler_num(*len) {
                out.push(Op::WriteRaw { addr: *addr, len: x, tag: *tag });
            }
            if *tag != 1 {
                out.push(Op::WriteRaw { addr: *addr, len: *len, tag: 1 });
            }
        }
        Op::Write { own, addr, len, tag } => {
            out.push(Op::WriteRaw { addr: *addr, len: *len, tag: *tag });
            let _ = own;
        }
        Op::WriteBytes { addr, n, tag, .. } => {
            out.push(Op::WriteRaw { addr: *addr, len: if *n == 32 { 32 } else { 8 }, tag: *tag });
        }
        Op::Memcopy { own, dst, src, len } => {
            for x in simpler_num(*len) {
                out.push(Op::Memcopy { own: *own, dst: *dst, src: *src, len: x });
            }
            let f = full(own.hp);
            if *own != f {
                out.push(Op::Memcopy { own: f, dst: *dst, src: *src, len: *len });
            }
        }
        Op::Rollback { snap } if *snap != 0 => out.push(Op::Rollback { snap: 0 }),
        Op::EqSnap { snap } if *snap != 0 => out.push(Op::EqSnap { snap: 0 }),
        _ => {}
    }
    out
}

pub fn shrink(sc: &Scenario) -> Vec<Scenario> {
    let mut out = Vec::new();
    let ns = sc.sessions.len();
    // sequential schedule
    if !sc.schedule.is_empty() {
        out.push(Scenario { schedule: Vec::new(), ..sc.clone() });
    }
    // drop whole sessions
    if ns > 1 {
        for i in (0..ns).rev() {
            let mut c = sc.clone();
            c.sessions.remove(i);
            out.push(c);
        }
    }
    // fresh instead of reused
    for i in 0..ns {
        if sc.sessions[i].pick != 0 {
            let mut c = sc.clone();
            c.sessions[i].pick = 0;
            out.push(c);
        }
        if sc.sessions[i].task != 0 {
            let mut c = sc.clone();
            c.sessions[i].task = 0;
            out.push(c);
        }
    }
    if sc.big {
        out.push(Scenario { big: false, ..sc.clone() });
    }
    // drop halves, then single operations
    for i in 0..ns {
        let n = sc.sessions[i].ops.len();
        if n > 3 {
            for (lo, hi) in [(0, n / 2), (n / 2, n), (n / 4, n), (0, n - n / 4)] {
                let mut c = sc.clone();
                c.sessions[i].ops = sc.sessions[i].ops[lo..hi].to_vec();
                out.push(c);
            }
        }
    }
    for i in 0..ns {
        let n = sc.sessions[i].ops.len();
        for j in (0..n).rev() {
            let mut c = sc.clone();
            c.sessions[i].ops.remove(j);
            out.push(c);
        }
    }
    // simplify single operations
    for i in 0..ns {
        for (j, op) in sc.sessions[i].ops.iter().enumerate() {
            for s in simpler_ops(op) {
                let mut c = sc.clone();
                c.sessions[i].ops[j] = s;
                out.push(c);
            }
        }
    }
    if sc.sweep_seed != 0 {
        out.push(Scenario { sweep_seed: 0, ..sc.clone() });
    }
    out
}
