//! `mem` engine — memory instances cycling through a pool (C23).
//!
//! K = 1–3 simulated tasks acquire `MemoryInstance`s from a simulated pool, run an operation
//! history on them and release them dirty; every operation is judged against the `flatmem`
//! reference model (see `exec.rs`), scenarios come from `generate.rs`.
pub mod exec;
pub mod generate;

use crate::kernel::*;
use serde::{Deserialize, Serialize};

/// Values for the hooked `OwnershipRegisters` (passed as they are, consistent or not).
#[derive(Debug, Clone, Copy, Serialize, Deserialize, PartialEq)]
pub struct Own {
    pub sp: u64,
    pub ssp: u64,
    pub hp: u64,
    pub prev_hp: u64,
}

#[derive(Debug, Clone, Serialize, Deserialize, PartialEq)]
pub enum Op {
    /// `grow_stack(sp)`; a value below the current extent is the VM's stack shrink (no-op
    /// on memory, the extent stays).
    GrowStack { sp: u64 },
    /// `grow_heap_by(sp, hp_reg, amount)`; `sp` is the live stack pointer handed in.
    GrowHeap { sp: u64, amount: u64 },
    Verify { addr: u64, len: u64 },
    Read { addr: u64, len: u64 },
    /// `read_bytes::<N>` with N = n ∈ {1, 8, 32}.
    ReadBytes { addr: u64, n: u8 },
    /// `write_noownerchecks`, then fill with the pattern of `tag` (tag 0 = zeros).
    WriteRaw { addr: u64, len: u64, tag: u32 },
    /// `write(owner, ..)`, then fill.
    Write { own: Own, addr: u64, len: u64, tag: u32 },
    /// `write_bytes::<N>(owner, ..)` with N = n ∈ {8, 32}.
    WriteBytes { own: Own, addr: u64, n: u8, tag: u32 },
    Memcopy { own: Own, dst: u64, src: u64, len: u64 },
    Reset,
    /// Clone the instance (and the model) as a rollback target.
    Snapshot,
    /// `collect_rollback_data(&snapshot)` + `rollback`, when the API permits that target.
    Rollback { snap: u8 },
    /// `current == snapshot`.
    EqSnap { snap: u8 },
    /// Clone, change one accessible byte in the clone: `!=`; change it back: `==`.
    EqTouched { addr: u64 },
}

/// acquire (`pick` = 0: fresh instance, k > 0: the (k-1) mod n-th released one) → ops → release.
#[derive(Debug, Clone, Serialize, Deserialize, PartialEq)]
pub struct Session {
    pub task: u8,
    pub pick: u8,
    pub ops: Vec<Op>,
}

#[derive(Debug, Clone, Serialize, Deserialize, PartialEq)]
pub struct Scenario {
    /// Run works near the 64 MiB limit (expensive whole-memory checks are thinned out).
    pub big: bool,
    /// Seed of the sampled sweep after each operation.
    pub sweep_seed: u64,
    pub sessions: Vec<Session>,
    /// Task ids; each entry advances that task by one step (acquire / one op / release).
    /// Once exhausted, the remaining steps run task by task.
    pub schedule: Vec<u8>,
}

pub struct Mem;

impl Engine for Mem {
    type Scenario = Scenario;

    fn generate(_prop: &str, rng: &mut Rng, tier: Tier) -> Scenario {
        generate::generate(rng, tier)
    }

    fn run(_prop: &str, sc: &Scenario, ctx: &mut RunCtx) {
        exec::run(sc, ctx)
    }

    fn shrink(_prop: &str, sc: &Scenario) -> Vec<Scenario> {
        generate::shrink(sc)
    }
}

fn mem_describe(_prop: &str) -> EngineDescription {
    EngineDescription {
        rule: "Seeded pool lives: 1–3 simulated tasks run 1–6 sessions (acquire a fresh or a previously released, dirty MemoryInstance in seeded order → reset as Interpreter::init does → history of ≤ 64 operations → release dirty), interleaved by a seeded schedule. Operations: grow_stack (also below the extent = stack shrink), grow_heap_by (consistent and lower/higher live sp), verify, read, read_bytes<1|8|32>, write_noownerchecks, write / write_bytes / memcopy with hooked OwnershipRegisters (region-consistent, stack-only, arbitrary), reset, snapshot (clone) + collect_rollback_data + rollback, ==. Sizes and addresses are biased to 0,1,7,8,255,256,257, 2^k±1, MEM_SIZE±2, stack extent ±2, hp ±2, recently written addresses; 2 % of the runs work at the 64 MiB limit (stack and heap meet, heap overtakes stack extent). A third of the runs hands out only fresh instances. After every operation: same Ok/Err as the flatmem model, same bytes, newly allocated heap bytes zero, overlap refusal = MemoryWriteOverlap, hp register = model hp, a sampled sweep (4 borders ±2 single bytes, border-crossing and straddling ranges, 32 seeded addresses, 8 seeded short ranges) agrees on accessibility and content; on reused instances a fresh twin instance executes the same history and must stay == ; full accessible content is compared after reset/rollback and at release. A run is non-trivial when it contains a successful heap growth served from retained (not reallocated) heap buffer after a reset of an instance that held garbage there, or a performed rollback to a snapshot taken before stack and heap met / the heap overtook stack extent; distinct = distinct event digests among non-trivial runs.".into(),
        real_components: vec![
            "fuel_vm::interpreter::MemoryInstance (new, reset, grow_stack, grow_heap_by, verify, read, read_bytes, write_noownerchecks, write, write_bytes, memcopy, clone, collect_rollback_data, rollback, ==)".into(),
            "fuel_vm::interpreter::OwnershipRegisters via the verif-hooks constructor".into(),
            "fuel_vm::constraints::reg_key::{Reg, RegMut}".into(),
        ],
        stub_components: vec![
            "simulated memory pool (free list of dirty instances, seeded hand-out, reset on acquire)".into(),
            "simulated tasks and their seeded interleaving".into(),
            "flatmem reference model (models::flatmem): sparse 64 MiB zero array + stack_hwm + hp".into(),
        ],
        assumptions: vec![
            "The pool user resets an instance before use exactly as Interpreter::init_inner does (MemoryInstance::reset, HP register := VM_MAX_RAM).".into(),
            "grow_heap_by is called with the HP register equal to the instance's heap pointer (the interpreter keeps them in sync; a debug assertion states it).".into(),
            "Rollback data is applied to the very state it was collected from, and only toward snapshots whose heap pointer is not below the current one (the documented restriction).".into(),
            "An empty range strictly inside the inaccessible gap is outside the property's wording (counted in probes.unmodelled_empty_range_in_gap, not judged); ownership refusals of write/memcopy belong to C24 and are only required to leave memory unchanged.".into(),
            "PanicReason values are compared only for MemoryWriteOverlap; elsewhere Ok/Err.".into(),
        ],
        distinct_state_measure: "distinct event digests (operation, Ok/Err reason, digest of bytes read, model stack extent and hp after each operation) of non-trivial runs".into(),
        simulated_time_keys: vec!["mem_ops".into(), "sessions".into(), "sweep_points".into(), "bytes_compared".into()],
    }
}

pub static MEM: EngineDef = EngineDef {
    name: "mem",
    props: &["C23"],
    generate: gen_erased::<Mem>,
    run: run_erased::<Mem>,
    shrink: shrink_erased::<Mem>,
    summarize: summarize_erased::<Mem>,
    describe: mem_describe,
    runs: |_| (300_000, 7_000_000),
};
