#!/usr/bin/env python3
"""Author a mutant patch in the scratch clone /tmp/mutsrc (never in /repo).
usage: mkmut.py <name> <file> <old> <new> [<file2> <old2> <new2> ...]"""
import sys, subprocess
name = sys.argv[1]
args = sys.argv[2:]
src = '/tmp/mutsrc'
subprocess.run(['git', 'checkout', '-q', '--', '.'], cwd=src)
head = subprocess.run(['git', '-C', '/repo', 'rev-parse', 'HEAD'], capture_output=True, text=True).stdout.strip()
subprocess.run(['git', 'fetch', '-q', '/repo', 'HEAD'], cwd=src)
subprocess.run(['git', 'reset', '-q', '--hard', head], cwd=src)
for i in range(0, len(args), 3):
    f, old, new = args[i:i+3]
    p = f'{src}/{f}'
    s = open(p).read()
    if old not in s:
        print(name, 'PATTERN NOT FOUND in', f); sys.exit(1)
    open(p, 'w').write(s.replace(old, new, 1))
d = subprocess.run(['git', 'diff'], capture_output=True, text=True, cwd=src).stdout
open(f'/verif/mutants/{name}.patch', 'w').write(d)
subprocess.run(['git', 'checkout', '-q', '--', '.'], cwd=src)
print(name, 'ok', len(d), 'bytes')
