#!/usr/bin/env bash
# Confirms a seeded change in a scratch worktree of /repo (never in /repo itself):
#   tools/confirm_seed.sh <seed-dir> <crate> <demo-destination-in-repo> [extra setup diff]
#   env CONFIRM_FEATURES: cargo features for the demo and the suite (e.g. da-compression,test-helpers,random)
# Expects <seed-dir>/patch.diff and <seed-dir>/demo.rs. Prints DEMO-WITHOUT, DEMO-WITH, SUITE lines.
set -u
SEED="$(readlink -f "$1")"; CRATE="$2"; DEST="$3"; SETUP="${4:-}"
W="$(mktemp -d /tmp/confirm-XXXXXX)"; rmdir "$W"
git -C /repo worktree add -q --detach "$W" HEAD || exit 2
export CARGO_TARGET_DIR="${CONFIRM_TARGET:-/tmp/confirm-target}"
cleanup() { git -C /repo worktree remove --force "$W" >/dev/null 2>&1; }
trap cleanup EXIT
cd "$W"
mkdir -p "$(dirname "$DEST")"; cp "$SEED/demo.rs" "$DEST"
[ -n "$SETUP" ] && git apply "$SEED/$SETUP"
TESTNAME="$(basename "$DEST" .rs)"
FEAT=(); [ -n "${CONFIRM_FEATURES:-}" ] && FEAT=(--features "$CONFIRM_FEATURES")
run_demo() {
  if [[ "$DEST" == */tests/*.rs && "$DEST" != */src/* ]]; then
    cargo test -p "$CRATE" "${FEAT[@]}" --offline --test "$TESTNAME" 2>&1 | grep -E "^test result|panicked|error(\[|:)" | head -5
  else
    cargo test -p "$CRATE" "${FEAT[@]}" --offline --lib -- "$TESTNAME" 2>&1 | grep -E "^test result|panicked|error(\[|:)" | head -5
  fi
}
echo "DEMO-WITHOUT: $(run_demo | tr '\n' ' ')"
git apply "$SEED/patch.diff" || { echo "PATCH-DOES-NOT-APPLY"; exit 2; }
echo "DEMO-WITH: $(run_demo | tr '\n' ' ')"
rm -f "$DEST"; [ -n "$SETUP" ] && git apply -R "$SEED/$SETUP"
echo "SUITE($CRATE): $(cargo test -p "$CRATE" "${FEAT[@]}" --offline 2>&1 | grep -E "^test result|FAILED|panicked" | sort | uniq -c | tr '\n' ' ')"
