#!/usr/bin/env bash
# Runs every mutant patch under mutants/ against the check(s) named by its file name prefix
# (C24-foo.patch -> property C24) through tools/mutant.sh; summary on stdout.
cd "$(dirname "$0")/.."
for p in ${1:-mutants/C*.patch}; do
  id="$(basename "$p" | cut -c1-3)"
  nice -n 10 tools/mutant.sh "$p" "$id" 2>&1 | grep -E "caught|MISSED|DOES-NOT|PATCH-DOES" 
done
