#!/usr/bin/env python3
"""Replaces the block between the SEED-TABLE markers of DESIGN.md with tools/seed_table.py's output."""
import subprocess, os, re
root = os.path.join(os.path.dirname(__file__), '..')
table = subprocess.run(['python3', os.path.join(root, 'tools', 'seed_table.py')], capture_output=True, text=True).stdout.strip()
p = os.path.join(root, 'DESIGN.md')
s = open(p).read()
s = re.sub(r'<!-- SEED-TABLE-BEGIN -->.*<!-- SEED-TABLE-END -->', '<!-- SEED-TABLE-BEGIN -->\n' + table.replace('\\', '\\\\') + '\n<!-- SEED-TABLE-END -->', s, flags=re.S)
open(p, 'w').write(s)
print(len(table.splitlines()), 'table lines')
