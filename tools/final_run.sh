#!/usr/bin/env bash
# Runs every claimed check's quick tier from /verif against /repo (writes evidence/<ID>.json),
# validates evidence and manifest against their schemas. Prints one line per property.
cd "$(dirname "$0")/.."
./check build >/dev/null 2>&1 || { echo "build failed"; exit 2; }
rc_all=0
for p in C02 C07 C11 C12 C13 C14 C20 C23 C24 C25 C26 C27 C28 C29 C30 C31 C32 C33 C34 C35; do
  out=$(./check $p quick 2>&1); rc=$?
  echo "$p rc=$rc $(echo "$out" | grep -E 'runs in' | cut -c1-90)"
  [ $rc -ne 0 ] && { rc_all=1; echo "$out" | tail -5; }
done
python3 tools/gen_manifest.py >/dev/null
python3-vt - <<'PY'
import json, jsonschema, glob
m=json.load(open('MANIFEST.json')); jsonschema.validate(m,json.load(open('/root/.vp/MANIFEST.schema.json')))
es=json.load(open('/root/.vp/EVIDENCE.schema.json'))
for f in sorted(glob.glob('evidence/*.json')):
    jsonschema.validate(json.load(open(f)),es)
print('schemas ok:', len(m['checks']), 'checks,', len(glob.glob('evidence/*.json')), 'evidence files')
PY
exit $rc_all
