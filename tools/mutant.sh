#!/usr/bin/env bash
# Sensitivity tool: apply a patch to a scratch copy of /repo (never to /repo itself), build the
# simulator against it and run the given properties' quick checks.
#   tools/mutant.sh <patch-file> <ID> [<ID>...]
#   env: MUT_RUNS (override run count), MUT_TIER, MUT_WORK (scratch dir, default /tmp/mut-work;
#        use a different one per concurrent invocation), MUT_TARGET (cargo target dir)
# Prints one line per property: "<patch> <ID> caught (...)|MISSED (exit N)".
# The scratch dir is reused between invocations (rsync --delete restores it), so cargo only
# rebuilds the crates the patch touches.
set -u
ROOT="$(cd "$(dirname "$0")/.." && pwd)"
PATCH="$(readlink -f "$1")"; shift
W="${MUT_WORK:-/tmp/mut-work}"
mkdir -p "$W"
exec 9>"$W/.lock"
flock 9
# No -t and --checksum: a file whose content changes (patched now, or restored after the previous
# patch) gets a fresh mtime, so cargo rebuilds its crate. With -a a restored file would keep its
# old mtime and cargo would keep the previous patch compiled in.
rsync -rlpgoD --checksum --delete --exclude target --exclude .git /repo/ "$W/repo/"
if ! (cd "$W/repo" && patch -p1 --quiet < "$PATCH"); then
  echo "$(basename "$PATCH") PATCH-DOES-NOT-APPLY"; exit 2
fi
rsync -rlpgoD --checksum --delete --exclude target "$ROOT/sim/" "$W/sim/"
sed -i "s#\"/repo/#\"$W/repo/#g" "$W/sim/Cargo.toml"
cp "$ROOT/known_findings.json" "$ROOT/properties.jsonl" "$W/"
rm -rf "$W/replays"
export CARGO_NET_OFFLINE=true
export CARGO_TARGET_DIR="${MUT_TARGET:-$W/target}"
if ! (cd "$W/sim" && cargo build --release --offline >"$W/build.log" 2>&1); then
  echo "$(basename "$PATCH") DOES-NOT-COMPILE"; tail -20 "$W/build.log"; exit 2
fi
cp "$CARGO_TARGET_DIR/release/fvsim" "$W/fvsim"
for P in "$@"; do
  extra=()
  [ -n "${MUT_RUNS:-}" ] && extra+=(--runs "$MUT_RUNS")
  VERIF_ROOT="$W" "$W/fvsim" run --prop "$P" --tier "${MUT_TIER:-quick}" --no-evidence "${extra[@]}" >"$W/out.$P" 2>&1
  rc=$?
  if [ $rc -eq 1 ]; then
    inv="$(grep -m1 '^violation at run' "$W/out.$P" | sed 's/^violation at run //')"
    echo "$(basename "$PATCH") $P caught (run $inv)"
    grep -m1 -A1 '^violation at run' "$W/out.$P" | tail -1 | cut -c1-220
  else
    echo "$(basename "$PATCH") $P MISSED (exit $rc)"
    tail -3 "$W/out.$P"
  fi
done
