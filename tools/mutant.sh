#!/usr/bin/env bash
# Sensitivity tool: apply a patch to a scratch copy of /repo (never to /repo itself), build the
# simulator against it and run the given properties' quick checks.
#   tools/mutant.sh <patch-file> <ID> [<ID>...]       env: MUT_RUNS (override run count), MUT_TIER
# Prints one line per property: "<patch> <ID> caught|MISSED (exit N)".
set -u
ROOT="$(cd "$(dirname "$0")/.." && pwd)"
PATCH="$(readlink -f "$1")"; shift
W="$(mktemp -d /tmp/mut-XXXXXX)"
if [ -n "${MUT_KEEP:-}" ]; then echo "keeping $W"; else trap 'rm -rf "$W"' EXIT; fi
rsync -a --exclude target --exclude .git /repo/ "$W/repo/"
if ! (cd "$W/repo" && patch -p1 --quiet < "$PATCH"); then
  echo "$(basename "$PATCH") PATCH-DOES-NOT-APPLY"; exit 2
fi
rsync -a --exclude target "$ROOT/sim/" "$W/sim/"
sed -i "s#\"/repo/#\"$W/repo/#g" "$W/sim/Cargo.toml"
cp "$ROOT/known_findings.json" "$ROOT/properties.jsonl" "$W/"
export CARGO_NET_OFFLINE=true
export CARGO_TARGET_DIR="${MUT_TARGET:-/tmp/mut-target}"
if ! (cd "$W/sim" && cargo build --release --offline >"$W/build.log" 2>&1); then
  echo "$(basename "$PATCH") DOES-NOT-COMPILE"; tail -20 "$W/build.log"; exit 2
fi
cp "$CARGO_TARGET_DIR/release/fvsim" "$W/fvsim"
for P in "$@"; do
  extra=()
  [ -n "${MUT_RUNS:-}" ] && extra+=(--runs "$MUT_RUNS")
  VERIF_ROOT="$W" "$W/fvsim" run --prop "$P" --tier "${MUT_TIER:-quick}" --no-evidence "${extra[@]}" >"$W/out.$P" 2>&1
  rc=$?
  if [ $rc -eq 1 ]; then
    inv="$(grep -m1 '^violation at run' "$W/out.$P" | sed 's/^violation at run //')"
    echo "$(basename "$PATCH") $P caught (run $inv)"
    grep -m1 -A1 '^violation at run' "$W/out.$P" | tail -1 | cut -c1-220
  else
    echo "$(basename "$PATCH") $P MISSED (exit $rc)"
    tail -3 "$W/out.$P"
  fi
done
