#!/usr/bin/env bash
# tools/process_seed.sh <name> <seed-dir> <crate> <demo-dest> <setup-diff-or-> <prop> [<prop>...]
# Confirms a seeded change (scratch worktree), runs the listed checks against it (scratch copy),
# stores everything under /verif/seeded/<name>/ with meta.json.
set -u
ROOT="$(cd "$(dirname "$0")/.." && pwd)"
NAME="$1"; SEED="$2"; CRATE="$3"; DEST="$4"; SETUP="$5"; shift 5
[ "$SETUP" = "-" ] && SETUP=""
OUT="$ROOT/seeded/$NAME"; mkdir -p "$OUT"
cp "$SEED/patch.diff" "$OUT/patch.diff"; cp "$SEED/demo.rs" "$OUT/demo.rs"
[ -f "$SEED/notes.md" ] && cp "$SEED/notes.md" "$OUT/notes.md"
[ -n "$SETUP" ] && cp "$SEED/$SETUP" "$OUT/$SETUP"
CONF="$("$ROOT/tools/confirm_seed.sh" "$SEED" "$CRATE" "$DEST" $SETUP 2>&1 | grep -E "^(DEMO|SUITE|PATCH)")"
CHECKS="$(MUT_TARGET="${MUT_TARGET:-/tmp/mut-target2}" "$ROOT/tools/mutant.sh" "$SEED/patch.diff" "$@" 2>&1 | grep -E "caught|MISSED|DOES-NOT|PATCH-DOES")"
python3 - "$NAME" "$OUT" "$CRATE" "$DEST" "$CONF" "$CHECKS" "$@" <<'PY'
import sys, json, re
name, out, crate, dest, conf, checks = sys.argv[1:7]
props = sys.argv[7:]
lines = conf.splitlines()
get = lambda p: next((l for l in lines if l.startswith(p + ":") or l.startswith(p + "(")), "")
res = {}
for l in checks.splitlines():
    m = re.match(r"\S+ (C\d\d) (caught|MISSED)(.*)", l)
    if m: res[m.group(1)] = (m.group(2) + m.group(3)).strip()
meta = {
  "name": name, "breaks_property": props[0], "source": "independent sub-agent given only the property text and a scratch worktree",
  "demo_location": dest, "crate": crate,
  "confirmation": {"demo_without_change": get("DEMO-WITHOUT"), "demo_with_change": get("DEMO-WITH"), "existing_suite_with_change": get("SUITE")},
  "checks_run": res,
  "what_ran": "tools/confirm_seed.sh (scratch git worktree of /repo: demo without patch, demo with patch, crate test suite with patch) and tools/mutant.sh (scratch copy of /repo + patch, simulator rebuilt against it, quick check of each listed property)",
}
json.dump(meta, open(out + "/meta.json", "w"), indent=1)
print(name, json.dumps(res), "| demo-with:", "FAILED" in get("DEMO-WITH") or "panicked" in get("DEMO-WITH"), "| demo-without ok:", "ok." in get("DEMO-WITHOUT"), "| suite failed:", "FAILED" in get("SUITE"))
PY
