#!/usr/bin/env python3
"""Prints the markdown table of independently seeded changes (seeded/*/meta.json)."""
import json, glob, os
# Seeded changes the checks do not flag on purpose (see DESIGN §13.6 for the reasons).
BY_DESIGN = {
    'C32-seed3': 'not a violation: fewer debug events, results equal (probe)',
    'C28-seed4': 'outside the statement: field of the Panic receipt',
    'C28-seed6': 'outside the statement: field of the Panic receipt',
    'C11-seed6': 'outside the statement: state after a failed push (upstream WARNING)',
    'C29-seed6': 'C29 needs gas exhaustion at the stale return address; C31 catches it',
}
rows = []
for m in sorted(glob.glob(os.path.join(os.path.dirname(__file__), '..', 'seeded', '*', 'meta.json'))):
    d = json.load(open(m))
    notes = os.path.join(os.path.dirname(m), 'notes.md')
    title = ''
    if os.path.exists(notes):
        for l in open(notes):
            l = l.strip().lstrip('#').strip()
            if l and not (len(l) < 8 and l.startswith('C')) and not l.lower().startswith('breaks'):
                title = l[:110]
                break
    checks = '; '.join(f"{k}: {v.split(':')[0].split('(')[0].strip()}" + (f" ({v.split('invariant=')[1].split(' ')[0]})" if 'invariant=' in v else '') for k, v in d.get('checks_run', {}).items())
    if not d.get('verdict_after_mtime_fix'):
        checks += ' †'
    if d['name'] in BY_DESIGN:
        checks += ' — ' + BY_DESIGN[d['name']]
    rows.append(f"| {d['name']} | {d['breaks_property']} | {title} | {checks} |")
print("| seeded change | property | what | verdict of the checks |\n|---|---|---|---|")
# † = verdict recorded by tools/mutant.sh before its mtime fix (a reverted file kept its old
# mtime, so cargo could keep an earlier seeded change of ANOTHER crate compiled in); not re-run
# after the fix for lack of time.
print('\n'.join(rows))
