#!/usr/bin/env python3
"""Prints the markdown table of independently seeded changes (seeded/*/meta.json)."""
import json, glob, os
rows = []
for m in sorted(glob.glob(os.path.join(os.path.dirname(__file__), '..', 'seeded', '*', 'meta.json'))):
    d = json.load(open(m))
    notes = os.path.join(os.path.dirname(m), 'notes.md')
    title = ''
    if os.path.exists(notes):
        for l in open(notes):
            l = l.strip().lstrip('#').strip()
            if l:
                title = l[:110]
                break
    checks = '; '.join(f"{k}: {v.split(':')[0].split('(')[0].strip()}" + (f" ({v.split('invariant=')[1].split(' ')[0]})" if 'invariant=' in v else '') for k, v in d.get('checks_run', {}).items())
    rows.append(f"| {d['name']} | {d['breaks_property']} | {title} | {checks} |")
print("| seeded change | property | what | verdict of the checks |\n|---|---|---|---|")
print('\n'.join(rows))
