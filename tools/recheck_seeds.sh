#!/usr/bin/env bash
# Re-runs the checks against every kept seeded change (seeded/*/patch.diff) with the current
# simulator and updates the verdicts in each meta.json ("checks_run"). Confirmation of the
# change itself (demo / suite) is not repeated.
#   tools/recheck_seeds.sh [name-glob]        env: MUT_WORK, MUT_TARGET as for tools/mutant.sh
#   RECHECK_SHARD=i/n takes every n-th directory starting at the i-th (run n instances with
#   different MUT_WORK / MUT_TARGET to use the machine).
cd "$(dirname "$0")/.."
SH_I="${RECHECK_SHARD%%/*}"; SH_N="${RECHECK_SHARD##*/}"; [ -z "${RECHECK_SHARD:-}" ] && { SH_I=0; SH_N=1; }
k=-1
for d in seeded/${1:-*}/; do
  k=$((k+1)); [ $((k % SH_N)) -eq "$SH_I" ] || continue
  name="$(basename "$d")"
  props="$(python3 -c "import json,sys; m=json.load(open('$d/meta.json')); ks=list(m.get('checks_run',{}).keys()) or [m['breaks_property']]; print(' '.join(ks))")"
  out="$(tools/mutant.sh "$d/patch.diff" $props 2>&1 | grep -E "caught|MISSED|DOES-NOT|PATCH-DOES")"
  python3 - "$d/meta.json" "$out" <<'PY'
import sys, json, re
p, out = sys.argv[1], sys.argv[2]
m = json.load(open(p))
res = {}
for l in out.splitlines():
    mm = re.match(r"\S+ (C\d\d) (caught|MISSED)(.*)", l)
    if mm: res[mm.group(1)] = (mm.group(2) + mm.group(3)).strip()
if res:
    m['checks_run'] = res
    json.dump(m, open(p, 'w'), indent=1)
print(m['name'], json.dumps(res) if res else 'NO RESULT: ' + out[:200])
PY
done
