#!/usr/bin/env python3
"""Regenerates /verif/MANIFEST.json from the table below (keeps it valid at all times)."""
import json, os, subprocess

ROOT = os.path.dirname(os.path.dirname(os.path.abspath(__file__)))

PURE = {
    "C01": "pure function of one value (size/encode/decode); no schedule, clock, fault or history enters — not a simulation target",
    "C03": "pure function of one transaction and chain id (id computation); nothing the simulator owns can influence it",
    "C04": "pure function of one transaction (offset tables vs encoding); no event order, cut point or seam behaviour involved",
    "C05": "pure function of (transaction, selector, index) evaluated by one GTF/GM instruction; no history, fault or interleaving",
    "C06": "pure function of one value (serde round-trips, checksum); no schedule, fault or history",
    "C08": "pure function of one 32-bit word / argument tuple (exhaustive enumeration is the right tool, not seeded simulation)",
    "C09": "pure function of the leaf list; (the receipts-root clause is re-derived inside C28's check, not claimed here)",
    "C10": "pure function of (leaves, index, proof) tuples; no history or fault",
    "C15": "pure function of code, salt and storage slots",
    "C16": "pure function of (signature, message) across two builds; a differential input test, no schedule/fault/history",
    "C17": "pure function of (key, message, signature)",
    "C18": "pure arithmetic on (transaction, price, parameters)",
    "C19": "pure function of (transaction, block height, parameters); the height is an argument, not an evolving clock",
    "C21": "single-instruction function of operand values and flags",
    "C22": "single-instruction function of operand values, modes and flags",
    "C36": "pure function of (stored value, offset, length); storage errors are outside the stated read contract",
}

# id -> (engine, design_ref, technique, level text, level note)
CLAIMED = {
    "C11": ("merkle-binary", "DESIGN.md §6 C11, §4.3",
            "deterministic simulation: seeded push/reset/load/crash/IO-error histories on a fault-injecting node store, checked step by step against an RFC 6962 leaf-vector model",
            "Seeded search over operation/fault histories on the real storage-backed, in-memory and calculator trees; every step is compared with an independent RFC 6962 reference (root, count, every proof, refusals). Sampling, not enumeration: a clean batch is evidence, not proof.",
            "Trusted: the ~100-line RFC 6962 reference, SimKV's crash model (atomic loss of un-flushed writes; partial survival only without reset/fork in the window), SHA-256 from the sha2 crate."),
    "C20": ("pred", "DESIGN.md §6 C20, §4.2",
            "deterministic simulation: one signed transaction with generator-known truth per input behind a seeded ParallelExecutor / VmMemoryPool / fault-injecting blob store; estimate→verify, sequential-vs-parallel under 8/64 schedules, exact gas ±1, tampering in transit, independent secp256k1 authorization oracle",
            "Seeded search over transactions (signed and predicate inputs from a 14-production predicate grammar with known truth values), executor schedules (start order × result order × pooled-memory state × Pending polls), blob-store errors, moved block height, declared-gas ±1 and tampered re-decoded copies, all against the real into_checked_basic / check_signatures / check_predicates(_async) / estimate_predicates(_async). Sampling, not enumeration: a clean batch is evidence, not proof.",
            "Trusted: the generator's truth values (template programs), transaction id computation and secp256k1 recovery (C03/C17 out of scope). 'Estimation Ok implies verification Ok' is asserted only for transactions whose predicates are true by construction (the code and its tests deliberately let estimation succeed on failing predicates). Which failing predicate an error names is not compared."),
}

PLANNED = {
}

def main():
    props = [json.loads(l) for l in open(os.path.join(ROOT, "properties.jsonl"))]
    ids = [p["id"] for p in props]
    checks = []
    for pid in ids:
        if pid in CLAIMED:
            eng, ref, tech, text, note = CLAIMED[pid]
            checks.append({
                "property_id": pid,
                "quick_cmd": f"./check {pid} quick",
                "thorough_cmd": f"./check {pid} thorough",
                "evidence_file": f"/verif/evidence/{pid}.json",
                "replay_cmd_template": "./check replay {path}",
                "engine": eng,
                "level_claimed": {"category": "exploration", "text": text, "design_ref": ref},
                "level_note": note,
                "technique": tech,
            })
    na = []
    for pid in ids:
        if pid in CLAIMED:
            continue
        if pid in PURE:
            na.append({"property_id": pid, "reason": "not applicable to deterministic simulation: " + PURE[pid]})
        else:
            na.append({"property_id": pid, "reason": PLANNED.get(pid, "simulation check designed (DESIGN.md §6) but not built/validated yet; not claimed")})
    hooks = subprocess.run(["git", "-C", "/repo", "log", "--format=%h %s", "--grep=^verif hook"],
                           capture_output=True, text=True).stdout.strip().splitlines()
    engines = {}
    for pid, v in CLAIMED.items():
        engines.setdefault(v[0], []).append(pid)
    manifest = {
        "version": 1,
        "setup_cmd": "./check build",
        "hooks": {
            "guard": "cargo feature `verif-hooks` of crate fuel-vm (off by default)",
            "enable": "the simulator crate /verif/sim depends on /repo/fuel-vm by path with features [\"test-helpers\", \"verif-hooks\", ...]; ./check build rebuilds it from /repo's working tree",
            "baseline_off_cmd": "cd /repo && cargo nextest run --workspace --no-fail-fast --tool-config-file pb:/w/lib/nextest.toml --profile pb --test-threads 8 --offline",
            "source_commits": [h.split()[0] for h in hooks],
            "add_only": True,
        },
        "engines": [
            {"name": name, "path": "/verif/sim/src/engines", "serves_properties": sorted(ps),
             "kind_free_text": "deterministic simulator engine of fvsim (seeded scenario generator, fault injector, reference-model oracle, minimiser, replay)"}
            for name, ps in sorted(engines.items())
        ],
        "checks": checks,
        "not_applicable": na,
        "notes": "All checks: ./check <ID> quick|thorough; VERIF_SEED selects the batch seed (default 0x5EEDF0E1); replay files under /verif/replays; known findings in /verif/known_findings.json. See DESIGN.md.",
    }
    with open(os.path.join(ROOT, "MANIFEST.json"), "w") as f:
        json.dump(manifest, f, indent=1)
        f.write("\n")

if __name__ == "__main__":
    main()
