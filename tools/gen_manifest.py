#!/usr/bin/env python3
"""Regenerates /verif/MANIFEST.json from the table below (keeps it valid at all times)."""
import json, os, subprocess

ROOT = os.path.dirname(os.path.dirname(os.path.abspath(__file__)))

PURE = {
    "C01": "pure function of one value (size/encode/decode); no schedule, clock, fault or history enters — not a simulation target",
    "C03": "pure function of one transaction and chain id (id computation); nothing the simulator owns can influence it",
    "C04": "pure function of one transaction (offset tables vs encoding); no event order, cut point or seam behaviour involved",
    "C05": "pure function of (transaction, selector, index) evaluated by one GTF/GM instruction; no history, fault or interleaving",
    "C06": "pure function of one value (serde round-trips, checksum); no schedule, fault or history",
    "C08": "pure function of one 32-bit word / argument tuple (exhaustive enumeration is the right tool, not seeded simulation)",
    "C09": "pure function of the leaf list; (the receipts-root clause is re-derived inside C28's check, not claimed here)",
    "C10": "pure function of (leaves, index, proof) tuples; no history or fault",
    "C15": "pure function of code, salt and storage slots",
    "C16": "pure function of (signature, message) across two builds; a differential input test, no schedule/fault/history",
    "C17": "pure function of (key, message, signature)",
    "C18": "pure arithmetic on (transaction, price, parameters)",
    "C19": "pure function of (transaction, block height, parameters); the height is an argument, not an evolving clock",
    "C21": "single-instruction function of operand values and flags",
    "C22": "single-instruction function of operand values, modes and flags",
    "C36": "pure function of (stored value, offset, length); storage errors are outside the stated read contract",
}

# id -> (engine, design_ref, technique, level text, level note)
CLAIMED = {
    "C11": ("merkle-binary", "DESIGN.md §6 C11, §4.3",
            "deterministic simulation: seeded push/reset/load/crash/IO-error histories on a fault-injecting node store, checked step by step against an RFC 6962 leaf-vector model",
            "Seeded search over operation/fault histories on the real storage-backed, in-memory and calculator trees; every step is compared with an independent RFC 6962 reference (root, count, every proof, refusals). Sampling, not enumeration: a clean batch is evidence, not proof.",
            "Trusted: the ~100-line RFC 6962 reference, SimKV's crash model (atomic loss of un-flushed writes; partial survival only without reset/fork in the window), SHA-256 from the sha2 crate."),
    "C02": ("wire", "DESIGN.md §6 C02, §4.5",
            "deterministic simulation: an encoder node writes real transactions / inputs / outputs / receipts through a fault-injecting canonical::Output, a medium truncates, flips, overwrites, zeroes, concatenates and appends, a decoder node reads through a fault-injecting canonical::Input; no-panic, consumed == size, decode∘encode fixed point, errors never swallowed",
            "Seeded search over batches of records (all 6 transaction kinds from TransactionBuilder / constructors / TransactionFactory plus structural mutations, 7 input, 5 output, 13 receipt variants, policies and small types) crossed with explicit fault plans (torn write at byte k, truncation classes, bit flips, word overwrites aimed via a write-trace layout map at discriminants / length prefixes / counts / policy bits / index fields, zeroed block, concatenation, trailing garbage, wrong decoder, EOF at byte k, refused k-th read/skip/peek). Every Ok is checked for consumed == size() == to_bytes().len() and for decode(to_bytes()) == value; intact records must round-trip; a third of the runs is fault-free. Sampling, not enumeration: a clean batch is evidence, not proof.",
            "Trusted: SimInput/SimOutput/medium (≈ 250 lines), the layout map used only for aiming faults, PartialEq of the repository types between two decoded values. Not decided: which malformed byte strings must be rejected (the property only demands no panic and a fixed point); memory use of the decoder (reported as a probe: a length prefix below VEC_DECODE_LIMIT makes Vec::with_capacity reserve up to tens of GiB before any element is read)."),
    "C23": ("mem", "DESIGN.md §6 C23, §4.4",
            "deterministic simulation: 1–3 simulated tasks cycle real MemoryInstances through a simulated pool (dirty hand-out, reset on acquire) and run seeded histories of growth / access / copy / reset / snapshot+rollback / == on them, checked operation by operation against a sparse flat 64 MiB reference model",
            "Seeded search over pool lives and operation histories (≤ 64 operations per history, 2 % of the runs at the 64 MiB limit); after every operation Ok/Err, bytes read, zero content of newly allocated heap, overlap refusal, the HP register and a sampled sweep of all region borders are compared with the flatmem model, a fresh twin instance shadows every reused instance, and rollbacks are compared with the snapshot. Sampling, not enumeration: a clean batch is evidence, not proof.",
            "Trusted: the ~300-line flatmem model (accessibility rule end ≤ stack_hwm ∨ start ≥ hp, zero on (re)exposure), the pool discipline copied from Interpreter::init_inner (reset + HP := VM_MAX_RAM), the hooked OwnershipRegisters constructor. Empty ranges strictly inside the gap and ownership refusals are not judged. Known finding F-4 (collect_rollback_data panics when the snapshot's stack extent is above the current one) is listed in known_findings.json."),
    "C07": ("da", "DESIGN.md §6 C07, §4.5",
            "deterministic simulation: seeded transaction streams compressed into one fault-injecting registry context (failing / pending / cancelled calls, key wrap-around, eviction, rollback and retry), decompressed block-wise against versioned snapshots in a seeded poll interleaving, judged field by field against the skip/restore contract",
            "Seeded search over streams of 8–64 transactions of all six kinds sharing one registry whose key cursors wrap within the run; every acknowledged transaction is decompressed against the snapshot of its block and compared (kind, witnesses, predicate_gas_used, all fields with the 23 compress(skip) field sites defaulted or restored, canonical bytes, id). Sampling, not enumeration: a clean batch is evidence, not proof.",
            "Trusted: the simulator's registry (eviction policy, keep-keys per block, default-key shortcut), its chain tables and its context-side decompression of Coin/Message/Mint (these impls live in the embedder, not in this repository), the hand-written expected(t) table of skip sites, the (k+1) mod (2^24-1) successor model, postcard."),
    "C20": ("pred", "DESIGN.md §6 C20, §4.2",
            "deterministic simulation: one signed transaction with generator-known truth per input behind a seeded ParallelExecutor / VmMemoryPool / fault-injecting blob store; estimate→verify, sequential-vs-parallel under 8/64 schedules, exact gas ±1, tampering in transit, independent secp256k1 authorization oracle",
            "Seeded search over transactions (signed and predicate inputs from a 14-production predicate grammar with known truth values), executor schedules (start order × result order × pooled-memory state × Pending polls), blob-store errors, moved block height, declared-gas ±1 and tampered re-decoded copies, all against the real into_checked_basic / check_signatures / check_predicates(_async) / estimate_predicates(_async). Sampling, not enumeration: a clean batch is evidence, not proof.",
            "Trusted: the generator's truth values (template programs), transaction id computation and secp256k1 recovery (C03/C17 out of scope). 'Estimation Ok implies verification Ok' is asserted only for transactions whose predicates are true by construction (the code and its tests deliberately let estimation succeed on failing predicates). Which failing predicate an error names is not compared."),
}

SMT_NOTE = "Trusted: the ~150-line compact-SMT reference (root/prove/verify by recursion on the bit index), SimKV's crash model (one atomic batch per completed tree operation), SHA-256 from the sha2 crate, collision resistance."
CLAIMED.update({
    "C12": ("merkle-sparse", "DESIGN.md §6 C12, §4.3",
            "deterministic simulation: seeded insert/overwrite/delete histories with injected store errors, root compared after every step with a compact-SMT reference over the model map",
            "Seeded search over histories on clustered keys, on the storage-backed tree over a fault-injecting node store and the in-memory tree; every step compared with an independent compact-SMT reference; the four set constructors compared on shuffled maps. Sampling, not enumeration.",
            SMT_NOTE),
    "C13": ("merkle-sparse", "DESIGN.md §6 C13, §4.3",
            "deterministic simulation with crash/restart injection: restart from persisted nodes at every point of every history; crash (atomic / partial survival) and lost-node faults judged by a fail-stop oracle",
            "Every history point is a simulated restart: load from the cloned node store, compare all proofs with the original and with a map-derived reference, replay the following operations on the reloaded tree. Crashes inside operations and lost durable nodes must fail-stop. Sampling, not enumeration.",
            SMT_NOTE),
    "C14": ("merkle-sparse", "DESIGN.md §6 C14, §4.3",
            "deterministic simulation: proofs from history-built trees shipped through a seeded corrupting channel; library verdict compared with an independent compact-tree verifier; no false statement may be accepted",
            "Honest proofs checked for kind, content and (non-)verification against all pool keys/values; corrupted tuples (12 corruption kinds, stale roots) checked against an independent recomputation and against the truth of the model map. Sampling, not enumeration.",
            SMT_NOTE),
})

VM_NOTE = "Trusted: the simulator's embedder protocol (commit on success, restore the pre-transaction snapshot on revert/panic/error, exactly as MemoryClient::transact), the SimStorage wrapper (delegates every call to the real MemoryStorage), the program generator; transactions pass the basic checks only."
CLAIMED.update({
    "C28": ("vm", "DESIGN.md §6 C28, §4.1",
            "deterministic simulation: seeded chain histories executed by a reference replica; receipt grammar, RFC 6962 receipts root, revert/panic output reset checked per transaction; differential run through the real MemoryClient for storage rollback",
            "Seeded search over generated programs (panics at arbitrary instructions, reverts inside nested calls, gas exhaustion); every completed script's receipts/outputs judged by an independent oracle; the real MemoryClient must leave storage untouched after reverted transactions. Sampling, not enumeration.",
            VM_NOTE + " Receipt floods up to the 65 535 limit: 1 run in 1 200 (quick), 1 in 200 (thorough)."),
    "C29": ("vm", "DESIGN.md §6 C29, §4.1",
            "deterministic simulation with fault injection: raw-byte and grammar programs (boundary-sized operands, receipt floods) single-stepped or run uninterrupted under a process supervisor, on fresh and reused interpreters, with storage I/O errors; no host panic or abort, no Bug error, gas strictly decreasing per instruction under the default schedule",
            "Three quarters of the transactions are single-stepped (debugger as event loop) with pokes into writable registers and a storage fault at a seeded call, one quarter runs through one uninterrupted transact; half of the runs keep one interpreter for all transactions; host panics are caught in-process, aborts and hangs by the process supervisor (and minimised in forked children). Sampling, not enumeration.",
            VM_NOTE + " A transaction rejected at initialisation with a CheckError (e.g. input balance overflow) counts as rejected, not executed."),
    "C31": ("vm", "DESIGN.md §6 C31, §4.1",
            "deterministic simulation with crash/restart injection: replicated execution (fresh vs reused interpreter, dirty pooled memory, storage error/crash + rollback + retry, abandoned debug session, the real long-lived MemoryClient over the whole history incl. refused transactions) with replica agreement after every transaction",
            "Replica agreement on (state, receipts, output transaction, storage digest) after every transaction of seeded histories; crashed replicas must agree after one retry. Sampling, not enumeration.",
            VM_NOTE),
    "C32": ("vm", "DESIGN.md §6 C32, §4.1",
            "deterministic simulation: single-stepped and breakpoint-interrupted replicas resumed to completion vs an uninterrupted reference; debug events embedded into the observed arrival trace",
            "Random breakpoint sets (script, callee, loop targets) and single-stepping; results must equal the reference and every debug event must match a distinct arrival with pre-instruction registers. Sampling, not enumeration.",
            VM_NOTE),
})

OBS_NOTE = VM_NOTE + " The observer regains control between any two instructions through the repository's own Debugger (single-stepping; C32 separately checks that this does not change results). Instructions whose operands name $cgas/$ggas are skipped and counted (operand read vs gas charge order is not pinned)."
CLAIMED.update({
    "C24": ("vm", "DESIGN.md §6 C24, §4.1",
            "deterministic simulation: observer replica single-steps generated call trees; whole-memory diff after every instruction against the ownership registers, plus panic-reason prediction for the load/store/copy family",
            "Every byte changed by an instruction must lie in the frame's stack or heap region (before or after growth) or in the VM's own writes of that opcode (call frame + code, loaded code, balance entries, outputs); LB/LW/LQW/LHW/SB/SW/SQW/SHW/MCL/MCLI/MCP/MCPI/MEQ/LOGD/RETD/S256/K256 panics are predicted from the accessibility/ownership model; ALOC'd bytes must be zero. Sampling, not enumeration.",
            OBS_NOTE + " Steps taken while the stack or the heap exceeds 256 KiB are not diffed (counted)."),
    "C25": ("vm", "DESIGN.md §6 C25, §4.1",
            "deterministic simulation: observer replica single-steps generated programs with loops, JAL subroutines and boundary-biased jump operands; $pc compared after every instruction with an unbounded-integer model of the 12 jump instructions, CALL entry and return targets",
            "Per step: taken/untaken target, MemoryOverflow iff the target leaves memory, link register, +4 for every other completed instruction, execution only inside [$is,$ssp), fetch panics only outside it. Sampling, not enumeration.",
            OBS_NOTE),
    "C30": ("vm", "DESIGN.md §6 C30, §4.1, §9 F-3",
            "deterministic simulation: a recording InterpreterStorage seam attributes every contract-table access to the single-stepped instruction that made it; contract-addressing instructions are aimed at input, deployed-non-input and absent contracts",
            "Every ContractsRawCode / ContractsState / ContractsAssets access (including contains_key and size_of_value) must name an input contract, and the active context is always an input contract. One known finding (F-3: CALL probes the target's code size before the inputs check) is listed and reported as KNOWN-FINDING. Sampling, not enumeration.",
            OBS_NOTE + " Scope: script transactions; predicate execution cannot reach contract tables by type (PredicateStorage) and is exercised by C20's engine."),
    "C34": ("vm", "DESIGN.md §6 C34, §4.1",
            "deterministic simulation: observer replica snapshots registers and the caller's memory region at every CALL and compares at the matching return; call frame bytes and the callee's first state are decoded and checked",
            "CALL itself leaves the caller's region untouched and places the frame at the caller's $sp; frame layout (callee id, asset id, saved registers, code size, a, b); copied code == stored bytecode + zero padding; callee $fp/$ssp/$sp/$is/$pc/$bal/$flag; register restore except $cgas/$ggas/$ret/$retl/$hp with $pc+4, caller region byte-identical, $hp unchanged by the return itself, callee heap readable after return. Sampling, not enumeration.",
            OBS_NOTE),
})

CLAIMED.update({
    "C35": ("vm-tables", "DESIGN.md §6 C35, §9 F-2",
            "deterministic simulation with fault injection: seeded histories of Create / Blob / Upload / Upgrade transactions (out-of-order, duplicate, interleaved uploads; upgrades against taken versions) against a table model, with and without embedder rollback and with storage errors + retry",
            "After every transaction the five tables (shadow of all storage writes behind the InterpreterStorage seam) must equal the model; a rejected transaction must leave them unchanged even without any rollback by the embedder. Sampling, not enumeration.",
            "Trusted: the ~100-line table model, the SimStorage shadow map, the assumption that current versions advance only at block boundaries."),
})

CLAIMED.update({
    "C26": ("vm", "DESIGN.md §6 C26, §4.1",
            "deterministic simulation with gas-exhaustion injection: observer replica single-steps generated call trees under default / unit / randomized-distinct / sparse-zero gas schedules and drawn gas limits; an independent schedule evaluator predicts the ordered charges of every instruction",
            "Per step: $cgas ≤ $ggas, $ggas never increases, consumed gas == sum of the prescribed charges (fixed, dependent, storage hot/cold read — hotness from the monitor's own set of touched slots, not from the VM's cache —, write, new-byte, new-balance-entry stages), out-of-gas zeroes $cgas and takes exactly the remaining context gas, other panics consume a prefix of the stages; CALL forwarding = min(requested, remaining) with the remainder saved in the frame; unspent gas credited on return; ScriptResult.gas_used == limit − $ggas. Sampling, not enumeration.",
            OBS_NOTE + " The opcode→cost-field table is transcribed from the pinned implementation and the fuel-asm documentation (the FuelVM specification is not available offline) and frozen in /verif; ECAL's cost is the host handler's."),
    "C27": ("vm", "DESIGN.md §6 C27, §4.1",
            "deterministic simulation with fault injection: observer replica matches every Transfer / TransferOut / Call / Mint / Burn / MessageOut receipt with the balance movement seen at the storage seam and through the verif_balances hook, checks the in-memory balance table against the internal free balances after every step, and closes a per-asset ledger equation at the end of every transaction",
            "Per step: balance deltas (contract balances from recorded ContractsAssets writes, free balances from the hook) must equal exactly the movements announced by that step's receipts; memory balance table == internal balances. Per transaction: inputs + contracts before + minted == outputs + contracts after + burned + unclaimed + fee + messages, in u128. Sampling, not enumeration.",
            OBS_NOTE + " Hook used: Interpreter::verif_balances (feature verif-hooks). Fee uses the repository's min_gas (C18's territory) and own ceiling arithmetic."),
    "C33": ("vm", "DESIGN.md §6 C33, §4.1",
            "deterministic simulation with cache-eviction buggify and storage faults: observer replica predicts, from a plain per-contract key-value map, the registers, $err, destination bytes, panics and post-state of all 13 storage instructions and compares the whole persistent table after every storage step",
            "Sequences of legacy and dynamic storage instructions over few overlapping keys (consecutive keys, range ends at 2^256−1), across calls, contracts and transactions; the slot cache is cleared / partially evicted between instructions at seeded points. Sampling, not enumeration.",
            OBS_NOTE + " Panics outside the map model (memory, gas, reserved register, context) are allowed at any storage instruction."),
})

PLANNED = {
}

def main():
    props = [json.loads(l) for l in open(os.path.join(ROOT, "properties.jsonl"))]
    ids = [p["id"] for p in props]
    checks = []
    for pid in ids:
        if pid in CLAIMED:
            eng, ref, tech, text, note = CLAIMED[pid]
            checks.append({
                "property_id": pid,
                "quick_cmd": f"./check {pid} quick",
                "thorough_cmd": f"./check {pid} thorough",
                "evidence_file": f"/verif/evidence/{pid}.json",
                "replay_cmd_template": "./check replay {path}",
                "engine": eng,
                "level_claimed": {"category": "exploration", "text": text, "design_ref": ref},
                "level_note": note,
                "technique": tech,
            })
    na = []
    for pid in ids:
        if pid in CLAIMED:
            continue
        if pid in PURE:
            na.append({"property_id": pid, "reason": "not applicable to deterministic simulation: " + PURE[pid]})
        else:
            na.append({"property_id": pid, "reason": PLANNED.get(pid, "simulation check designed (DESIGN.md §6) but not built/validated yet; not claimed")})
    hooks = subprocess.run(["git", "-C", "/repo", "log", "--format=%h %s", "--grep=^verif hook"],
                           capture_output=True, text=True).stdout.strip().splitlines()
    engines = {}
    for pid, v in CLAIMED.items():
        engines.setdefault(v[0], []).append(pid)
    manifest = {
        "version": 1,
        "setup_cmd": "./check build",
        "hooks": {
            "guard": "cargo feature `verif-hooks` of crate fuel-vm (off by default)",
            "enable": "the simulator crate /verif/sim depends on /repo/fuel-vm by path with features [\"test-helpers\", \"verif-hooks\", ...]; ./check build rebuilds it from /repo's working tree",
            "baseline_off_cmd": "cd /repo && cargo nextest run --workspace --no-fail-fast --tool-config-file pb:/w/lib/nextest.toml --profile pb --test-threads 8 --offline",
            "source_commits": [h.split()[0] for h in hooks],
            "add_only": True,
        },
        "engines": [
            {"name": name, "path": "/verif/sim/src/engines", "serves_properties": sorted(ps),
             "kind_free_text": "deterministic simulator engine of fvsim (seeded scenario generator, fault injector, reference-model oracle, minimiser, replay)"}
            for name, ps in sorted(engines.items())
        ],
        "checks": checks,
        "not_applicable": na,
        "notes": "All checks: ./check <ID> quick|thorough; VERIF_SEED selects the batch seed (default 0x5EEDF0E1); replay files under /verif/replays; known findings in /verif/known_findings.json. See DESIGN.md.",
    }
    with open(os.path.join(ROOT, "MANIFEST.json"), "w") as f:
        json.dump(manifest, f, indent=1)
        f.write("\n")

if __name__ == "__main__":
    main()
